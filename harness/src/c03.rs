//! C03 (BC1–BC5 part): block decoding against the format specification.
//!
//! case   `B <fmt> <prec> <wblocks> <hex of N blocks>`
//!        fmt  in bc1 bc2 bc2rgb bc2p bc3 bc3rgb bc3p rxgb bc3n bc4u bc4s bc5u bc5s
//!        prec in 8 16 32;  the surface is (4*wblocks) x (4*N/wblocks) pixels, blocks in row-major order
//! result `ok <8 hex digits per block>`: hash of the block's 16 pixels (pixel order, channel order,
//!        every value as u32: u8 value, u16 value or f32 bit pattern)
//!
//! The oracle re-computes, for every pixel and channel, the set of values the *specification* admits
//! (exact rational interpolation of the endpoints, nearest representable value; both neighbours are
//! admitted on an exact tie) in u128 integer arithmetic and reports every value outside of it.
use crate::common::*;
use dds::*;

#[derive(Clone, Copy, PartialEq, Debug)]
pub enum Kind {
    Bc1,
    Bc2,
    Bc2Rgb,
    Bc2P,
    Bc3,
    Bc3Rgb,
    Bc3P,
    Rxgb,
    Bc3n,
    Bc4u,
    Bc4s,
    Bc5u,
    Bc5s,
}
use Kind::*;

pub const KINDS: [(&str, Kind); 13] = [
    ("bc1", Bc1),
    ("bc2", Bc2),
    ("bc2rgb", Bc2Rgb),
    ("bc2p", Bc2P),
    ("bc3", Bc3),
    ("bc3rgb", Bc3Rgb),
    ("bc3p", Bc3P),
    ("rxgb", Rxgb),
    ("bc3n", Bc3n),
    ("bc4u", Bc4u),
    ("bc4s", Bc4s),
    ("bc5u", Bc5u),
    ("bc5s", Bc5s),
];

impl Kind {
    fn name(self) -> &'static str {
        KINDS.iter().find(|k| k.1 == self).unwrap().0
    }
    fn format(self) -> Format {
        match self {
            Bc1 => Format::BC1_UNORM,
            Bc2 | Bc2Rgb => Format::BC2_UNORM,
            Bc2P => Format::BC2_UNORM_PREMULTIPLIED_ALPHA,
            Bc3 | Bc3Rgb => Format::BC3_UNORM,
            Bc3P => Format::BC3_UNORM_PREMULTIPLIED_ALPHA,
            Rxgb => Format::BC3_UNORM_RXGB,
            Bc3n => Format::BC3_UNORM_NORMAL,
            Bc4u => Format::BC4_UNORM,
            Bc4s => Format::BC4_SNORM,
            Bc5u => Format::BC5_UNORM,
            Bc5s => Format::BC5_SNORM,
        }
    }
    fn channels(self) -> Channels {
        match self {
            Bc1 | Bc2 | Bc2P | Bc3 | Bc3P => Channels::Rgba,
            Bc2Rgb | Bc3Rgb | Rxgb | Bc3n | Bc5u | Bc5s => Channels::Rgb,
            Bc4u | Bc4s => Channels::Grayscale,
        }
    }
    fn nch(self) -> usize {
        match self.channels() {
            Channels::Rgba => 4,
            Channels::Rgb => 3,
            _ => 1,
        }
    }
    fn bpb(self) -> usize {
        match self {
            Bc1 | Bc4u | Bc4s => 8,
            _ => 16,
        }
    }
}

// ---------------------------------------------------------------------------------------------
// specification oracle (integer / rational arithmetic only)

/// integers `v` in `0..=max` nearest to `max*num/den` (two values on an exact tie)
fn nearest_int(num: u128, den: u128, max: u128) -> Vec<u32> {
    let n = num * max;
    let lo = n / den;
    let r = n % den;
    if r * 2 < den {
        vec![lo as u32]
    } else if r * 2 > den {
        vec![lo as u32 + 1]
    } else {
        vec![lo as u32, lo as u32 + 1]
    }
}

/// bit patterns of the binary32 values nearest to `num/den` (0 <= num/den, normal range or zero)
fn nearest_f32(num: u128, den: u128) -> Vec<u32> {
    if num == 0 {
        return vec![0];
    }
    // e with 2^e <= num/den < 2^(e+1)
    let mut e: i32 = 0;
    if num >= den {
        while num >= (den << (e + 1) as u32) {
            e += 1;
        }
    } else {
        e = -1;
        // num/den < 2^e  <=>  num * 2^-e < den
        while (num << (-e) as u32) < den {
            e -= 1;
        }
    }
    assert!(e >= -60 && e <= 60);
    // m = num/den * 2^(23-e)
    let sh = 23 - e;
    let (n, d) = if sh >= 0 { (num << sh as u32, den) } else { (num, den << (-sh) as u32) };
    let q = n / d;
    let r = n % d;
    let enc = |m: u128, e: i32| -> u32 {
        let (m, e) = if m == 1 << 24 { (1u128 << 23, e + 1) } else { (m, e) };
        (((e + 127) as u32) << 23) + (m as u32 - (1 << 23))
    };
    if r * 2 < d {
        vec![enc(q, e)]
    } else if r * 2 > d {
        vec![enc(q + 1, e)]
    } else {
        vec![enc(q, e), enc(q + 1, e)]
    }
}

/// what the specification admits for one channel of one pixel
#[derive(Clone, Debug)]
enum Want {
    /// an 8-bit value `v` from the list, widened exactly (`v`, `v*257`, nearest f32 of `v/255`)
    Eight(Vec<u32>),
    /// the value `num/den` in [0,1], quantised per precision
    Frac(u128, u128),
}

fn widen8(v: u32, prec: u32) -> Vec<u32> {
    match prec {
        8 => vec![v],
        16 => vec![v * 257],
        _ => nearest_f32(v as u128, 255),
    }
}

impl Want {
    fn admits(&self, prec: u32) -> Vec<u32> {
        match self {
            Want::Eight(vs) => vs.iter().flat_map(|&v| widen8(v, prec)).collect(),
            Want::Frac(n, d) => match prec {
                8 => nearest_int(*n, *d, 255),
                16 => nearest_int(*n, *d, 65535),
                _ => nearest_f32(*n, *d),
            },
        }
    }
}

fn le16(b: &[u8]) -> u32 {
    b[0] as u32 | (b[1] as u32) << 8
}

/// colour part of BC1/BC2/BC3: admitted 8-bit values of [r,g,b,a] for pixel i
fn spec_color(b: &[u8], i: usize, bc1_modes: bool) -> [Vec<u32>; 4] {
    let c0 = le16(&b[0..2]);
    let c1 = le16(&b[2..4]);
    let idx = (b[4] as u32) | (b[5] as u32) << 8 | (b[6] as u32) << 16 | (b[7] as u32) << 24;
    let k = (idx / 4u32.pow(i as u32)) % 4;
    let four = !bc1_modes || c0 > c1;
    // fields: red = top 5 bits, green = middle 6, blue = low 5
    let f = |c: u32| [(c / 2048, 31u128), ((c / 32) % 64, 63u128), (c % 32, 31u128)];
    let (e0, e1) = (f(c0), f(c1));
    if !four && k == 3 {
        return [vec![0], vec![0], vec![0], vec![0]];
    }
    let mut out: [Vec<u32>; 4] = [vec![], vec![], vec![], vec![255]];
    for ch in 0..3 {
        let (a, m) = (e0[ch].0 as u128, e0[ch].1);
        let bb = e1[ch].0 as u128;
        let (num, den) = match (k, four) {
            (0, _) => (a, m),
            (1, _) => (bb, m),
            (2, true) => (2 * a + bb, 3 * m),
            (3, true) => (a + 2 * bb, 3 * m),
            (2, false) => (a + bb, 2 * m),
            _ => unreachable!(),
        };
        out[ch] = nearest_int(num, den, 255);
    }
    out
}

/// BC4 block: fraction admitted for pixel i. `signed`: SNORM mapped to [0,1] by (v+1)/2.
fn spec_bc4(b: &[u8], i: usize, signed: bool) -> (u128, u128) {
    let mut w: u64 = 0;
    for j in 0..6 {
        w |= (b[2 + j] as u64) << (8 * j);
    }
    let k = ((w / 8u64.pow(i as u32)) % 8) as u128;
    let (e0, e1, six, m): (u128, u128, bool, u128) = if signed {
        let s0 = b[0] as i8 as i32;
        let s1 = b[1] as i8 as i32;
        let cl = |s: i32| (s.max(-127) + 127) as u128;
        (cl(s0), cl(s1), s0 > s1, 254)
    } else {
        (b[0] as u128, b[1] as u128, b[0] > b[1], 255)
    };
    match (k, six) {
        (0, _) => (e0, m),
        (1, _) => (e1, m),
        (k, true) => ((8 - k) * e0 + (k - 1) * e1, 7 * m),
        (6, false) => (0, 1),
        (7, false) => (1, 1),
        (k, false) => ((6 - k) * e0 + (k - 1) * e1, 5 * m),
    }
}

/// BC3n: admitted 8-bit z for 8-bit x (=r), y (=g):  z = 0.5*sqrt(1-(2r-1)^2-(2g-1)^2)+0.5
fn spec_z(r: u32, g: u32) -> Vec<u32> {
    let x = 2 * r as i64 - 255;
    let y = 2 * g as i64 - 255;
    let d = (255 * 255 - x * x - y * y).max(0);
    // 255*z = (sqrt(d)+255)/2 ; k admitted iff 2k-256 <= sqrt(d) <= 2k-254
    (0..256i64)
        .filter(|&k| {
            let l = 2 * k - 256;
            let u = 2 * k - 254;
            (l <= 0 || l * l <= d) && (u >= 0 && u * u >= d)
        })
        .map(|k| k as u32)
        .collect()
}

fn unpremul(c: u32, a: u32) -> u32 {
    // as the code has it (no rounding rule is documented): truncating c*255/a, saturated; a = 0 leaves c
    let a = if a == 0 { 255 } else { a };
    (c * 255 / a).min(255)
}

/// admitted values per channel for pixel i of a block
fn spec_pixel(kind: Kind, b: &[u8], i: usize) -> Vec<Want> {
    let e8 = |v: Vec<u32>| Want::Eight(v);
    match kind {
        Bc1 => spec_color(b, i, true).into_iter().map(e8).collect(),
        Bc2 | Bc2Rgb | Bc2P | Bc3 | Bc3Rgb | Bc3P | Rxgb | Bc3n => {
            let mut c = spec_color(&b[8..16], i, false);
            if matches!(kind, Bc2 | Bc2Rgb | Bc2P) {
                let mut w: u64 = 0;
                for j in 0..8 {
                    w |= (b[j] as u64) << (8 * j);
                }
                let a4 = ((w / 16u64.pow(i as u32)) % 16) as u128;
                c[3] = nearest_int(a4, 15, 255);
            } else {
                let (n, d) = spec_bc4(&b[0..8], i, false);
                c[3] = nearest_int(n, d, 255);
            }
            let [r, g, bl, a] = c;
            // colour channels of BC2/BC3 have no ties (denominators 31*3, 63*3 are odd)
            match kind {
                Bc2 | Bc3 => vec![e8(r), e8(g), e8(bl), e8(a)],
                Bc2Rgb | Bc3Rgb => vec![e8(r), e8(g), e8(bl)],
                Bc2P | Bc3P => {
                    let mut out = vec![];
                    for ch in [&r, &g, &bl] {
                        let mut s: Vec<u32> = vec![];
                        for &cv in ch.iter() {
                            for &av in a.iter() {
                                s.push(unpremul(cv, av));
                            }
                        }
                        out.push(e8(s));
                    }
                    out.push(e8(a));
                    out
                }
                Rxgb => vec![e8(a), e8(g), e8(bl)],
                Bc3n => {
                    let mut z = vec![];
                    for &av in a.iter() {
                        for &gv in g.iter() {
                            z.extend(spec_z(av, gv));
                        }
                    }
                    vec![e8(a), e8(g), e8(z)]
                }
                _ => unreachable!(),
            }
        }
        Bc4u | Bc4s => {
            let (n, d) = spec_bc4(b, i, kind == Bc4s);
            vec![Want::Frac(n, d)]
        }
        Bc5u | Bc5s => {
            let s = kind == Bc5s;
            let (n0, d0) = spec_bc4(&b[0..8], i, s);
            let (n1, d1) = spec_bc4(&b[8..16], i, s);
            // missing channel = 0; 0 in SNORM space is 1/2 in the unsigned mapping
            vec![Want::Frac(n0, d0), Want::Frac(n1, d1), if s { Want::Frac(1, 2) } else { Want::Frac(0, 1) }]
        }
    }
}

// ---------------------------------------------------------------------------------------------
// running the implementation

pub fn hash_block(vals: &[u32]) -> u32 {
    let mut h: u32 = 0x811C_9DC5;
    for &v in vals {
        h = (h ^ v).wrapping_mul(16777619);
        h ^= h >> 15;
    }
    h
}

fn hex_decode(s: &str) -> Option<Vec<u8>> {
    if s.len() % 2 != 0 {
        return None;
    }
    let b = s.as_bytes();
    let d = |c: u8| -> Option<u8> {
        match c {
            b'0'..=b'9' => Some(c - b'0'),
            b'a'..=b'f' => Some(c - b'a' + 10),
            _ => None,
        }
    };
    (0..b.len() / 2).map(|i| Some(d(b[2 * i])? << 4 | d(b[2 * i + 1])?)).collect()
}
fn hex_encode(b: &[u8]) -> String {
    let mut s = String::with_capacity(b.len() * 2);
    for x in b {
        s.push_str(&format!("{x:02x}"));
    }
    s
}

/// decode a surface of `wb` x `hb` blocks through the public API; returns per block the 16*nch values
pub fn decode_blocks(kind: Kind, prec: u32, wb: usize, data: &[u8]) -> Result<Vec<Vec<u32>>, String> {
    let n = data.len() / kind.bpb();
    let hb = n / wb;
    let (w, h) = (4 * wb, 4 * hb);
    let p = match prec {
        8 => Precision::U8,
        16 => Precision::U16,
        _ => Precision::F32,
    };
    let color = ColorFormat::new(kind.channels(), p);
    let bpp = color.bytes_per_pixel() as usize;
    let mut out = vec![0xA5u8; w * h * bpp];
    let view = ImageViewMut::new(&mut out, Size::new(w as u32, h as u32), color).ok_or("view")?;
    let mut reader: &[u8] = data;
    decode(&mut reader, view, kind.format(), &DecodeOptions::default()).map_err(|e| format!("{e:?}"))?;
    if !reader.is_empty() {
        return Err("reader-not-at-end".into());
    }
    let nch = kind.nch();
    let bytes = bpp / nch;
    let mut res = Vec::with_capacity(n);
    for blk in 0..n {
        let (bx, by) = (blk % wb, blk / wb);
        let mut vals = Vec::with_capacity(16 * nch);
        for i in 0..16 {
            let (x, y) = (bx * 4 + i % 4, by * 4 + i / 4);
            let o = (y * w + x) * bpp;
            for c in 0..nch {
                let q = &out[o + c * bytes..o + (c + 1) * bytes];
                vals.push(match bytes {
                    1 => q[0] as u32,
                    2 => u16::from_le_bytes([q[0], q[1]]) as u32,
                    _ => u32::from_le_bytes([q[0], q[1], q[2], q[3]]),
                });
            }
        }
        res.push(vals);
    }
    Ok(res)
}

pub fn run(line: &str) -> Option<(String, Vec<String>)> {
    let t = toks(line);
    if t.len() != 5 || t[0] != "B" {
        return None;
    }
    let kind = KINDS.iter().find(|k| k.0 == t[1])?.1;
    let prec: u32 = t[2].parse().ok()?;
    if ![8, 16, 32].contains(&prec) {
        return None;
    }
    let wb: usize = t[3].parse().ok()?;
    let data = hex_decode(t[4])?;
    let bpb = kind.bpb();
    if wb == 0 || data.is_empty() || data.len() % bpb != 0 || (data.len() / bpb) % wb != 0 {
        return None;
    }
    let blocks = match decode_blocks(kind, prec, wb, &data) {
        Ok(b) => b,
        Err(e) => return Some((format!("err {e}"), vec![format!("decode failed: {e}")])),
    };
    let nch = kind.nch();
    let mut res = String::from("ok ");
    let mut oracle = vec![];
    for (bi, vals) in blocks.iter().enumerate() {
        res.push_str(&format!("{:08x}", hash_block(vals)));
        let b = &data[bi * bpb..(bi + 1) * bpb];
        for i in 0..16 {
            let want = spec_pixel(kind, b, i);
            for c in 0..nch {
                let got = vals[i * nch + c];
                let adm = want[c].admits(prec);
                if !adm.contains(&got) && oracle.len() < 8 {
                    let f = |v: u32| if prec == 32 { format!("0x{v:08x}") } else { format!("{v}") };
                    oracle.push(format!(
                        "{} prec {} block {} pixel {} channel {}: decoded {} but the specification gives {} (block #{} of the case)",
                        kind.name(),
                        prec,
                        hex_encode(b),
                        i,
                        c,
                        f(got),
                        adm.iter().map(|&v| f(v)).collect::<Vec<_>>().join(" or "),
                        bi
                    ));
                }
            }
        }
    }
    Some((res, oracle))
}

// ---------------------------------------------------------------------------------------------
// generation

struct Out {
    lines: Vec<String>,
    batch: usize,
}
impl Out {
    fn emit(&mut self, kind: Kind, prec: u32, blocks: &[Vec<u8>]) {
        const WBS: [usize; 7] = [8, 4, 16, 2, 64, 1, 32];
        for (j, ch) in blocks.chunks(self.batch).enumerate() {
            let mut wb = WBS[(j + self.lines.len()) % 7];
            if ch.len() % wb != 0 {
                wb = 1;
            }
            let mut hex = String::with_capacity(ch.len() * 32);
            for b in ch {
                hex.push_str(&hex_encode(b));
            }
            self.lines.push(format!("B {} {} {} {}", kind.name(), prec, wb, hex));
        }
    }
}

fn pack565(r: u32, g: u32, b: u32) -> u16 {
    ((r << 11) | (g << 5) | b) as u16
}
/// 2-bit indices: pixel i gets (i + j) % 4
fn idx2(j: u32) -> [u8; 4] {
    let mut w: u32 = 0;
    for i in 0..16 {
        w |= ((i + j) % 4) << (2 * i);
    }
    w.to_le_bytes()
}
/// 3-bit indices: pixel i gets (i + j) % 8
fn idx3(j: u64) -> [u8; 6] {
    let mut w: u64 = 0;
    for i in 0..16u64 {
        w |= ((i + j) % 8) << (3 * i);
    }
    let b = w.to_le_bytes();
    [b[0], b[1], b[2], b[3], b[4], b[5]]
}
fn color_block(c0: u16, c1: u16, idx: [u8; 4]) -> Vec<u8> {
    let mut v = vec![];
    v.extend(c0.to_le_bytes());
    v.extend(c1.to_le_bytes());
    v.extend(idx);
    v
}
fn bc4_block(e0: u8, e1: u8, idx: [u8; 6]) -> Vec<u8> {
    let mut v = vec![e0, e1];
    v.extend(idx);
    v
}
fn rand_bytes(rng: &mut Rng, n: usize) -> Vec<u8> {
    let mut v = Vec::with_capacity(n);
    while v.len() < n {
        v.extend(rng.next().to_le_bytes());
    }
    v.truncate(n);
    v
}
/// pairs (a,b) of 5-bit values with a>b, resp. a<b
fn ordered_pairs(gt: bool) -> Vec<(u32, u32)> {
    let mut v = vec![];
    for a in 0..32 {
        for b in 0..32 {
            if (gt && a > b) || (!gt && a < b) {
                v.push((a, b));
            }
        }
    }
    v
}

/// the 8-byte colour blocks of the decomposition: every 6-bit green pair x both orders of the packed
/// colours (forced by red) x every red pair (in its forced order) x every blue pair in both orders;
/// `rots`: index rotations used per endpoint combination (4 = every index at every position)
fn color_decomposition(rots: &[u32], rng: &mut Rng) -> Vec<Vec<u8>> {
    let gt = ordered_pairs(true);
    let lt = ordered_pairs(false);
    let mut v = vec![];
    for p in 0..4096u32 {
        let (g0, g1) = (p / 64, p % 64);
        let q = (p * 5 + 3) % 1024;
        let (b0, b1) = (q / 32, q % 32);
        for (o, list) in [&gt, &lt].into_iter().enumerate() {
            let (r0, r1) = list[(p as usize + 17 * o) % list.len()];
            for &j in rots {
                let j = if rots.len() == 1 { (p + j) % 4 } else { j };
                v.push(color_block(pack565(r0, g0, b0), pack565(r1, g1, b1), idx2(j)));
            }
        }
        // equal red: the order is decided by green (and blue when green is equal too)
        let r = p % 32;
        v.push(color_block(pack565(r, g0, b0), pack565(r, g1, b1), idx2(p % 4)));
    }
    // equal red and green: order decided by blue; all blue pairs
    for q in 0..1024u32 {
        let (b0, b1) = (q / 32, q % 32);
        let (r, g) = (q % 32, (q * 7) % 64);
        v.push(color_block(pack565(r, g, b0), pack565(r, g, b1), idx2(q % 4)));
    }
    // equal colours, neighbours, extremes
    for t in 0..256u32 {
        let c = if t < 8 { [0u16, 1, 0x7FFF, 0x8000, 0xFFFE, 0xFFFF, 0x001F, 0x07E0][t as usize] } else { rng.next() as u16 };
        v.push(color_block(c, c, idx2(t % 4)));
        v.push(color_block(c, c.wrapping_add(1), idx2(t % 4)));
        v.push(color_block(c.wrapping_add(1), c, idx2(t % 4)));
    }
    v
}

/// (a,b) with 2a+b = n, a,b <= max
fn third_pair(n: u32, max: u32) -> (u32, u32) {
    let a = (n / 2).min(max);
    let mut a = a;
    while n - 2 * a > max {
        a += 1;
    }
    while 2 * a > n {
        a -= 1;
    }
    (a, n - 2 * a)
}

pub fn gen(seed: u64, thorough: bool) -> Vec<String> {
    let mut rng = Rng::new(seed ^ 0xC03);
    let mut out = Out { lines: vec![], batch: 64 };
    let precs = [8u32, 16, 32];
    let color_kinds = [Bc1, Bc2, Bc2Rgb, Bc2P, Bc3, Bc3Rgb, Bc3P, Rxgb, Bc3n];

    // --- fixed regression blocks -----------------------------------------------------------
    // BC3 colour with color0 <= color1 (must still be 4-colour), BC1 same block (3-colour + transparent)
    for &p in &precs {
        let cb = color_block(0x0000, 0xFFFF, [0xE4, 0x1B, 0x4E, 0xB1]);
        out.emit(Bc1, p, &[cb.clone()]);
        for k in [Bc2, Bc2Rgb, Bc3, Bc3Rgb, Bc3P, Rxgb, Bc3n, Bc2P] {
            let mut b = vec![0xFF, 0x00, 0x88, 0xC6, 0xFA, 0x53, 0x97, 0x1F];
            b.extend(cb.clone());
            out.emit(k, p, &[b]);
        }
        // BC4: 1/255 reached as endpoint and as interpolant; SNORM -128 / -127
        out.emit(Bc4u, p, &[bc4_block(1, 1, idx3(0)), bc4_block(1, 0, idx3(0)), bc4_block(0, 255, idx3(3))]);
        out.emit(Bc4s, p, &[bc4_block(0x81, 0x80, idx3(0)), bc4_block(0x80, 0x81, idx3(0)), bc4_block(0x80, 0x7F, idx3(1)), bc4_block(0x7F, 0x80, idx3(5))]);
    }

    // --- BC1/2/3 colour decomposition --------------------------------------------------------
    let full = color_decomposition(&[0, 1, 2, 3], &mut rng);
    let one = color_decomposition(&[0], &mut rng);
    for &k in &color_kinds {
        for &p in &precs {
            let all_rot = thorough || (p == 8 && matches!(k, Bc1 | Bc2 | Bc3));
            let light = !thorough && p != 8 && !matches!(k, Bc1 | Bc2 | Bc3);
            let cbs = if all_rot { &full } else { &one };
            let mut blocks = Vec::with_capacity(cbs.len());
            for (n, cb) in cbs.iter().enumerate() {
                if light && n % 4 != (p as usize / 16) {
                    continue;
                }
                if k == Bc1 {
                    blocks.push(cb.clone());
                } else {
                    let mut b = rand_bytes(&mut rng, 8);
                    b.extend(cb);
                    blocks.push(b);
                }
            }
            out.emit(k, p, &blocks);
        }
    }

    // --- BC2 explicit alpha: every nibble value at every position -----------------------------
    for &k in &[Bc2, Bc2P] {
        for &p in &precs {
            let mut blocks = vec![];
            for j in 0..16u64 {
                let mut w: u64 = 0;
                for i in 0..16u64 {
                    w |= ((i + j) % 16) << (4 * i);
                }
                let mut b = w.to_le_bytes().to_vec();
                b.extend(rand_bytes(&mut rng, 8));
                blocks.push(b);
            }
            out.emit(k, p, &blocks);
        }
    }

    // --- BC4 / BC5 / BC3 alpha: all 256 x 256 endpoint pairs, every index at rotating positions -
    // one block shows all 8 palette entries; `rots` rotations move every entry over every position
    let bc4_all = |rots: u64, stride: usize, phase: usize| -> Vec<Vec<u8>> {
        let mut v = vec![];
        for p in (phase..65536usize).step_by(stride) {
            for j in 0..rots {
                let j = if rots == 1 { (p as u64 + p as u64 / 256) % 8 } else { j };
                v.push(bc4_block((p / 256) as u8, (p % 256) as u8, idx3(j)));
            }
        }
        v
    };
    for &k in &[Bc4u, Bc4s] {
        for &p in &precs {
            let blocks = if thorough { bc4_all(8, 1, 0) } else { bc4_all(1, 1, 0) };
            out.emit(k, p, &blocks);
        }
    }
    for &k in &[Bc5u, Bc5s] {
        for &p in &precs {
            // red half walks all pairs, green half walks them in another order
            let halves = if thorough { bc4_all(2, 1, 0) } else { bc4_all(1, 2, (p as usize / 16) % 2) };
            let n = halves.len();
            let mut blocks = vec![];
            for (i, h) in halves.iter().enumerate() {
                let mut b = h.clone();
                b.extend(&halves[(i * 7 + n / 3) % n]);
                blocks.push(b);
            }
            out.emit(k, p, &blocks);
        }
    }
    // BC3 alpha half = BC4 UNORM at 8 bit
    for &k in &[Bc3, Bc3P, Rxgb, Bc3n] {
        for &p in &precs {
            let halves = if thorough {
                bc4_all(1, 1, 0)
            } else if k == Bc3 && p == 8 {
                bc4_all(1, 1, 0)
            } else {
                bc4_all(1, 16, (p as usize / 8 + k as usize) % 16)
            };
            let blocks: Vec<Vec<u8>> = halves
                .iter()
                .map(|h| {
                    let mut b = h.clone();
                    b.extend(rand_bytes(&mut rng, 8));
                    b
                })
                .collect();
            out.emit(k, p, &blocks);
        }
    }

    // --- variants: every (alpha value, colour value) combination -------------------------------
    // alpha endpoints (2t, 2t+1) selected by index 0/1; colour pair chosen so that the palette has the
    // third colour of numerator n (green 0..189, red/blue 0..93); pixel i: alpha index i%2, colour (i/2)%4
    {
        let mut blocks = vec![];
        for t in 0..128u32 {
            for n in 0..190u32 {
                let (g0, g1) = third_pair(n, 63);
                let (r0, r1) = third_pair((n + t) % 94, 31);
                let (b0, b1) = third_pair((n * 3 + t) % 94, 31);
                let mut aw: u64 = 0;
                let mut cw: u32 = 0;
                for i in 0..16u32 {
                    aw |= ((i % 2) as u64) << (3 * i);
                    cw |= ((i / 2 + n) % 4) << (2 * i);
                }
                let ab = aw.to_le_bytes();
                let mut b = vec![(2 * t) as u8, (2 * t + 1) as u8, ab[0], ab[1], ab[2], ab[3], ab[4], ab[5]];
                b.extend(color_block(pack565(r0, g0, b0), pack565(r1, g1, b1), cw.to_le_bytes()));
                blocks.push(b);
            }
        }
        for &k in &[Bc3n, Bc3P, Rxgb] {
            for &p in &precs {
                if p == 8 || thorough {
                    out.emit(k, p, &blocks);
                } else {
                    let sub: Vec<Vec<u8>> = blocks.iter().skip(p as usize / 16).step_by(16).cloned().collect();
                    out.emit(k, p, &sub);
                }
            }
        }
        // BC2 premultiplied: 16 alpha values x colour numerators
        let mut b2 = vec![];
        for a4 in 0..16u64 {
            for n in 0..190u32 {
                let (g0, g1) = third_pair(n, 63);
                let (r0, r1) = third_pair(n % 94, 31);
                let (b0, b1) = third_pair((n * 3 + 1) % 94, 31);
                let mut w: u64 = 0;
                for i in 0..16u64 {
                    w |= (if i % 8 < 4 { a4 } else { (a4 + 1 + i) % 16 }) << (4 * i);
                }
                let mut b = w.to_le_bytes().to_vec();
                b.extend(color_block(pack565(r0, g0, b0), pack565(r1, g1, b1), idx2(n % 4)));
                b2.push(b);
            }
        }
        for &p in &precs {
            out.emit(Bc2P, p, &b2);
        }
    }

    // --- PRNG full blocks ----------------------------------------------------------------------
    let nrand = if thorough { 65536 } else { 1024 };
    for &(_, k) in &KINDS {
        for &p in &precs {
            let blocks: Vec<Vec<u8>> = (0..nrand)
                .map(|t| {
                    let mut b = rand_bytes(&mut rng, k.bpb());
                    // a quarter with equal / adjacent endpoints so that both modes and the boundary are hit
                    match t % 8 {
                        0 => {
                            let o = k.bpb() - 8;
                            if matches!(k, Bc4u | Bc4s | Bc5u | Bc5s) {
                                b[o + 1] = b[o];
                            } else {
                                b[o + 2] = b[o];
                                b[o + 3] = b[o + 1];
                            }
                        }
                        1 => {
                            if k.bpb() == 16 {
                                b[1] = b[0].wrapping_add(1);
                            }
                        }
                        _ => {}
                    }
                    b
                })
                .collect();
            out.emit(k, p, &blocks);
        }
    }
    out.lines
}
