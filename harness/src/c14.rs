//! C14 — parallel, sequential and fragment-wise encoding produce identical bytes.
//!
//! Case kinds
//!   sup FORMAT                                   encoding support record of a format
//!   geo FORMAT W H DITH QUALITY                  `SplitView::new` geometry (len, every fragment's offset/height)
//!   enc FORMAT W H COLOR DITH QUALITY METRIC THREADS ORDER SEED
//!                                                bytes of `dds::encode` sequential vs parallel (pool of THREADS
//!                                                workers, fragment completion ORDER imposed through the hook)
//!                                                vs fragment-by-fragment concatenation
//!   mip FORMAT W H COLOR FILTER STRAIGHT SEED    a whole file through `Encoder` with generated mipmaps, parallel
//!                                                switch off vs on: identical bytes
//!   pad FORMAT W H COLOR DITH QUALITY SEED       padding rules of the block / sub-sampled encoders: the image
//!                                                W x H against the image rounded up to whole blocks whose extra
//!                                                columns repeat the last pixel of each row and whose extra rows
//!                                                repeat the FIRST row of the last (partial) row group — tie of
//!                                                the data-flow model EncRows.lean only, no oracle (not part of
//!                                                the property)
//!
//! The oracle is evaluated on the implementation alone: tiling facts of the fragments and byte equality
//! of the three outputs.  This module also hosts the helpers shared with C17 (format table, image
//! generator, the scheduling hook and the pool cache).
use crate::common::*;
use dds::*;
use std::sync::{Arc, Condvar, Mutex, OnceLock};
use std::time::{Duration, Instant};

// ------------------------------------------------------------------------------------------------
// format / option tables

macro_rules! fmts {
    ($($n:ident),* $(,)?) => { &[ $( (stringify!($n), Format::$n) ),* ] };
}
pub const FORMATS: &[(&str, Format)] = fmts!(
    R8G8B8_UNORM, B8G8R8_UNORM, R8G8B8A8_UNORM, R8G8B8A8_SNORM, B8G8R8A8_UNORM, B8G8R8X8_UNORM,
    B5G6R5_UNORM, B5G5R5A1_UNORM, B4G4R4A4_UNORM, A4B4G4R4_UNORM, R8_SNORM, R8_UNORM, R8G8_UNORM,
    R8G8_SNORM, A8_UNORM, R16_UNORM, R16_SNORM, R16G16_UNORM, R16G16_SNORM, R16G16B16A16_UNORM,
    R16G16B16A16_SNORM, R10G10B10A2_UNORM, R11G11B10_FLOAT, R9G9B9E5_SHAREDEXP, R16_FLOAT,
    R16G16_FLOAT, R16G16B16A16_FLOAT, R32_FLOAT, R32G32_FLOAT, R32G32B32_FLOAT, R32G32B32A32_FLOAT,
    R10G10B10_XR_BIAS_A2_UNORM, AYUV, Y410, Y416, R1_UNORM, R8G8_B8G8_UNORM, G8R8_G8B8_UNORM, UYVY,
    YUY2, Y210, Y216, NV12, P010, P016, BC1_UNORM, BC2_UNORM, BC2_UNORM_PREMULTIPLIED_ALPHA,
    BC3_UNORM, BC3_UNORM_PREMULTIPLIED_ALPHA, BC4_UNORM, BC4_SNORM, BC5_UNORM, BC5_SNORM, BC6H_UF16,
    BC6H_SF16, BC7_UNORM, ASTC_4X4_UNORM, ASTC_5X4_UNORM, ASTC_5X5_UNORM, ASTC_6X5_UNORM,
    ASTC_6X6_UNORM, ASTC_8X5_UNORM, ASTC_8X6_UNORM, ASTC_8X8_UNORM, ASTC_10X5_UNORM,
    ASTC_10X6_UNORM, ASTC_10X8_UNORM, ASTC_10X10_UNORM, ASTC_12X10_UNORM, ASTC_12X12_UNORM,
    BC3_UNORM_RXGB, BC3_UNORM_NORMAL,
);

pub fn parse_format(s: &str) -> Option<Format> {
    FORMATS.iter().find(|(n, _)| *n == s).map(|(_, f)| *f)
}
pub fn encodable() -> Vec<(&'static str, Format)> {
    FORMATS
        .iter()
        .filter(|(_, f)| f.encoding_support().is_some())
        .copied()
        .collect()
}
pub fn is_bc(name: &str) -> bool {
    name.starts_with("BC")
}

pub fn parse_dith(s: &str) -> Option<Dithering> {
    Some(match s {
        "none" => Dithering::None,
        "color" => Dithering::Color,
        "alpha" => Dithering::Alpha,
        "all" => Dithering::ColorAndAlpha,
        _ => return None,
    })
}
pub fn dith_name(d: Dithering) -> &'static str {
    match d {
        Dithering::None => "none",
        Dithering::Color => "color",
        Dithering::Alpha => "alpha",
        Dithering::ColorAndAlpha => "all",
    }
}
pub fn parse_quality(s: &str) -> Option<CompressionQuality> {
    Some(match s {
        "fast" => CompressionQuality::Fast,
        "normal" => CompressionQuality::Normal,
        "high" => CompressionQuality::High,
        "unr" => CompressionQuality::Unreasonable,
        _ => return None,
    })
}
pub fn parse_metric(s: &str) -> Option<ErrorMetric> {
    Some(match s {
        "uni" => ErrorMetric::Uniform,
        "perc" => ErrorMetric::Perceptual,
        _ => return None,
    })
}
pub fn parse_color(s: &str) -> Option<ColorFormat> {
    let (c, p) = s.split_at(s.len().checked_sub(if s.ends_with('8') { 1 } else { 2 })?);
    let ch = match c {
        "g" => Channels::Grayscale,
        "a" => Channels::Alpha,
        "rgb" => Channels::Rgb,
        "rgba" => Channels::Rgba,
        _ => return None,
    };
    let pr = match p {
        "8" => Precision::U8,
        "16" => Precision::U16,
        "32" => Precision::F32,
        _ => return None,
    };
    Some(ColorFormat::new(ch, pr))
}
pub const COLORS: &[&str] = &[
    "g8", "a8", "rgb8", "rgba8", "g16", "a16", "rgb16", "rgba16", "g32", "a32", "rgb32", "rgba32",
];

pub fn options(d: Dithering, q: CompressionQuality, m: ErrorMetric, parallel: bool) -> EncodeOptions {
    let mut o = EncodeOptions::default();
    o.dithering = d;
    o.quality = q;
    o.error_metric = m;
    o.parallel = parallel;
    o
}

// ------------------------------------------------------------------------------------------------
// images

/// Deterministic image content: smooth gradients with seeded noise (so that dithering, refinement and
/// the block encoders' different modes are all exercised), values in range for the precision.
pub fn make_image(w: u32, h: u32, color: ColorFormat, seed: u64) -> Vec<u8> {
    let mut rng = Rng::new(seed ^ 0xC14);
    let ch = color.channels.count() as usize;
    let n = w as usize * h as usize;
    let mut out = Vec::with_capacity(n * color.bytes_per_pixel() as usize);
    let style = rng.below(3);
    for i in 0..n {
        let x = (i % w.max(1) as usize) as f32 / w.max(1) as f32;
        let y = (i / w.max(1) as usize) as f32 / h.max(1) as f32;
        for c in 0..ch {
            let base = match (style, c) {
                (0, _) => (rng.next() >> 40) as f32 / (1u64 << 24) as f32,
                (1, 0) => x,
                (1, 1) => y,
                (1, 2) => 1.0 - x,
                (1, _) => 0.5 + 0.5 * (x - y),
                (_, 3) => {
                    if rng.chance(1, 4) {
                        (rng.next() >> 40) as f32 / (1u64 << 24) as f32
                    } else {
                        1.0
                    }
                }
                (_, _) => (x * 3.0 + y * 2.0 + c as f32 * 0.3).fract(),
            };
            let noise = ((rng.next() >> 40) as f32 / (1u64 << 24) as f32 - 0.5) * 0.06;
            let v = (base + noise).clamp(0.0, 1.0);
            match color.precision {
                Precision::U8 => out.push((v * 255.0 + 0.5) as u8),
                Precision::U16 => out.extend_from_slice(&((v * 65535.0 + 0.5) as u16).to_ne_bytes()),
                Precision::F32 => out.extend_from_slice(&v.to_ne_bytes()),
            }
        }
    }
    out
}

// ------------------------------------------------------------------------------------------------
// pools

pub fn pool(n: usize) -> &'static rayon::ThreadPool {
    static POOLS: OnceLock<Vec<OnceLock<rayon::ThreadPool>>> = OnceLock::new();
    let v = POOLS.get_or_init(|| (0..=64).map(|_| OnceLock::new()).collect());
    v[n.min(64)].get_or_init(|| {
        rayon::ThreadPoolBuilder::new()
            .num_threads(n.min(64).max(1))
            .build()
            .unwrap()
    })
}

// ------------------------------------------------------------------------------------------------
// the scheduling hook

#[derive(Clone, Copy, PartialEq, Eq, Debug)]
pub enum Order {
    /// no blocking at all: whatever rayon does
    Free,
    Natural,
    Reversed,
    Random,
}
pub fn parse_order(s: &str) -> Option<Order> {
    Some(match s {
        "free" => Order::Free,
        "nat" => Order::Natural,
        "rev" => Order::Reversed,
        "rnd" => Order::Random,
        _ => return None,
    })
}

struct SchedState {
    /// index into `Sched::epochs`: which `encode_parallel` call (mip level that splits) is running
    epoch: usize,
    /// fragments of the current epoch released so far, in release order
    released: Vec<usize>,
    /// released flag per fragment
    flag: Vec<bool>,
    /// smallest position of the requested order whose fragment is not yet released
    next: usize,
    /// fragments currently blocked in the phase-1 callback
    blocked: Vec<usize>,
    /// number of submissions that have been observed by the reporter (strict mode), current epoch
    submitted: usize,
    /// release orders of the finished epochs
    history: Vec<Vec<usize>>,
    /// no more ordering (cancellation requested / safety)
    open: bool,
    forced: usize,
    timeouts: usize,
    last_change: Instant,
}

struct Epoch {
    seq: Vec<usize>,
    pos: Vec<usize>,
}

/// Imposes a completion order on the fragment jobs of the `encode_parallel` calls made by one
/// top-level call (one epoch per mip level that is split into more than one fragment).
///
/// A fragment `i` arriving at phase 1 (encoded, not yet submitted) may proceed when every fragment
/// before it in the requested order has been released (and, in strict mode, the reporter has seen
/// all earlier submissions).  When all workers of the pool are blocked the requested order is
/// impossible for this pool: the blocked fragment that is earliest in the requested order is released
/// instead (`forced`).  A wall-clock timeout is the last resort so that nothing can deadlock.
pub struct Sched {
    epochs: Vec<Epoch>,
    threads: usize,
    strict: bool,
    st: Mutex<SchedState>,
    cv: Condvar,
}

impl Sched {
    pub fn new(lens: &[usize], threads: usize, order: Order, seed: u64, strict: bool) -> Arc<Sched> {
        let mut rng = Rng::new(seed ^ 0x5CED);
        let epochs: Vec<Epoch> = lens
            .iter()
            .map(|&len| {
                let mut seq: Vec<usize> = (0..len).collect();
                match order {
                    Order::Free | Order::Natural => {}
                    Order::Reversed => seq.reverse(),
                    Order::Random => {
                        for i in (1..len).rev() {
                            let j = rng.below(i as u64 + 1) as usize;
                            seq.swap(i, j);
                        }
                    }
                }
                let mut pos = vec![0; len];
                for (p, &i) in seq.iter().enumerate() {
                    pos[i] = p;
                }
                Epoch { seq, pos }
            })
            .collect();
        let first = lens.first().copied().unwrap_or(0);
        Arc::new(Sched {
            epochs,
            threads,
            strict,
            st: Mutex::new(SchedState {
                epoch: 0,
                released: vec![],
                flag: vec![false; first],
                next: 0,
                blocked: vec![],
                submitted: 0,
                history: vec![],
                open: order == Order::Free,
                forced: 0,
                timeouts: 0,
                last_change: Instant::now(),
            }),
            cv: Condvar::new(),
        })
    }

    fn lock(&self) -> std::sync::MutexGuard<'_, SchedState> {
        self.st.lock().unwrap_or_else(|e| e.into_inner())
    }

    /// called by the reporter closure (inside `ParallelProgress::submit`)
    pub fn note_submit(&self) {
        let mut g = self.lock();
        g.submitted += 1;
        drop(g);
        self.cv.notify_all();
    }
    /// stop ordering (used once cancellation has been requested)
    pub fn open(&self) {
        let mut g = self.lock();
        g.open = true;
        drop(g);
        self.cv.notify_all();
    }
    /// release orders of all epochs so far (the running one last)
    pub fn released(&self) -> Vec<Vec<usize>> {
        let g = self.lock();
        let mut h = g.history.clone();
        if !g.released.is_empty() {
            h.push(g.released.clone());
        }
        h
    }
    pub fn stats(&self) -> (usize, usize) {
        let g = self.lock();
        (g.forced, g.timeouts)
    }

    fn roll(&self, g: &mut SchedState) {
        while g.epoch < self.epochs.len() && g.released.len() == self.epochs[g.epoch].seq.len() {
            let done = std::mem::take(&mut g.released);
            g.history.push(done);
            g.epoch += 1;
            let n = self.epochs.get(g.epoch).map(|e| e.seq.len()).unwrap_or(0);
            g.flag = vec![false; n];
            g.next = 0;
            g.submitted = 0;
            g.blocked.clear();
        }
    }

    fn callback(&self, idx: usize, phase: u8) {
        let mut g = self.lock();
        self.roll(&mut g);
        if g.epoch >= self.epochs.len() || idx >= self.epochs[g.epoch].seq.len() || g.flag[idx] {
            return;
        }
        if phase == 0 {
            return;
        }
        let ep = &self.epochs[g.epoch];
        g.blocked.push(idx);
        g.last_change = Instant::now();
        self.cv.notify_all();
        loop {
            let synced = !self.strict || g.submitted >= g.released.len();
            let turn = g.next == ep.pos[idx] && synced;
            let stuck = g.blocked.len() >= self.threads
                && g.blocked.iter().all(|&b| ep.pos[b] >= ep.pos[idx])
                && synced;
            if g.open || turn {
                break;
            }
            if stuck {
                g.forced += 1;
                break;
            }
            // last resort: nothing has moved for a while (e.g. a sleeping worker that rayon did not
            // wake); the earliest blocked fragment goes on
            if g.last_change.elapsed() > Duration::from_millis(60)
                && g.blocked.iter().all(|&b| ep.pos[b] >= ep.pos[idx])
            {
                g.timeouts += 1;
                break;
            }
            let (g2, _) = self
                .cv
                .wait_timeout(g, Duration::from_millis(5))
                .unwrap_or_else(|e| e.into_inner());
            g = g2;
        }
        g.blocked.retain(|&b| b != idx);
        g.released.push(idx);
        g.last_change = Instant::now();
        g.flag[idx] = true;
        while g.next < ep.seq.len() && g.flag[ep.seq[g.next]] {
            g.next += 1;
        }
        drop(g);
        self.cv.notify_all();
    }
}

pub fn with_hook<R>(s: &Arc<Sched>, f: impl FnOnce() -> R) -> R {
    let s2 = s.clone();
    verif_hook::set_fragment_hook(Some(Arc::new(move |i, ph| s2.callback(i, ph))));
    struct Reset;
    impl Drop for Reset {
        fn drop(&mut self) {
            verif_hook::set_fragment_hook(None);
        }
    }
    let _r = Reset;
    f()
}

// ------------------------------------------------------------------------------------------------
// cases

const QUALS: &[&str] = &["fast", "normal", "high", "unr"];
const DITHS: &[&str] = &["none", "color", "alpha", "all"];

/// preferred fragment pixel counts that occur in the crate (bc.rs) — used only to place the size grid
const THRESHOLDS: &[u64] = &[64, 256, 1024, 2048, 4096];

fn geo_grid(out: &mut Vec<String>, fmts: &[&str], thorough: bool) {
    let mut widths: Vec<u64> = vec![1, 2, 3, 4, 5, 7, 8, 9, 15, 16, 17, 31, 32, 33, 63, 64, 65, 100];
    for &t in THRESHOLDS {
        for d in [t / 8, t / 4, t / 2, t] {
            for k in [-1i64, 0, 1] {
                widths.push((d as i64 + k).max(1) as u64);
            }
        }
        widths.push(2 * t + 3);
    }
    widths.sort();
    widths.dedup();
    for f in fmts {
        let bc = is_bc(f) && !f.starts_with("BC6");
        for (qi, q) in QUALS.iter().enumerate() {
            if !bc && qi > 0 && !thorough {
                continue;
            }
            for &w in &widths {
                let mut hs: Vec<u64> = (0..=13).collect();
                for &t in THRESHOLDS {
                    // heights around the "worth splitting" threshold and around multiples of the
                    // resulting fragment height
                    let th = t / w;
                    for k in 0..=4u64 {
                        hs.push((th + k).saturating_sub(2));
                    }
                    let fh = ((t / w) / 4 * 4).max(4);
                    for m in 1..=3u64 {
                        for k in 0..=2u64 {
                            hs.push((m * fh + k).saturating_sub(1));
                        }
                    }
                }
                hs.sort();
                hs.dedup();
                for &h in &hs {
                    if w * h > 40_000 {
                        continue;
                    }
                    let ds: &[&str] = if (w + h) % 7 == 0 || (!bc && h < 3) { DITHS } else { &["none"] };
                    for d in ds {
                        out.push(format!("geo {f} {w} {h} {d} {q}"));
                    }
                }
            }
        }
    }
}

pub fn gen(seed: u64, thorough: bool) -> Vec<String> {
    let mut out = vec![];
    let mut rng = Rng::new(seed);
    // 1. support records of all 73 formats
    for (n, _) in FORMATS {
        out.push(format!("sup {n}"));
    }
    out.push("sup NOPE".into());
    // 2. geometry
    let quick_fmts = [
        "BC1_UNORM", "BC2_UNORM", "BC3_UNORM", "BC3_UNORM_RXGB", "BC4_SNORM", "BC5_UNORM", "BC7_UNORM",
        "R8G8B8A8_UNORM", "B5G6R5_UNORM", "R1_UNORM", "YUY2", "NV12", "BC6H_UF16", "ASTC_4X4_UNORM",
    ];
    let all: Vec<&str> = FORMATS.iter().map(|(n, _)| *n).collect();
    if thorough {
        geo_grid(&mut out, &all, true);
    } else {
        geo_grid(&mut out, &quick_fmts, false);
    }
    // random geometry (all formats)
    let n_rand = if thorough { 60_000 } else { 4_000 };
    for _ in 0..n_rand {
        let f = rng.pick(&all);
        let (w, h) = match rng.below(4) {
            0 => (rng.range(1, 70), rng.range(0, 600)),
            1 => (rng.range(1, 9000), rng.range(0, 9)),
            2 => {
                let t = *rng.pick(THRESHOLDS);
                let w = rng.range(1, 130);
                (w, (t / w + rng.below(5)).saturating_sub(2))
            }
            _ => (rng.range(0, 300), rng.range(0, 130)),
        };
        if w * h > 60_000 {
            continue;
        }
        out.push(format!("geo {f} {w} {h} {} {}", rng.pick(DITHS), rng.pick(QUALS)));
    }
    // 2b. padding rules of the data-flow model (small images, cheap)
    for (name, _) in encodable() {
        let (bw, bh) = block_dims(name);
        if name == "NV12" || name == "P010" || name == "P016" {
            continue;
        }
        if bw == 1 && bh == 1 && !(name == "R8G8B8A8_UNORM" || name == "B5G6R5_UNORM") {
            continue; // nothing to pad; two representatives only
        }
        let ws: Vec<u64> = if bh == 1 && bw > 1 {
            // chunk_pixels = 512 / bw * bw: partial blocks at the end of a row that spans several chunks
            let mut v: Vec<u64> = (1..=19).collect();
            v.extend([509, 510, 511, 512, 513, 514, 519, 1023, 1024, 1025, 1027]);
            v
        } else {
            vec![1, 2, 3, 4, 5, 6, 7, 8, 9, 11, 13, 16, 18]
        };
        let hs: Vec<u64> = if bh == 1 { vec![1, 2, 9] } else { vec![1, 2, 3, 4, 5, 6, 7, 8, 9, 10, 11] };
        for &w in &ws {
            for &h in &hs {
                if !thorough && (w * 7 + h * 3 + name.len() as u64) % 3 != 0 {
                    continue;
                }
                let d = match (w + h) % 3 {
                    0 => "none",
                    1 => "all",
                    _ => "color",
                };
                let color = if (w + 2 * h) % 4 == 0 { *rng.pick(COLORS) } else { "rgba8" };
                out.push(format!("pad {name} {w} {h} {color} {d} fast {}", rng.below(1 << 30)));
            }
        }
    }
    out.push("pad BC1_UNORM 0 0 rgba8 none fast 1".into());
    out.push("pad BC1_UNORM 0 5 rgba8 none fast 1".into());
    out.push("pad NV12 4 4 rgba8 none fast 1".into());
    out.push("pad BC6H_UF16 4 4 rgba8 none fast 1".into());
    out.push("pad BC7_UNORM 6 6 rgba8 all normal 7".into());
    out.push("pad BC3_UNORM 5 7 rgba8 all high 7".into());
    // 3. encodes (interleaved with the cheap geometry cases below so that check.py's chunks balance)
    let cheap = std::mem::take(&mut out);
    let enc_fmts = encodable();
    let family_reps = [
        "BC1_UNORM", "BC2_UNORM", "BC3_UNORM", "BC3_UNORM_RXGB", "BC3_UNORM_NORMAL", "BC4_UNORM",
        "BC5_SNORM", "BC7_UNORM", "BC2_UNORM_PREMULTIPLIED_ALPHA", "R8G8B8A8_UNORM", "B5G6R5_UNORM",
        "R16G16B16A16_FLOAT", "R32G32B32_FLOAT", "R9G9B9E5_SHAREDEXP", "R1_UNORM", "YUY2", "Y210", "NV12",
        "P010", "AYUV", "B8G8R8A8_UNORM", "A8_UNORM",
    ];
    let threads_all = [1usize, 2, 3, 4, 5, 6, 7, 8, 9, 10, 11, 12, 13, 14, 15, 16];
    let orders = ["nat", "rev", "rnd", "free"];
    let n_enc = if thorough { 120_000 } else { 9_000 };
    let mut k = 0u64;
    while (out.len() as u64) < u64::MAX && k < n_enc {
        k += 1;
        let name: &str = if thorough || k % 4 == 0 {
            enc_fmts[(k as usize / 4) % enc_fmts.len()].0
        } else {
            family_reps[(k as usize) % family_reps.len()]
        };
        let bc = is_bc(name);
        let q = if !bc {
            *rng.pick(QUALS)
        } else if k % 9 == 0 {
            "normal"
        } else if thorough && k % 97 == 0 {
            "high"
        } else {
            "fast"
        };
        // size: BC -> around / beyond the fragment threshold of the quality; others small
        let t: u64 = match (name, q) {
            (n, _) if n.starts_with("BC7") => 256,
            (_, "fast") => 4096,
            (n, "normal") if n.starts_with("BC4") || n.starts_with("BC5") => 2048,
            (_, "normal") => 1024,
            (n, "high") if n.starts_with("BC4") || n.starts_with("BC5") => 1024,
            _ => 256,
        };
        let (mut w, mut h) = if bc {
            match rng.below(6) {
                0 => (t + rng.range(1, 40), rng.range(1, 14)), // wider than a fragment
                1 => {
                    let w = rng.range(1, 70);
                    (w, (t / w + rng.below(6)).saturating_sub(2)) // at the threshold
                }
                2 => {
                    let w = rng.range(3, 66);
                    (w, rng.range(2, 6) * (t / w).max(4) + rng.below(4)) // a few fragments
                }
                3 => {
                    let w = rng.range(13, 40);
                    (w, rng.range(8, 24) * (t / w).max(4) + rng.below(4)) // many fragments
                }
                4 => (rng.range(1, 20), rng.range(1, 20)),
                _ => (rng.range(1, 200), rng.range(1, 200)),
            }
        } else {
            match rng.below(3) {
                0 => (rng.range(1, 40), rng.range(1, 40)),
                1 => (rng.range(500, 1100), rng.range(1, 6)),
                _ => (rng.range(1, 6), rng.range(500, 1100)),
            }
        };
        if w * h > 140_000 {
            h = 140_000 / w;
        }
        // size multiples (sub-sampled / bi-planar formats refuse other sizes; that is C15's subject)
        if let Some((mw, mh)) = parse_format(name).and_then(|f| f.encoding_support()).and_then(|s| s.size_multiple()) {
            w = (w / mw.get() as u64).max(1) * mw.get() as u64;
            h = (h / mh.get() as u64).max(1) * mh.get() as u64;
        }
        let color = if rng.chance(1, 2) { "rgba8" } else { *rng.pick(COLORS) };
        let d = if rng.chance(2, 5) { "none" } else { *rng.pick(DITHS) };
        let m = if rng.chance(1, 4) { "perc" } else { "uni" };
        let th = threads_all[(k as usize) % 16];
        let o = orders[(k as usize / 16) % 4];
        out.push(format!("enc {name} {w} {h} {color} {d} {q} {m} {th} {o} {}", rng.below(1 << 30)));
    }
    // very many fragments (more than 256 per worker thread, more than 512 in total): any batching / windowing of
    // the fragment list must keep absolute fragment indexes. Spread over the list so that check.py's chunks balance.
    let mut many = vec![];
    for (name, q, w, h, ths) in [
        ("BC1_UNORM", "high", 64u64, 1030u64, &[1usize, 2][..]),
        ("BC1_UNORM", "high", 40, 2056, &[1, 2, 3][..]),
        ("BC7_UNORM", "fast", 64, 1030, &[1][..]),
        ("BC4_UNORM", "high", 16, 4100, &[1, 2, 16][..]),
    ] {
        for &th in ths {
            let o = orders[th % 4];
            many.push(format!("enc {name} {w} {h} rgba8 none {q} uni {th} {o} {}", rng.below(1 << 30)));
        }
    }
    // uncompressed formats with MORE pixels than any preferred fragment size of the crate (512 x 512), dithering
    // requested, inexact (f32 / 16-bit) input: error diffusion must not restart at a fragment boundary (seed C14g)
    for (i, name) in [
        "R16_FLOAT", "R16G16B16A16_FLOAT", "R10G10B10A2_UNORM", "R11G11B10_FLOAT", "R9G9B9E5_SHAREDEXP",
        "R10G10B10_XR_BIAS_A2_UNORM", "Y410", "Y416", "R16G16_UNORM", "R16G16_SNORM", "R8G8B8A8_UNORM",
        "B5G6R5_UNORM", "B4G4R4A4_UNORM", "R1_UNORM", "R8_UNORM", "R16_UNORM", "AYUV", "YUY2", "NV12",
    ]
    .iter()
    .enumerate()
    {
        if !thorough && i % 2 == 1 && i > 9 {
            continue;
        }
        let (w, h) = [(600u64, 500u64), (512, 516), (300, 1000), (1100, 270)][i % 4];
        let color = ["rgba32", "rgb32", "rgba16", "g32"][i % 4];
        let d = ["all", "color", "all", "alpha"][(i / 2) % 4];
        let th = [4usize, 1, 16, 3][i % 4];
        many.push(format!("enc {name} {w} {h} {color} {d} fast uni {th} {} {}", orders[i % 4], rng.below(1 << 30)));
        many.push(format!("geo {name} {w} {h} {d} fast"));
    }
    // whole files through `Encoder` with generated mipmaps, parallel switch off / on (seed C14h)
    for (i, &(w, h)) in [(20u64, 12u64), (24, 24), (100, 60), (129, 66), (32, 16), (7, 5), (64, 64), (48, 80), (1, 9), (130, 4)]
        .iter()
        .enumerate()
    {
        for (j, name) in ["R8G8B8A8_UNORM", "BC1_UNORM", "R16G16B16A16_FLOAT", "BC4_UNORM", "B5G6R5_UNORM"].iter().enumerate() {
            if !thorough && (i + j) % 2 == 1 {
                continue;
            }
            let filter = ["box", "box", "triangle", "nearest", "mitchell", "lanczos3"][(i + 2 * j) % 6];
            let color = ["rgba8", "rgb8", "rgba16", "rgba32", "g8"][(i + j) % 5];
            many.push(format!("mip {name} {w} {h} {color} {filter} {} {}", (i + j) % 2, rng.below(1 << 30)));
        }
    }
    if thorough {
        many.push("enc BC4_UNORM 1024 1031 g8 none fast uni 1 nat 5".into());
        many.push("enc BC5_UNORM 1024 2059 rgba8 none fast uni 2 rev 5".into());
        many.push("enc BC3_UNORM 48 3100 rgba8 none high uni 3 rnd 5".into());
        many.push("enc BC7_UNORM 33 2059 rgba8 none fast uni 2 free 5".into());
    }
    let stride = (out.len() / (many.len() + 1)).max(1);
    for (i, m) in many.into_iter().enumerate() {
        let at = ((i + 1) * stride).min(out.len());
        out.insert(at, m);
    }
    // empty images
    for name in ["BC1_UNORM", "R8G8B8A8_UNORM", "BC7_UNORM"] {
        out.push(format!("enc {name} 0 0 rgba8 none fast uni 4 nat 1"));
        out.push(format!("enc {name} 0 7 rgba8 all fast uni 4 rev 1"));
    }
    let heavy = out;
    let mut out = Vec::with_capacity(cheap.len() + heavy.len());
    let step = (cheap.len() / heavy.len().max(1)).max(1);
    let mut hi = heavy.into_iter();
    for (i, c) in cheap.into_iter().enumerate() {
        out.push(c);
        if (i + 1) % step == 0 {
            if let Some(h) = hi.next() {
                out.push(h);
            }
        }
    }
    out.extend(hi);
    out
}

// ------------------------------------------------------------------------------------------------
// run

pub fn run(line: &str) -> Option<(String, Vec<String>)> {
    let t = toks(line);
    match *t.first()? {
        "sup" if t.len() == 2 => run_sup(t[1]),
        "geo" if t.len() == 6 => run_geo(&t),
        "enc" if t.len() == 11 => run_enc(&t),
        "pad" if t.len() == 8 => run_pad(&t),
        "mip" if t.len() == 8 => run_mip(&t),
        _ => None,
    }
}

fn run_sup(name: &str) -> Option<(String, Vec<String>)> {
    let f = match parse_format(name) {
        Some(f) => f,
        None => return Some(("bad-case".into(), vec![])),
    };
    let mut orc = vec![];
    let r = match f.encoding_support() {
        None => "sup none".to_string(),
        Some(s) => {
            if s.dithering() == Dithering::None && s.local_dithering() {
                orc.push("local_dithering without dithering support".to_string());
            }
            format!(
                "sup split={} local={} dith={}",
                s.split_height().map(|x| x.get().to_string()).unwrap_or("-".into()),
                s.local_dithering() as u8,
                dith_name(s.dithering())
            )
        }
    };
    Some((r, orc))
}

pub fn fmt_frags(frags: &[(u64, u64)]) -> String {
    let f = |x: &(u64, u64)| format!("{}:{}", x.0, x.1);
    if frags.len() <= 48 {
        frags.iter().map(f).collect::<Vec<_>>().join(",")
    } else {
        let n = frags.len();
        format!(
            "{},{},{},..,{},{}",
            f(&frags[0]),
            f(&frags[1]),
            f(&frags[2]),
            f(&frags[n - 2]),
            f(&frags[n - 1])
        )
    }
}

/// offsets/heights of all fragments of a split view + the tiling facts the property states
pub fn split_geometry(
    image: ImageView,
    format: Format,
    opts: &EncodeOptions,
    orc: &mut Vec<String>,
) -> (u32, Vec<(u64, u64)>) {
    let split = SplitView::new(image, format, opts);
    let len = split.len();
    let mut frags = vec![];
    if len == 0 {
        orc.push("SplitView::len() == 0".into());
    }
    let base = image.data().as_ptr() as usize;
    let pitch = image.row_pitch();
    let mut next_row: u64 = 0;
    let sh = format.encoding_support().and_then(|s| s.split_height()).map(|x| x.get() as u64);
    for i in 0..len {
        match split.get(i) {
            None => orc.push(format!("fragment {i} of {len} missing")),
            Some(fr) => {
                // the fragment's first row as an offset into the parent image
                let off = if fr.size().is_empty() || pitch == 0 {
                    next_row
                } else {
                    ((fr.data().as_ptr() as usize - base) / pitch) as u64
                };
                let fh = fr.height() as u64;
                if !fr.size().is_empty() && (fr.data().as_ptr() as usize - base) % pitch != 0 {
                    orc.push(format!("fragment {i} does not start at a row start"));
                }
                if fr.width() != image.width() && !fr.size().is_empty() {
                    orc.push(format!("fragment {i} has width {} != {}", fr.width(), image.width()));
                }
                if off != next_row {
                    orc.push(format!("fragment {i} starts at row {off}, expected {next_row} (gap or overlap)"));
                }
                if i + 1 < len {
                    match sh {
                        Some(sh) if fh % sh == 0 => {}
                        _ => orc.push(format!(
                            "fragment {i} (not the last) has height {fh}, not a multiple of split height {sh:?}"
                        )),
                    }
                }
                next_row = off + fh;
                frags.push((off, fh));
            }
        }
    }
    if next_row != image.height() as u64 {
        orc.push(format!("fragments cover rows [0,{next_row}) of {}", image.height()));
    }
    if split.get(len).is_some() {
        orc.push("get(len) is Some".into());
    }
    if split.single().is_some() != (len == 1) {
        orc.push("single() disagrees with len() == 1".into());
    }
    (len, frags)
}

fn run_geo(t: &[&str]) -> Option<(String, Vec<String>)> {
    let format = match parse_format(t[1]) {
        Some(f) => f,
        None => return Some(("bad-case".into(), vec![])),
    };
    let (w, h) = (p_u32(t[2])?, p_u32(t[3])?);
    let d = parse_dith(t[4])?;
    let q = parse_quality(t[5])?;
    if w as u64 * h as u64 > 1 << 26 {
        return None;
    }
    let data = vec![0u8; w as usize * h as usize];
    let image = ImageView::new(&data, Size::new(w, h), ColorFormat::GRAYSCALE_U8)?;
    let opts = options(d, q, ErrorMetric::Uniform, true);
    let mut orc = vec![];
    let (len, frags) = split_geometry(image, format, &opts, &mut orc);
    // `parallel` must not matter for the geometry
    let opts2 = options(d, q, ErrorMetric::Perceptual, false);
    let (len2, frags2) = split_geometry(image, format, &opts2, &mut vec![]);
    if len2 != len || frags2 != frags {
        orc.push("geometry depends on parallel / error metric".into());
    }
    Some((format!("geo len={len} frags={}", fmt_frags(&frags)), orc))
}

/// block width / height of the encoder loops (`block_4x4`, `universal_subsample!(2, ..)`,
/// `universal_subsample!(8, ..)`), by format name
pub fn block_dims(name: &str) -> (u64, u64) {
    if name.starts_with("BC") {
        (4, 4)
    } else if name == "R1_UNORM" {
        (8, 1)
    } else if matches!(name, "R8G8_B8G8_UNORM" | "G8R8_G8B8_UNORM" | "UYVY" | "YUY2" | "Y210" | "Y216") {
        (2, 1)
    } else {
        (1, 1)
    }
}

/// `pad`: W x H against the block-aligned image built with the padding rules the data-flow model states.
fn run_pad(t: &[&str]) -> Option<(String, Vec<String>)> {
    let format = match parse_format(t[1]) {
        Some(f) => f,
        None => return Some(("bad-case".into(), vec![])),
    };
    if format.encoding_support().is_none() || matches!(t[1], "NV12" | "P010" | "P016") {
        return Some(("bad-case".into(), vec![]));
    }
    let (w, h) = (p_u32(t[2])?, p_u32(t[3])?);
    let color = parse_color(t[4])?;
    let d = parse_dith(t[5])?;
    let q = parse_quality(t[6])?;
    let seed = p_u64(t[7])?;
    if w as u64 * h as u64 > 1 << 16 {
        return None;
    }
    let (bw, bh) = block_dims(t[1]);
    let (bw, bh) = (bw as u32, bh as u32);
    let (w, h) = if w == 0 || h == 0 { (0, 0) } else { (w, h) };
    let (w2, h2) = (w.div_ceil(bw) * bw, h.div_ceil(bh) * bh);
    // noise: every pixel differs from its neighbours
    let mut rng = Rng::new(seed ^ 0x9AD);
    let bpp = color.bytes_per_pixel() as usize;
    let mut a = Vec::with_capacity(w as usize * h as usize * bpp);
    for _ in 0..w as usize * h as usize * color.channels.count() as usize {
        let v = (rng.next() >> 40) as f32 / (1u64 << 24) as f32;
        match color.precision {
            Precision::U8 => a.push((v * 255.0 + 0.5) as u8),
            Precision::U16 => a.extend_from_slice(&((v * 65535.0 + 0.5) as u16).to_ne_bytes()),
            Precision::F32 => a.extend_from_slice(&v.to_ne_bytes()),
        }
    }
    let mut b = Vec::with_capacity(w2 as usize * h2 as usize * bpp);
    for y in 0..h2 {
        // extra rows: the first row of the last (partial) row group
        let sy = if y < h { y } else { h / bh * bh };
        for x in 0..w2 {
            // extra columns: the last pixel of the row
            let sx = x.min(w.saturating_sub(1));
            let o = (sy as usize * w as usize + sx as usize) * bpp;
            b.extend_from_slice(&a[o..o + bpp]);
        }
    }
    let ia = ImageView::new(&a, Size::new(w, h), color)?;
    let ib = ImageView::new(&b, Size::new(w2, h2), color)?;
    let opts = options(d, q, ErrorMetric::Uniform, false);
    let (mut ea, mut eb) = (Vec::new(), Vec::new());
    let ra = encode(&mut ea, ia, format, None, &opts);
    let rb = encode(&mut eb, ib, format, None, &opts);
    let status = |r: &Result<(), EncodingError>| match r {
        Ok(()) => "ok".to_string(),
        Err(e) => format!("err:{}", crate::c17::err_name(e)),
    };
    if status(&ra) != status(&rb) {
        return Some((format!("pad {} vs {}", status(&ra), status(&rb)), vec![]));
    }
    let res = if ra.is_ok() {
        format!("pad ok {}", if ea == eb { "eq".to_string() } else { format!("ne ({})", hexdiff(&ea, &eb)) })
    } else {
        format!("pad {}", status(&ra))
    };
    Some((res, vec![]))
}

/// `mip FORMAT W H COLOR FILTER STRAIGHT SEED`: a whole file through `Encoder` with generated mipmaps (full chain),
/// once with `options.parallel` off and once with it on (pool of 4): the bytes must be identical (seed C14h — the
/// parallel switch reaches the mipmap generator as well as the block encoders).
fn run_mip(t: &[&str]) -> Option<(String, Vec<String>)> {
    let format = match parse_format(t[1]) {
        Some(f) => f,
        None => return Some(("bad-case".into(), vec![])),
    };
    let (w, h) = (p_u32(t[2])?, p_u32(t[3])?);
    let color = parse_color(t[4])?;
    let filter = match t[5] {
        "nearest" => ResizeFilter::Nearest,
        "box" => ResizeFilter::Box,
        "triangle" => ResizeFilter::Triangle,
        "mitchell" => ResizeFilter::Mitchell,
        "lanczos3" => ResizeFilter::Lanczos3,
        _ => return None,
    };
    let straight = match t[6] {
        "0" => false,
        "1" => true,
        _ => return None,
    };
    let seed = p_u64(t[7])?;
    if w == 0 || h == 0 || w as u64 * h as u64 > 1 << 20 || format.encoding_support().is_none() {
        return None;
    }
    let data = make_image(w, h, color, seed);
    let image = ImageView::new(&data, Size::new(w, h), color)?;
    let header = dds::header::Header::new_image(w, h, format).with_mipmaps();
    let run_one = |parallel: bool| -> Result<Vec<u8>, String> {
        let mut out = Vec::new();
        let mut enc = Encoder::new(&mut out, format, &header).map_err(|e| format!("{e:?}"))?;
        enc.options.parallel = parallel;
        enc.options.quality = CompressionQuality::Fast;
        enc.mipmaps.generate = true;
        enc.mipmaps.resize_filter = filter;
        enc.mipmaps.resize_straight_alpha = straight;
        enc.write_surface(image).map_err(|e| format!("{e:?}"))?;
        enc.finish().map_err(|e| format!("{e:?}"))?;
        Ok(out)
    };
    let seq = run_one(false);
    let par = pool(4).install(|| run_one(true));
    let mut orc = vec![];
    let res = match (&seq, &par) {
        (Ok(a), Ok(b)) => {
            if a != b {
                orc.push(format!(
                    "Encoder with generated mipmaps: parallel and sequential files differ ({})",
                    hexdiff(a, b)
                ));
            }
            "mip ok".to_string()
        }
        (a, b) => {
            if a.is_ok() != b.is_ok() {
                orc.push("Encoder with generated mipmaps: one of parallel / sequential failed, the other did not".into());
            }
            "mip err".to_string()
        }
    };
    Some((res, orc))
}

fn hexdiff(a: &[u8], b: &[u8]) -> String {
    if a.len() != b.len() {
        return format!("lengths {} vs {}", a.len(), b.len());
    }
    match a.iter().zip(b).position(|(x, y)| x != y) {
        Some(p) => format!("first difference at byte {p} of {}", a.len()),
        None => "equal".into(),
    }
}

fn run_enc(t: &[&str]) -> Option<(String, Vec<String>)> {
    let format = match parse_format(t[1]) {
        Some(f) => f,
        None => return Some(("bad-case".into(), vec![])),
    };
    let (w, h) = (p_u32(t[2])?, p_u32(t[3])?);
    let color = parse_color(t[4])?;
    let d = parse_dith(t[5])?;
    let q = parse_quality(t[6])?;
    let m = parse_metric(t[7])?;
    let threads = p_usize(t[8])?;
    let order = parse_order(t[9])?;
    let seed = p_u64(t[10])?;
    if threads == 0 || threads > 64 || w as u64 * h as u64 > 1 << 24 {
        return None;
    }
    let data = make_image(w, h, color, seed);
    // two variations derived from the case's seed (the property quantifies over every image and every writer):
    //  * every third case hands the image over as a STRIDED view whose row pitch is not a multiple of the pixel size
    //    (fragments are crops of the view: their start must be computed in bytes, not in pixels),
    //  * every fourth case writes through a sink that accepts only a few bytes per `write` call (pipes, sockets):
    //    sequential, parallel and fragment-wise output must still be the same bytes.
    let bpp = color.bytes_per_pixel() as usize;
    let strided: Vec<u8>;
    let image = if seed % 3 == 1 && w > 0 && h > 0 {
        let extra = [1usize, 3, 5, 7, bpp + 1][(seed / 3 % 5) as usize];
        let pitch = w as usize * bpp + extra;
        let mut buf = vec![0xA5u8; pitch * h as usize];
        for y in 0..h as usize {
            buf[y * pitch..y * pitch + w as usize * bpp].copy_from_slice(&data[y * w as usize * bpp..(y + 1) * w as usize * bpp]);
        }
        strided = buf;
        ImageView::new_with(&strided, pitch, Size::new(w, h), color)?
    } else {
        ImageView::new(&data, Size::new(w, h), color)?
    };
    let max_write = if seed % 4 == 2 { [1usize, 7, 100, 4096][(seed / 4 % 4) as usize] } else { usize::MAX };
    let sink = || crate::c09::ShortWriter { data: Vec::new(), max: max_write };
    let mut orc = vec![];

    let seq_opts = options(d, q, m, false);
    let par_opts = options(d, q, m, true);

    // sequential
    let mut seq = sink();
    let r_seq = encode(&mut seq, image, format, None, &seq_opts);
    let seq = seq.data;

    // geometry (tiling facts on this very image)
    let (len, frags) = split_geometry(image, format, &par_opts, &mut orc);

    // parallel, inside a pool of the requested size, completion order imposed through the hook
    let sched = Sched::new(&[len as usize], threads, order, seed, false);
    let mut par = sink();
    let r_par = with_hook(&sched, || pool(threads).install(|| encode(&mut par, image, format, None, &par_opts)));
    let par = par.data;
    let released = sched.released().into_iter().next().unwrap_or_default();
    if std::env::var("DDSV_SCHED_STATS").is_ok() {
        let (f, to) = sched.stats();
        eprintln!("sched len={len} threads={threads} order={order:?} forced={f} timeouts={to} released={released:?}");
    }
    if len > 1 && r_par.is_ok() && released.len() != len as usize {
        orc.push(format!("hook saw {} of {len} fragment completions", released.len()));
    }

    // fragment by fragment
    let split = SplitView::new(image, format, &seq_opts);
    let mut frag = sink();
    let mut frag2 = sink();
    let mut r_frag = Ok(());
    for i in 0..split.len() {
        let fr = split.get(i)?;
        if let Err(e) = encode(&mut frag, fr, format, None, &seq_opts) {
            r_frag = Err(e);
            break;
        }
        // the same fragment through the parallel entry point (it may split again)
        let r2 = pool(threads).install(|| encode(&mut frag2, fr, format, None, &par_opts));
        if r2.is_err() {
            r_frag = r2;
            break;
        }
    }

    let (frag, frag2) = (frag.data, frag2.data);
    let status = |r: &Result<(), EncodingError>| match r {
        Ok(()) => "ok".to_string(),
        Err(e) => format!("err:{}", crate::c17::err_name(e)),
    };
    if status(&r_seq) != status(&r_par) || status(&r_seq) != status(&r_frag) {
        orc.push(format!(
            "results differ: sequential {} parallel {} fragment-wise {}",
            status(&r_seq),
            status(&r_par),
            status(&r_frag)
        ));
    }
    let mut res = format!("enc {} len={len} frags={}", status(&r_seq), fmt_frags(&frags));
    if r_seq.is_ok() {
        let e1 = seq == par;
        let e2 = seq == frag;
        let e3 = seq == frag2;
        if !e1 {
            orc.push(format!(
                "parallel bytes != sequential bytes ({}; {threads} threads, completion order {released:?})",
                hexdiff(&seq, &par)
            ));
        }
        if !e2 {
            orc.push(format!("fragment-wise bytes != sequential bytes ({})", hexdiff(&seq, &frag)));
        }
        if !e3 {
            orc.push(format!(
                "fragment-wise (parallel entry) bytes != sequential bytes ({})",
                hexdiff(&seq, &frag2)
            ));
        }
        res += &format!(
            " par={} frag={}",
            if e1 { "eq" } else { "ne" },
            if e2 && e3 { "eq" } else { "ne" }
        );
    }
    Some((res, orc))
}
