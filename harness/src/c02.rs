//! C02: data layout. Case = header summary + pixel info + queries.
//!
//! `L <kind> <w> <h> <d|-> <mips> <px> <N> <i.l.k>...`
use crate::common::*;
use dds::header::*;
use dds::*;
use std::num::NonZeroU32;

#[derive(Clone, Debug)]
pub enum Kind {
    Dx10 { cube: bool, dim: u32, array: u32 },
    Dx9 { caps2: u32 },
}
#[derive(Clone, Copy, Debug, PartialEq)]
pub enum Px {
    F(u8),
    B(u8, u8, u8),
    P(u8, u8, u8, u8),
}
impl Px {
    pub fn to_info(self) -> PixelInfo {
        match self {
            Px::F(b) => PixelInfo::fixed(b),
            Px::B(b, w, h) => PixelInfo::block(b, (w, h)),
            Px::P(a, b, x, y) => PixelInfo::bi_planar(a, b, (x, y)),
        }
    }
    pub fn fmt(self) -> String {
        match self {
            Px::F(b) => format!("F:{b}"),
            Px::B(b, w, h) => format!("B:{b}:{w}:{h}"),
            Px::P(a, b, x, y) => format!("P:{a}:{b}:{x}:{y}"),
        }
    }
    pub fn parse(s: &str) -> Option<Px> {
        let p: Vec<&str> = s.split(':').collect();
        let n = |i: usize| -> Option<u8> { p.get(i)?.parse().ok() };
        match p[0] {
            "F" => Some(Px::F(n(1)?)),
            "B" => Some(Px::B(n(1)?, n(2)?, n(3)?)),
            "P" => Some(Px::P(n(1)?, n(2)?, n(3)?, n(4)?)),
            _ => None,
        }
    }
    pub fn from_info(i: PixelInfo) -> Px {
        match i {
            PixelInfo::Fixed { bytes_per_pixel } => Px::F(bytes_per_pixel),
            PixelInfo::Block(b) => Px::B(b.bytes_per_block(), b.size().0, b.size().1),
            PixelInfo::BiPlanar(b) => Px::P(
                b.plane1_bytes_per_pixel(),
                b.plane2_bytes_per_sample(),
                b.plane2_sub_sampling().0,
                b.plane2_sub_sampling().1,
            ),
        }
    }
    /// ideal surface length
    pub fn ideal(self, w: u128, h: u128) -> u128 {
        let dc = |a: u128, b: u128| (a + b - 1) / b;
        match self {
            Px::F(b) => w * h * b as u128,
            Px::B(b, bw, bh) => dc(w, bw as u128) * dc(h, bh as u128) * b as u128,
            Px::P(a, b, x, y) => w * h * a as u128 + dc(w, x as u128) * dc(h, y as u128) * b as u128,
        }
    }
}

pub fn px_shapes() -> Vec<Px> {
    let mut v = vec![];
    for b in 1..=16u8 {
        v.push(Px::F(b));
    }
    for &(b, w, h) in &[
        (8u8, 4u8, 4u8),
        (16, 4, 4),
        (4, 2, 1),
        (8, 2, 1),
        (1, 8, 1),
        (16, 5, 4),
        (16, 5, 5),
        (16, 6, 5),
        (16, 6, 6),
        (16, 8, 5),
        (16, 8, 6),
        (16, 8, 8),
        (16, 10, 5),
        (16, 10, 6),
        (16, 10, 8),
        (16, 10, 10),
        (16, 12, 10),
        (16, 12, 12),
        (255, 15, 15),
        (1, 1, 1),
        (3, 1, 7),
    ] {
        v.push(Px::B(b, w, h));
    }
    for &(a, b, x, y) in &[
        (1u8, 2u8, 2u8, 2u8),
        (2, 4, 2, 2),
        (1, 2, 4, 1),
        (1, 2, 2, 1),
        (15, 15, 1, 1),
        (1, 1, 15, 15),
        (2, 4, 2, 1),
    ] {
        v.push(Px::P(a, b, x, y));
    }
    v
}

pub fn make_header(kind: &Kind, w: u32, h: u32, d: Option<u32>, mips: u32) -> Option<Header> {
    let mipmap_count = NonZeroU32::new(mips)?;
    Some(match kind {
        Kind::Dx10 { cube, dim, array } => Header::Dx10(Dx10Header {
            height: h,
            width: w,
            depth: d,
            mipmap_count,
            dxgi_format: DxgiFormat::R8G8B8A8_UNORM,
            resource_dimension: match dim {
                1 => ResourceDimension::Texture1D,
                2 => ResourceDimension::Texture2D,
                _ => ResourceDimension::Texture3D,
            },
            misc_flag: if *cube {
                MiscFlags::TEXTURE_CUBE
            } else {
                MiscFlags::empty()
            },
            array_size: *array,
            alpha_mode: AlphaMode::Unknown,
        }),
        Kind::Dx9 { caps2 } => Header::Dx9(Dx9Header {
            height: h,
            width: w,
            depth: d,
            mipmap_count,
            caps2: Caps2::from_bits_retain(*caps2),
            pixel_format: Dx9PixelFormat::FourCC(FourCC::DXT1),
        }),
    })
}

fn kind_fmt(k: &Kind) -> String {
    match k {
        Kind::Dx10 { cube, dim, array } => format!("x:{}:{}:{}", *cube as u8, dim, array),
        Kind::Dx9 { caps2 } => format!("n:{caps2}"),
    }
}
pub fn kind_parse(s: &str) -> Option<Kind> {
    let p: Vec<&str> = s.split(':').collect();
    match p[0] {
        "x" => Some(Kind::Dx10 {
            cube: p.get(1)? == &"1",
            dim: p.get(2)?.parse().ok()?,
            array: p.get(3)?.parse().ok()?,
        }),
        "n" => Some(Kind::Dx9 {
            caps2: p.get(1)?.parse().ok()?,
        }),
        _ => None,
    }
}

pub fn err_name(e: &LayoutError) -> &'static str {
    match e {
        LayoutError::TooManyMipMaps(_) => "TooManyMipMaps",
        LayoutError::MissingDepth => "MissingDepth",
        LayoutError::ZeroDimension => "ZeroDimension",
        LayoutError::ArraySizeTooBig(_) => "ArraySizeTooBig",
        LayoutError::DataLayoutTooBig => "DataLayoutTooBig",
        LayoutError::InvalidCubeMapFaces => "InvalidCubeMapFaces",
        _ => "Other",
    }
}

pub fn gen(seed: u64, thorough: bool) -> Vec<String> {
    let mut rng = Rng::new(seed);
    let bset = boundary_u32();
    let shapes = px_shapes();
    let n = if thorough { 1_500_000 } else { 60_000 };
    let mut out = Vec::with_capacity(n + 4096);

    let emit = |out: &mut Vec<String>,
                rng: &mut Rng,
                kind: &Kind,
                w: u32,
                h: u32,
                d: Option<u32>,
                mips: u32,
                px: Px| {
        // queries
        let arr_len: u64 = match kind {
            Kind::Dx10 { cube: true, array, .. } => *array as u64 * 6,
            Kind::Dx10 { array, .. } => *array as u64,
            Kind::Dx9 { caps2 } => ((caps2 >> 10) & 63).count_ones() as u64,
        };
        let mut qs = vec![];
        let is = [0u64, 1, 2, arr_len.saturating_sub(1), arr_len / 2, arr_len, rng.below(arr_len + 1)];
        let ls = [0u64, 1, mips.saturating_sub(1).min(255) as u64, mips.min(256) as u64, rng.below(mips.min(256) as u64 + 1)];
        let dd = d.unwrap_or(1) as u64;
        let ks = [0u64, 1, dd.saturating_sub(1), dd, rng.below(dd + 1), (dd >> rng.below(8)).saturating_sub(1)];
        for _ in 0..6 {
            qs.push(format!("{}.{}.{}", rng.pick(&is), rng.pick(&ls), rng.pick(&ks)));
        }
        qs.push("0.0.0".to_string());
        // indices beyond u32: `get` takes a usize, the array length is a u32 (a truncating cast must not alias)
        qs.push(format!("{}.0.0", (1u64 << 32) * (1 + rng.below(3)) + rng.below(arr_len.max(1))));
        qs.push(format!("{}.{}.{}", arr_len.saturating_sub(1), mips.saturating_sub(1).min(255), 0));
        let d_s = d.map(|x| x.to_string()).unwrap_or("-".into());
        let n_iter = *rng.pick(&[0u32, 5, 40, 40, 300]);
        out.push(format!(
            "L {} {} {} {} {} {} {} {}",
            kind_fmt(kind),
            w,
            h,
            d_s,
            mips,
            px.fmt(),
            n_iter,
            qs.join(" ")
        ));
    };

    // --- structured part: every px shape x kinds x small boundary dims
    let small_dims = [1u32, 2, 3, 4, 5, 7, 8, 9, 15, 16, 17, 31, 33, 63, 64, 65, 255, 256, 257];
    let mut kinds: Vec<Kind> = vec![
        Kind::Dx9 { caps2: 0 },
        Kind::Dx9 { caps2: 0x200000 },
        Kind::Dx10 { cube: false, dim: 1, array: 1 },
        Kind::Dx10 { cube: false, dim: 2, array: 1 },
        Kind::Dx10 { cube: false, dim: 3, array: 1 },
        Kind::Dx10 { cube: true, dim: 2, array: 1 },
        Kind::Dx10 { cube: true, dim: 2, array: 3 },
        Kind::Dx10 { cube: true, dim: 3, array: 1 },
        Kind::Dx10 { cube: true, dim: 1, array: 1 },
        Kind::Dx10 { cube: false, dim: 2, array: 0 },
        Kind::Dx10 { cube: false, dim: 2, array: 2 },
        Kind::Dx10 { cube: false, dim: 2, array: 7 },
        Kind::Dx10 { cube: false, dim: 1, array: 5 },
        Kind::Dx10 { cube: false, dim: 3, array: 5 },
        Kind::Dx10 { cube: true, dim: 2, array: 0 },
        Kind::Dx10 { cube: true, dim: 2, array: 715827882 },
        Kind::Dx10 { cube: true, dim: 2, array: 715827883 },
        Kind::Dx10 { cube: true, dim: 2, array: u32::MAX },
        Kind::Dx10 { cube: false, dim: 2, array: u32::MAX },
        Kind::Dx9 { caps2: 0x200 | 0x200000 },
    ];
    // the 63 non-empty face sets (a cube-map flag without any face is outside the property's quantifier)
    for faces in 1..64u32 {
        kinds.push(Kind::Dx9 { caps2: 0x200 | (faces << 10) });
    }
    for px in &shapes {
        for kind in &kinds {
            let w = *rng.pick(&small_dims);
            let h = *rng.pick(&small_dims);
            let d = if rng.chance(2, 3) { Some(*rng.pick(&small_dims)) } else { None };
            let mips = *rng.pick(&[1u32, 1, 2, 3, 5, 9, 10, 32, 255]);
            emit(&mut out, &mut rng, kind, w, h, d, mips, *px);
        }
    }
    // --- random / boundary part
    while out.len() < n {
        let px = *rng.pick(&shapes);
        let kind = match rng.below(12) {
            0..=2 => Kind::Dx9 { caps2: 0 },
            3 => Kind::Dx9 { caps2: 0x200000 },
            4 => Kind::Dx9 { caps2: 0x200 | ((rng.range(1, 63) as u32) << 10) },
            5 => {
                // arbitrary caps2 words; a cube-map flag always comes with at least one face (63 face sets)
                let c = rng.next() as u32 & 0x0020_FE00 | (rng.next() as u32 & rng.next() as u32 & 0xFFDF_01FF);
                Kind::Dx9 { caps2: if c & 0x200 != 0 && (c >> 10) & 63 == 0 { c | (1 << (10 + rng.below(6))) } else { c } }
            }
            6..=7 => Kind::Dx10 { cube: false, dim: *rng.pick(&[1, 2, 2, 2, 3]), array: 1 },
            8..=9 => Kind::Dx10 { cube: false, dim: *rng.pick(&[1, 2, 2, 2, 3]), array: any_u32(&mut rng, &bset) },
            10 => Kind::Dx10 { cube: true, dim: *rng.pick(&[1, 2, 2, 2, 2, 3]), array: any_u32(&mut rng, &bset) },
            _ => Kind::Dx10 { cube: rng.chance(1, 2), dim: rng.range(1, 3) as u32, array: rng.below(4) as u32 },
        };
        // sizes: bias towards products near 2^64
        let (w, h) = match rng.below(6) {
            0 => (any_u32(&mut rng, &bset), any_u32(&mut rng, &bset)),
            1 => (rng.range(1, 70) as u32, rng.range(1, 70) as u32),
            2 => (*rng.pick(&bset), rng.range(1, 9) as u32),
            3 => (rng.range(1, 9) as u32, *rng.pick(&bset)),
            4 => (*rng.pick(&bset), *rng.pick(&bset)),
            _ => (u32::MAX - rng.below(3) as u32, u32::MAX - rng.below(3) as u32),
        };
        let d = match rng.below(4) {
            0 => None,
            1 => Some(any_u32(&mut rng, &bset)),
            2 => Some(rng.range(1, 9) as u32),
            _ => Some(*rng.pick(&bset)),
        };
        let mips = match rng.below(8) {
            0..=1 => 1,
            2..=4 => rng.range(1, 34) as u32,
            5 => rng.range(1, 255) as u32,
            6 => *rng.pick(&[255u32, 256, 257, 65536, u32::MAX, 254, 128]),
            _ => any_u32(&mut rng, &bset).max(1),
        };
        emit(&mut out, &mut rng, &kind, w, h, d, mips, px);
    }
    out
}

fn surf(s: &SurfaceDescriptor) -> String {
    format!("{},{},{},{}", s.width(), s.height(), s.data_offset(), s.data_len())
}

pub fn run(line: &str) -> Option<(String, Vec<String>)> {
    let t = toks(line);
    if t.len() < 8 || t[0] != "L" {
        return None;
    }
    let kind = kind_parse(t[1])?;
    let w = p_u32(t[2])?;
    let h = p_u32(t[3])?;
    let d = if t[4] == "-" { None } else { Some(p_u32(t[4])?) };
    let mips = p_u32(t[5])?;
    let px = Px::parse(t[6])?;
    let n_iter = p_usize(t[7])?;
    let mut queries = vec![];
    for q in &t[8..] {
        let p: Vec<&str> = q.split('.').collect();
        queries.push((p_u64(p[0])?, p_u64(p[1])?, p_u64(p[2])?));
    }
    let header = make_header(&kind, w, h, d, mips)?;
    let info = px.to_info();
    let mut oracle = vec![];

    let res = DataLayout::from_header_with(&header, info);
    let layout = match res {
        Err(e) => return Some((format!("err {}", err_name(&e)), oracle)),
        Ok(l) => l,
    };
    let mut s = String::new();
    let (tag, kindc, n) = match &layout {
        DataLayout::Texture(_) => ("T", "T".to_string(), 1u64),
        DataLayout::Volume(_) => ("V", "T".to_string(), 1),
        DataLayout::TextureArray(a) => (
            "A",
            match a.kind() {
                TextureArrayKind::Textures => "T".to_string(),
                TextureArrayKind::CubeMaps => "C".to_string(),
                TextureArrayKind::PartialCubeMap(f) => format!("P{}", f.bits()),
            },
            a.len() as u64,
        ),
    };
    let main = layout.main_size();
    s += &format!(
        "ok {tag} k={kindc} n={n} mips={} px={} main={}x{} len={} Q",
        layout.mipmaps(),
        Px::from_info(layout.pixel_info()).fmt(),
        main.width,
        main.height,
        layout.data_len()
    );
    if layout.data_offset() != 0 {
        oracle.push("layout offset != 0".into());
    }
    // queries through get()
    for &(i, l, k) in &queries {
        let r = match &layout {
            DataLayout::Texture(t) => {
                if i != 0 || l > 255 {
                    "-".to_string()
                } else {
                    match t.get(l as u8) {
                        Some(sf) => format!("{}@{}:{}", surf(&sf), t.data_offset(), t.data_end()),
                        None => "-".into(),
                    }
                }
            }
            DataLayout::TextureArray(a) => match a.get(i as usize) {
                None => "-".into(),
                Some(t) => {
                    if i >= a.len() as u64 {
                        oracle.push(format!(
                            "TextureArray::get({i}) returns a texture although the array has {} elements (iteration yields none at that index)",
                            a.len()
                        ));
                    }
                    if l > 255 {
                        "-".into()
                    } else {
                        match t.get(l as u8) {
                            Some(sf) => format!("{}@{}:{}", surf(&sf), t.data_offset(), t.data_end()),
                            None => "-".into(),
                        }
                    }
                }
            },
            DataLayout::Volume(v) => {
                if i != 0 || l > 255 {
                    "-".to_string()
                } else {
                    match v.get(l as u8) {
                        None => "-".into(),
                        Some(vd) => {
                            let head = format!(
                                "{},{},{},{},{}",
                                vd.width(),
                                vd.height(),
                                vd.depth(),
                                vd.data_offset(),
                                vd.data_len()
                            );
                            match vd.get_depth_slice(k as u32) {
                                Some(sf) if k <= u32::MAX as u64 => format!("{}/{}", head, surf(&sf)),
                                _ => format!("{}/-", head),
                            }
                        }
                    }
                }
            }
        };
        s += " ";
        s += &r;
    }
    // iteration
    s += " I";
    let flat: Vec<SurfaceDescriptor> = match &layout {
        DataLayout::Texture(t) => t.iter_mips().take(n_iter).collect(),
        DataLayout::TextureArray(a) => a.iter().flat_map(|t| t.iter_mips()).take(n_iter).collect(),
        DataLayout::Volume(v) => v
            .iter_mips()
            .flat_map(|vd| vd.iter_depth_slices())
            .take(n_iter)
            .collect(),
    };
    for sf in &flat {
        s += " ";
        s += &surf(sf);
    }

    // ---- oracle: the property evaluated directly in u128 ----
    oracle_check(&layout, w, h, d, px, &mut oracle);
    Some((s, oracle))
}

fn mip(d: u32, l: u32) -> u128 {
    if l >= 32 {
        1
    } else {
        ((d >> l) as u128).max(1)
    }
}

fn oracle_check(layout: &DataLayout, _w: u32, _h: u32, _d: Option<u32>, px: Px, oracle: &mut Vec<String>) {
    const LIMIT: u128 = 1_500;
    let total = layout.data_len() as u128;
    match layout {
        DataLayout::Texture(_) | DataLayout::TextureArray(_) => {
            let (n, first) = match layout {
                DataLayout::Texture(t) => (1u128, *t),
                DataLayout::TextureArray(a) => (a.len() as u128, match a.get(0) {
                    Some(t) => t,
                    None => {
                        if total != 0 {
                            oracle.push("empty array with non-zero length".into());
                        }
                        return;
                    }
                }),
                _ => unreachable!(),
            };
            let size = layout.main_size();
            let mips = layout.mipmaps() as u32;
            let mut tex_len: u128 = 0;
            for l in 0..mips {
                tex_len += px.ideal(mip(size.width, l), mip(size.height, l));
            }
            if tex_len * n != total {
                oracle.push(format!("total {} != ideal {}", total, tex_len * n));
            }
            if tex_len * n >= 1u128 << 64 {
                oracle.push("accepted layout whose ideal total exceeds u64".into());
            }
            if first.data_len() as u128 != tex_len {
                oracle.push("texture len != ideal".into());
            }
            // walk (bounded) and check contiguity, sizes, get == iter
            let mut expect_off: u128 = 0;
            let mut count: u128 = 0;
            let textures: Box<dyn Iterator<Item = Texture>> = match layout {
                DataLayout::Texture(t) => Box::new(std::iter::once(*t)),
                DataLayout::TextureArray(a) => Box::new(a.iter()),
                _ => unreachable!(),
            };
            'outer: for (i, t) in textures.enumerate() {
                if t.data_offset() as u128 != expect_off || t.data_end() as u128 != expect_off + tex_len {
                    oracle.push(format!("texture {i} offset/end wrong"));
                    break;
                }
                if let DataLayout::TextureArray(a) = layout {
                    if a.get(i) != Some(t) {
                        oracle.push(format!("array.get({i}) != iter"));
                    }
                }
                for (l, sf) in t.iter_mips().enumerate() {
                    let (ew, eh) = (mip(size.width, l as u32), mip(size.height, l as u32));
                    if sf.width() as u128 != ew || sf.height() as u128 != eh {
                        oracle.push(format!("surface {i}.{l} size {}x{} != {}x{}", sf.width(), sf.height(), ew, eh));
                    }
                    if sf.data_len() as u128 != px.ideal(ew, eh) {
                        oracle.push(format!("surface {i}.{l} len {} != {}", sf.data_len(), px.ideal(ew, eh)));
                    }
                    if sf.data_offset() as u128 != expect_off {
                        oracle.push(format!("surface {i}.{l} offset {} != {}", sf.data_offset(), expect_off));
                    }
                    if t.get(l as u8) != Some(sf) {
                        oracle.push(format!("get({l}) != iter"));
                    }
                    expect_off += sf.data_len() as u128;
                    count += 1;
                    if count > LIMIT || oracle.len() > 3 {
                        break 'outer;
                    }
                }
                if t.iter_mips().count() != mips as usize || t.get(mips.min(255) as u8).is_some() && mips < 256 {
                    oracle.push("mip count mismatch".into());
                }
            }
            if count <= LIMIT && oracle.is_empty() && expect_off != total {
                oracle.push(format!("sum of lengths {} != total {}", expect_off, total));
            }
        }
        DataLayout::Volume(v) => {
            let m = v.main();
            let (w0, h0, d0) = (m.width(), m.height(), m.depth());
            let mips = v.mipmaps() as u32;
            let mut ideal: u128 = 0;
            for l in 0..mips {
                ideal += px.ideal(mip(w0, l), mip(h0, l)) * mip(d0, l);
            }
            if ideal != total {
                oracle.push(format!("volume total {} != ideal {}", total, ideal));
            }
            if ideal >= 1u128 << 64 {
                oracle.push("accepted volume whose ideal total exceeds u64".into());
            }
            let mut expect_off: u128 = 0;
            let mut count: u128 = 0;
            'outer2: for (l, vd) in v.iter_mips().enumerate() {
                let (ew, eh, ed) = (mip(w0, l as u32), mip(h0, l as u32), mip(d0, l as u32));
                if vd.width() as u128 != ew || vd.height() as u128 != eh || vd.depth() as u128 != ed {
                    oracle.push(format!("volume level {l} size wrong"));
                }
                if vd.data_offset() as u128 != expect_off {
                    oracle.push(format!("volume level {l} offset {} != {}", vd.data_offset(), expect_off));
                }
                if v.get(l as u8) != Some(vd) {
                    oracle.push(format!("volume get({l}) != iter"));
                }
                let sl = px.ideal(ew, eh);
                if vd.data_len() as u128 != sl * ed {
                    oracle.push(format!("volume level {l} len wrong"));
                }
                let lvl_start = expect_off;
                for (k, sf) in vd.iter_depth_slices().enumerate() {
                    if sf.data_offset() as u128 != lvl_start + k as u128 * sl
                        || sf.data_len() as u128 != sl
                        || sf.width() as u128 != ew
                        || sf.height() as u128 != eh
                    {
                        oracle.push(format!("slice {l}.{k} wrong"));
                    }
                    if vd.get_depth_slice(k as u32) != Some(sf) {
                        oracle.push(format!("get_depth_slice({k}) != iter"));
                    }
                    count += 1;
                    if count > LIMIT || oracle.len() > 3 {
                        break 'outer2;
                    }
                }
                if vd.get_depth_slice(vd.depth()).is_some() {
                    oracle.push("get_depth_slice(depth) is some".into());
                }
                expect_off += sl * ed;
            }
            if count <= LIMIT && oracle.is_empty() && expect_off != total {
                oracle.push(format!("volume sum {} != total {}", expect_off, total));
            }
        }
    }
}
