//! C01: hostile files never crash the reader (parse, layout, decode are total).
//!
//! case line (every token is needed to replay the case; see lean/DdsModel/DdsModel/Drv/C01.lean):
//!
//!   X <opt> <fl> <env> <prefix> <data> <op>*
//!
//!   <opt>     s | p | S | P            strict / permissive, capital = skip_magic_bytes
//!   <fl>      - | <u64>                ParseOptions::file_len
//!   <env>     <mode>[,c][,b<n>]        mode: n | h<k> | e<k> | i<k> | t<k>  (no fault / hard error at byte k /
//!                                      reads at or beyond byte k return Ok(0) / one `Interrupted` at byte k /
//!                                      one `Ok(0)` at byte k, only with L m r A operations);
//!                                      c = `seek` clamps to the end of the file, b<n> = reads deliver <= n bytes
//!   <prefix>  - | item(,item)*         the first bytes of the file: hex word (LE u32) | z<n> (n zero words) |
//!                                      x<hex> (raw bytes)
//!   <data>    - | <len>:<seed>         <len> more pseudo random bytes
//!   <op>      L                        DataLayout::from_header(header)
//!             m<limit>                 decoder.options.memory_limit = limit
//!             r<c>[p] | r<c>:<w>:<h>   read_surface into colour c (0..11 = precision*4 + channels); image size =
//!                                      size of the current surface (1x1 if none / if its buffer would exceed
//!                                      16 MiB), `p` = row pitch 5 bytes larger than a row; or explicit size
//!             q<c>:<ox>:<oy>:<w>:<h>   read_surface_rect
//!             s | k                    skip_surface | skip_mipmaps
//!             c<c> | c<c>:<w>:<h>      read_cube_map (image 4w x 3h of the main size, 1x1 if too large)
//!             A<c>                     read_surface (as r<c>) until done / first error / 64 surfaces
//!             p | z                    rewind_to_previous_surface | rewind_to_start (only if the data section is
//!                                      <= i64::MAX bytes; otherwise not called: they document an `expect`)
//!
//! Operations are executed while the reader position is below 2^63.
//!
//! result line: `hdr=<header|err>@<pos> [new=<ok|err>] [fmt=<name|err> lay=<layout|err>] | <op>=<kind>@<pos> ... | cur=<..>`
//!
//! Oracle (no model involved): no panic, no hang (watchdog), no abort; a call during which the reader
//! returned an error or `Ok(0)` for a non-empty buffer ends in `Err(Io)`; a full decode that returns `Ok` found
//! at least `data_len` bytes at the reader position; a single-surface call that used the reader fails only
//! with `Err(Io)`; the bytes between the rows of a padded view are not written; `Decoder::new_with_options`
//! agrees with `Header::read` + `Decoder::from_header`.
use crate::c09;
use crate::common::*;
use dds::header::*;
use dds::*;
use std::cell::RefCell;
use std::io::{Read, Seek, SeekFrom};
use std::rc::Rc;
use std::sync::mpsc;
use std::time::Duration;

pub const CAP: u64 = 16 * 1024 * 1024;
const BIGPOS: u64 = 1 << 63;
const MAX_A: usize = 64;

// ---------------------------------------------------------------------------------------------
// fault injecting reader

#[derive(Clone, Copy, Debug, PartialEq)]
pub enum Mode {
    None,
    Hard(u64),
    Eof(u64),
    Intr(u64),
    /// `Ok(0)` once, by the first read at or beyond this offset, although the stream goes on
    EofOnce(u64),
}

pub struct HReader {
    pub data: Vec<u8>,
    pub pos: u64,
    pub mode: Mode,
    pub clamp: bool,
    pub chunk: u64,
    intr_done: bool,
    /// any `read`/`seek`/`stream_position` call since the last `reset_flags`
    pub touched: bool,
    /// an `Err` other than `Interrupted` was returned
    pub reported_error: bool,
    /// `Ok(0)` was returned for a non-empty buffer
    pub eof_hit: bool,
}
impl HReader {
    pub fn new(data: Vec<u8>, mode: Mode, clamp: bool, chunk: u64) -> Self {
        HReader { data, pos: 0, mode, clamp, chunk, intr_done: false, touched: false, reported_error: false, eof_hit: false }
    }
    fn reset_flags(&mut self) {
        self.touched = false;
        self.reported_error = false;
        self.eof_hit = false;
    }
    fn len(&self) -> u64 {
        self.data.len() as u64
    }
}
/// the kind of a hard error rotates with its offset (any error the reader reports must surface as an I/O error)
fn injected(k: u64) -> std::io::Error {
    use std::io::ErrorKind::*;
    const KINDS: [std::io::ErrorKind; 9] =
        [Other, OutOfMemory, WouldBlock, TimedOut, ConnectionReset, InvalidData, UnexpectedEof, PermissionDenied, BrokenPipe];
    std::io::Error::new(KINDS[(k % 9) as usize], "injected fault")
}

impl Read for HReader {
    fn read(&mut self, buf: &mut [u8]) -> std::io::Result<usize> {
        self.touched = true;
        if buf.is_empty() {
            return Ok(0);
        }
        let mut lim = self.len();
        match self.mode {
            Mode::Hard(k) => {
                if self.pos >= k {
                    self.reported_error = true;
                    return Err(injected(k));
                }
                lim = lim.min(k);
            }
            Mode::Eof(k) => lim = lim.min(k),
            Mode::Intr(k) => {
                if !self.intr_done {
                    if self.pos >= k {
                        self.intr_done = true;
                        return Err(std::io::Error::new(std::io::ErrorKind::Interrupted, "interrupted"));
                    }
                    lim = lim.min(k);
                }
            }
            Mode::EofOnce(k) => {
                if !self.intr_done {
                    if self.pos >= k {
                        self.intr_done = true;
                        self.eof_hit = true;
                        return Ok(0);
                    }
                    lim = lim.min(k);
                }
            }
            Mode::None => {}
        }
        if self.pos >= lim {
            self.eof_hit = true;
            return Ok(0);
        }
        let mut want = (buf.len() as u64).min(lim - self.pos);
        if self.chunk > 0 {
            want = want.min(self.chunk);
        }
        let (p, n) = (self.pos as usize, want as usize);
        buf[..n].copy_from_slice(&self.data[p..p + n]);
        self.pos += want;
        Ok(n)
    }
}
impl Seek for HReader {
    fn seek(&mut self, from: SeekFrom) -> std::io::Result<u64> {
        self.touched = true;
        let target: i128 = match from {
            SeekFrom::Start(n) => n as i128,
            SeekFrom::Current(d) => self.pos as i128 + d as i128,
            SeekFrom::End(d) => self.len() as i128 + d as i128,
        };
        if target < 0 || target > u64::MAX as i128 {
            self.reported_error = true;
            return Err(std::io::Error::new(std::io::ErrorKind::InvalidInput, "seek out of range"));
        }
        let target = target as u64;
        if let Mode::Hard(k) = self.mode {
            if target > k {
                self.reported_error = true;
                return Err(injected(k));
            }
        }
        let new = if self.clamp && target > self.len() { self.len().max(self.pos) } else { target };
        self.pos = new;
        Ok(new)
    }
    fn stream_position(&mut self) -> std::io::Result<u64> {
        self.touched = true;
        Ok(self.pos)
    }
}

#[derive(Clone)]
struct Shared(Rc<RefCell<HReader>>);
impl Read for Shared {
    fn read(&mut self, buf: &mut [u8]) -> std::io::Result<usize> {
        self.0.borrow_mut().read(buf)
    }
}
impl Seek for Shared {
    fn seek(&mut self, from: SeekFrom) -> std::io::Result<u64> {
        self.0.borrow_mut().seek(from)
    }
    fn stream_position(&mut self) -> std::io::Result<u64> {
        self.0.borrow_mut().stream_position()
    }
}

// ---------------------------------------------------------------------------------------------
// case parsing

fn hex_val(c: u8) -> Option<u8> {
    match c {
        b'0'..=b'9' => Some(c - b'0'),
        b'a'..=b'f' => Some(c - b'a' + 10),
        b'A'..=b'F' => Some(c - b'A' + 10),
        _ => None,
    }
}

pub fn parse_prefix(s: &str) -> Option<Vec<u8>> {
    let mut v = vec![];
    if s == "-" {
        return Some(v);
    }
    for it in s.split(',') {
        if let Some(n) = it.strip_prefix('z') {
            let n: usize = n.parse().ok()?;
            if n > 4096 {
                return None;
            }
            v.extend(std::iter::repeat(0u8).take(4 * n));
        } else if let Some(h) = it.strip_prefix('x') {
            let h = h.as_bytes();
            if h.len() % 2 != 0 {
                return None;
            }
            for p in h.chunks(2) {
                v.push(hex_val(p[0])? * 16 + hex_val(p[1])?);
            }
        } else {
            if it.is_empty() || it.len() > 8 {
                return None;
            }
            let w = u32::from_str_radix(it, 16).ok()?;
            v.extend_from_slice(&w.to_le_bytes());
        }
    }
    Some(v)
}

pub fn enc_prefix(bytes: &[u8]) -> String {
    if bytes.is_empty() {
        return "-".into();
    }
    let mut items: Vec<String> = vec![];
    let mut z = 0usize;
    let whole = bytes.len() / 4;
    for i in 0..whole {
        let w = u32::from_le_bytes([bytes[4 * i], bytes[4 * i + 1], bytes[4 * i + 2], bytes[4 * i + 3]]);
        if w == 0 {
            z += 1;
        } else {
            if z > 0 {
                items.push(format!("z{z}"));
                z = 0;
            }
            items.push(format!("{w:x}"));
        }
    }
    if z > 0 {
        items.push(format!("z{z}"));
    }
    let tail = &bytes[4 * whole..];
    if !tail.is_empty() {
        items.push(format!("x{}", tail.iter().map(|b| format!("{b:02x}")).collect::<String>()));
    }
    items.join(",")
}

fn data_bytes(len: usize, seed: u64) -> Vec<u8> {
    let mut x = seed.wrapping_mul(0x9E37_79B9_7F4A_7C15) | 1;
    let mut v = Vec::with_capacity(len);
    while v.len() < len {
        x ^= x >> 12;
        x ^= x << 25;
        x ^= x >> 27;
        let y = x.wrapping_mul(0x2545_F491_4F6C_DD1D).to_le_bytes();
        let take = (len - v.len()).min(8);
        v.extend_from_slice(&y[..take]);
    }
    v
}

struct EnvSpec {
    mode: Mode,
    clamp: bool,
    chunk: u64,
}
fn parse_env(s: &str) -> Option<EnvSpec> {
    let mut it = s.split(',');
    let m = it.next()?;
    let mode = if m == "n" {
        Mode::None
    } else {
        let k: u64 = m.get(1..)?.parse().ok()?;
        match m.as_bytes()[0] {
            b'h' => Mode::Hard(k),
            b'e' => Mode::Eof(k),
            b'i' => Mode::Intr(k),
            b't' => Mode::EofOnce(k),
            _ => return None,
        }
    };
    let mut e = EnvSpec { mode, clamp: false, chunk: 0 };
    for f in it {
        if f == "c" {
            e.clamp = true;
        } else if let Some(n) = f.strip_prefix('b') {
            e.chunk = n.parse().ok()?;
        } else {
            return None;
        }
    }
    Some(e)
}

#[derive(Clone, Debug)]
enum Op {
    Layout,
    Limit(usize),
    Read { c: usize, pad: bool, size: Option<(u32, u32)> },
    Rect { c: usize, ox: u32, oy: u32, w: u32, h: u32 },
    Skip,
    SkipMips,
    Cube { c: usize, size: Option<(u32, u32)> },
    All { c: usize },
    RewPrev,
    RewStart,
}

fn parse_colour(s: &str) -> Option<usize> {
    let c: usize = s.parse().ok()?;
    if c < 12 {
        Some(c)
    } else {
        None
    }
}

fn parse_op(s: &str) -> Option<Op> {
    let b = s.as_bytes();
    if b.is_empty() {
        return None;
    }
    let rest = &s[1..];
    let parts: Vec<&str> = rest.split(':').collect();
    match b[0] {
        b'L' if rest.is_empty() => Some(Op::Layout),
        b'm' => Some(Op::Limit(rest.parse().ok()?)),
        b'r' => {
            if parts.len() == 1 {
                if let Some(c) = parts[0].strip_suffix('p') {
                    Some(Op::Read { c: parse_colour(c)?, pad: true, size: None })
                } else {
                    Some(Op::Read { c: parse_colour(parts[0])?, pad: false, size: None })
                }
            } else if parts.len() == 3 {
                Some(Op::Read { c: parse_colour(parts[0])?, pad: false, size: Some((p_u32(parts[1])?, p_u32(parts[2])?)) })
            } else {
                None
            }
        }
        b'q' if parts.len() == 5 => Some(Op::Rect {
            c: parse_colour(parts[0])?,
            ox: p_u32(parts[1])?,
            oy: p_u32(parts[2])?,
            w: p_u32(parts[3])?,
            h: p_u32(parts[4])?,
        }),
        b's' if rest.is_empty() => Some(Op::Skip),
        b'k' if rest.is_empty() => Some(Op::SkipMips),
        b'c' => {
            if parts.len() == 1 {
                Some(Op::Cube { c: parse_colour(parts[0])?, size: None })
            } else if parts.len() == 3 {
                Some(Op::Cube { c: parse_colour(parts[0])?, size: Some((p_u32(parts[1])?, p_u32(parts[2])?)) })
            } else {
                None
            }
        }
        b'A' => Some(Op::All { c: parse_colour(rest)? }),
        b'p' if rest.is_empty() => Some(Op::RewPrev),
        b'z' if rest.is_empty() => Some(Op::RewStart),
        _ => None,
    }
}

fn bpp(c: usize) -> u64 {
    all_colors()[c].bytes_per_pixel() as u64
}

/// explicit image sizes must stay below the cap (else the case is rejected on both sides)
fn op_ok(op: &Op) -> bool {
    let fits = |c: usize, w: u32, h: u32| (w as u128) * (h as u128) * bpp(c) as u128 <= CAP as u128;
    match op {
        Op::Read { c, size: Some((w, h)), .. } => fits(*c, *w, *h),
        Op::Rect { c, w, h, .. } => fits(*c, *w, *h),
        Op::Cube { c, size: Some((w, h)) } => fits(*c, *w, *h),
        _ => true,
    }
}

// ---------------------------------------------------------------------------------------------
// run

fn dec_err_name(e: &DecodingError) -> String {
    match e {
        DecodingError::RectOutOfBounds => "RectOutOfBounds".into(),
        DecodingError::UnexpectedSurfaceSize => "UnexpectedSurfaceSize".into(),
        DecodingError::CannotSkipMipmapsInVolume => "CannotSkipMipmapsInVolume".into(),
        DecodingError::NoMoreSurfaces => "NoMoreSurfaces".into(),
        DecodingError::NotACubeMap => "NotACubeMap".into(),
        DecodingError::MemoryLimitExceeded => "MemoryLimitExceeded".into(),
        DecodingError::Layout(_) => "Layout".into(),
        DecodingError::Format(_) => "Format".into(),
        DecodingError::Header(_) => "Header".into(),
        DecodingError::Io(_) => "Io".into(),
        #[allow(unreachable_patterns)]
        _ => "other".into(),
    }
}

fn layout_err_name(e: &LayoutError) -> &'static str {
    match e {
        LayoutError::TooManyMipMaps(_) => "TooManyMipMaps",
        LayoutError::MissingDepth => "MissingDepth",
        LayoutError::ZeroDimension => "ZeroDimension",
        LayoutError::ArraySizeTooBig(_) => "ArraySizeTooBig",
        LayoutError::DataLayoutTooBig => "DataLayoutTooBig",
        LayoutError::InvalidCubeMapFaces => "InvalidCubeMapFaces",
        #[allow(unreachable_patterns)]
        _ => "other",
    }
}

fn fmt_layout(l: &DataLayout) -> String {
    match l {
        DataLayout::Texture(t) => format!("T:{}x{}:{}:{}", t.main().width(), t.main().height(), t.mipmaps(), t.data_len()),
        DataLayout::Volume(v) => {
            let m = v.main();
            format!("V:{}x{}x{}:{}:{}", m.width(), m.height(), m.depth(), v.mipmaps(), v.data_len())
        }
        DataLayout::TextureArray(a) => {
            let k = match a.kind() {
                TextureArrayKind::Textures => "T".to_string(),
                TextureArrayKind::CubeMaps => "C".to_string(),
                TextureArrayKind::PartialCubeMap(f) => format!("P{}", f.bits()),
            };
            format!("A{}:{}:{}x{}:{}:{}", k, a.len(), a.size().width, a.size().height, a.mipmaps(), a.data_len())
        }
    }
}

thread_local! {
    /// what the case was doing (reported with a panic)
    static STAGE: RefCell<String> = RefCell::new(String::new());
}
fn stage(s: &str) {
    STAGE.with(|x| {
        let mut x = x.borrow_mut();
        x.clear();
        x.push_str(s);
    });
}

struct Ctx {
    rd: Rc<RefCell<HReader>>,
    oracle: Vec<String>,
}
impl Ctx {
    fn pos(&self) -> u64 {
        self.rd.borrow().pos
    }
    fn remaining(&self) -> u64 {
        let r = self.rd.borrow();
        let mut lim = r.len();
        match r.mode {
            Mode::Hard(k) | Mode::Eof(k) => lim = lim.min(k),
            _ => {}
        }
        lim.saturating_sub(r.pos)
    }
    fn reset(&self) {
        self.rd.borrow_mut().reset_flags();
    }
    /// the generic part of the oracle for one call
    fn check(&mut self, what: &str, r: &Result<(), DecodingError>, single_surface: bool) {
        let (touched, rep, eof) = {
            let r = self.rd.borrow();
            (r.touched, r.reported_error, r.eof_hit)
        };
        let is_io = matches!(r, Err(DecodingError::Io(_)));
        if (rep || eof) && !is_io {
            self.oracle.push(format!(
                "reader error not propagated: {what} returned {} although the reader reported {}",
                match r {
                    Ok(()) => "Ok".to_string(),
                    Err(e) => format!("Err({})", dec_err_name(e)),
                },
                if rep { "an error" } else { "end of file" }
            ));
        }
        if single_surface && touched && r.is_err() && !is_io {
            self.oracle.push(format!(
                "non-I/O error after the reader was used: {what} returned Err({})",
                dec_err_name(r.as_ref().err().unwrap())
            ));
        }
    }
}

fn res_name(r: &Result<(), DecodingError>) -> String {
    match r {
        Ok(()) => "ok".into(),
        Err(e) => dec_err_name(e),
    }
}

/// read_surface with the automatic / explicit image size; returns the result
fn do_read(dec: &mut Decoder<Shared>, ctx: &mut Ctx, c: usize, pad: bool, size: Option<(u32, u32)>, what: &str) -> Result<(), DecodingError> {
    let color = all_colors()[c];
    let b = bpp(c);
    let info = dec.surface_info().map(|i| (i.size(), i.data_len()));
    let (w, h) = match size {
        Some(s) => s,
        None => match info {
            Some((s, _)) if (s.width as u128) * (s.height as u128) * b as u128 <= CAP as u128 => (s.width, s.height),
            _ => (1, 1),
        },
    };
    let pad = if pad && w > 0 && h > 0 { 5usize } else { 0 };
    let pitch = w as usize * b as usize + pad;
    let mut buf = vec![0xA5u8; pitch * h as usize];
    let remaining = ctx.remaining();
    ctx.reset();
    let r = {
        let img = ImageViewMut::new_with(&mut buf, pitch, Size::new(w, h), color).expect("harness: view");
        dec.read_surface(img)
    };
    ctx.check(what, &r, true);
    if r.is_ok() {
        if let Some((_, len)) = info {
            if remaining < len {
                ctx.oracle.push(format!(
                    "truncated surface decoded as Ok: {what} needs {len} bytes, the stream had {remaining} at the reader position"
                ));
            }
        }
        if pad > 0 {
            let row = w as usize * b as usize;
            for y in 0..h as usize {
                let from = y * pitch + row;
                let to = if y + 1 == h as usize { buf.len() } else { (y + 1) * pitch };
                if buf[from..to].iter().any(|x| *x != 0xA5) {
                    ctx.oracle.push(format!("{what} wrote between the rows of a padded view (row {y})"));
                    break;
                }
            }
        }
    }
    r
}

fn fmt_cur(dec: &Decoder<Shared>) -> String {
    match dec.surface_info() {
        Some(i) => format!("{},{},{},{}", i.size().width, i.size().height, i.data_len(), if i.is_mipmap() { 1 } else { 0 }),
        None => "done".into(),
    }
}

/// Upper bound on the memory a `G` case may need (output view + the whole encoded surface, which bounds the line
/// buffer / plane-1 allocation); larger cases answer `skip` on both sides.
const GIANT_MEM_CAP: u64 = 8 << 30;

/// `G <format> <width> <height> <channels> <prec>`: one full `dds::decode` of a giant surface (sizes near `u32::MAX`) from
/// an all-zero stream into a freshly allocated tight view with `memory_limit = usize::MAX`.  Regression tie of F17
/// (`ChannelConversionBuffer::process_blocks`: `chunk_start + preferred_chunk_size` overflowed `u32` for widths within one
/// chunk of 2^32).  Result `ok <bytes consumed>`; oracle: no panic, `Ok`, the reader delivered the whole surface.
fn run_giant(t: &[&str]) -> Option<(String, Vec<String>)> {
    if t.len() != 6 {
        return None;
    }
    let format = all_formats().into_iter().find(|(n, _)| *n == t[1])?.1;
    let w: u32 = t[2].parse().ok()?;
    let h: u32 = t[3].parse().ok()?;
    if w == 0 || h == 0 {
        return None;
    }
    let channels = match t[4] {
        "gray" => Channels::Grayscale,
        "alpha" => Channels::Alpha,
        "rgb" => Channels::Rgb,
        "rgba" => Channels::Rgba,
        _ => return None,
    };
    let precision = match t[5] {
        "u8" => Precision::U8,
        "u16" => Precision::U16,
        "f32" => Precision::F32,
        _ => return None,
    };
    let color = ColorFormat::new(channels, precision);
    let size = Size::new(w, h);
    let out_bytes = (w as u128) * (h as u128) * color.bytes_per_pixel() as u128;
    let bytes = match PixelInfo::from(format).surface_bytes(size) {
        Some(b) => b,
        None => return Some(("MemoryLimitExceeded".into(), vec![])),
    };
    if out_bytes + bytes as u128 > GIANT_MEM_CAP as u128 {
        return Some(("skip".into(), vec![]));
    }
    let mut oracle = vec![];
    let mut out = vec![0u8; out_bytes as usize];
    let image = ImageViewMut::new(&mut out, size, color)?;
    let mut options = DecodeOptions::default();
    options.memory_limit = usize::MAX;
    let mut reader = std::io::repeat(0u8).take(bytes);
    stage("giant decode");
    let r = decode(&mut reader, image, format, &options);
    let consumed = bytes - reader.limit();
    let res = match &r {
        Ok(()) => format!("ok {consumed}"),
        Err(e) => dec_err_name(e),
    };
    if r.is_err() {
        oracle.push(format!("giant decode of a {w}x{h} {format:?} surface failed: {res}"));
    } else if consumed != bytes {
        oracle.push(format!("giant decode returned Ok after {consumed} of {bytes} bytes"));
    }
    Some((res, oracle))
}

fn run_case(line: &str) -> Option<(String, Vec<String>)> {
    let t = toks(line);
    if !t.is_empty() && t[0] == "G" {
        return run_giant(&t);
    }
    if t.len() < 6 || t[0] != "X" {
        return None;
    }
    let opts = c09::Opts::parse(t[1], t[2])?.to_options();
    let env = parse_env(t[3])?;
    let mut bytes = parse_prefix(t[4])?;
    if t[5] != "-" {
        let (l, s) = t[5].split_once(':')?;
        let l: usize = l.parse().ok()?;
        if l > (CAP as usize) * 4 {
            return None;
        }
        bytes.extend(data_bytes(l, s.parse().ok()?));
    }
    let ops: Vec<Op> = t[6..].iter().map(|s| parse_op(s)).collect::<Option<Vec<_>>>()?;
    if !ops.iter().all(op_ok) {
        return None;
    }
    // a transient end of file is only combined with full reads (then an `Io` result means it was consumed)
    if let Mode::EofOnce(_) = env.mode {
        if !ops.iter().all(|o| matches!(o, Op::Layout | Op::Limit(_) | Op::Read { .. } | Op::All { .. })) {
            return None;
        }
    }

    let mut out: Vec<String> = vec![];
    let mut oracle: Vec<String> = vec![];

    // ---- Header::read on its own reader
    stage("Header::read");
    let mut hr = HReader::new(bytes.clone(), env.mode, env.clamp, env.chunk);
    let hres = Header::read(&mut hr, &opts);
    if (hr.reported_error || hr.eof_hit) && !matches!(hres, Err(HeaderError::Io(_))) {
        oracle.push(format!(
            "reader error not propagated: Header::read returned {} although the reader reported {}",
            match &hres {
                Ok(_) => "Ok".to_string(),
                Err(e) => c09::fmt_err(e),
            },
            if hr.reported_error { "an error" } else { "end of file" }
        ));
    }
    let header = match &hres {
        Ok(h) => {
            out.push(format!("hdr={}@{}", c09::fmt_header(h), hr.pos));
            Some(h.clone())
        }
        Err(e) => {
            out.push(format!("hdr={}@{}", c09::fmt_err(e), hr.pos));
            None
        }
    };

    // ---- Decoder::new_with_options on a fresh reader
    stage("Decoder::new_with_options");
    let rd = Rc::new(RefCell::new(HReader::new(bytes, env.mode, env.clamp, env.chunk)));
    let dres = Decoder::new_with_options(Shared(rd.clone()), &opts);
    let mut ctx = Ctx { rd: rd.clone(), oracle };
    match (&hres, &dres) {
        (Err(e), Err(DecodingError::Header(e2))) if c09::fmt_err(e) == c09::fmt_err(e2) => {}
        (Err(e), other) => ctx.oracle.push(format!(
            "Decoder::new_with_options disagrees with Header::read: {} vs {}",
            c09::fmt_err(e),
            match other {
                Ok(_) => "Ok".to_string(),
                Err(e) => dec_err_name(e),
            }
        )),
        (Ok(_), Err(DecodingError::Header(_))) | (Ok(_), Err(DecodingError::Io(_))) => {
            ctx.oracle.push("Decoder::new_with_options fails with a header/IO error although Header::read succeeded".into())
        }
        _ => {}
    }
    if let Some(h) = &header {
        // the two steps of new_with_options, separately
        match Format::from_header(h) {
            Ok(f) => {
                let name = c09::format_name(f);
                match DataLayout::from_header_with(h, f.into()) {
                    Ok(l) => out.push(format!("fmt={} lay={}", name, fmt_layout(&l))),
                    Err(e) => out.push(format!("fmt={} lay=err:{}", name, layout_err_name(&e))),
                }
                match &dres {
                    Ok(d) => {
                        if d.format() != f || d.header() != h {
                            ctx.oracle.push("Decoder::new_with_options: header/format differ from Header::read + Format::from_header".into());
                        }
                    }
                    Err(DecodingError::Layout(_)) => {}
                    Err(e) => ctx.oracle.push(format!("Decoder::new_with_options: unexpected Err({})", dec_err_name(e))),
                }
            }
            Err(e) => {
                let n = match e {
                    FormatError::UnsupportedDxgiFormat(_) => "UnsupportedDxgiFormat",
                    FormatError::UnsupportedFourCC(_) => "UnsupportedFourCC",
                    FormatError::UnsupportedPixelFormat => "UnsupportedPixelFormat",
                    #[allow(unreachable_patterns)]
                    _ => "other",
                };
                out.push(format!("fmt=err:{n}"));
                if !matches!(dres, Err(DecodingError::Format(_))) {
                    ctx.oracle.push("Decoder::new_with_options: expected a format error".into());
                }
            }
        }
    }
    let mut dec = dres.ok();
    out.push("|".into());

    // ---- operations
    for (i, op) in ops.iter().enumerate() {
        let what = format!("op {} `{}`", i, t[6 + i]);
        stage(&what);
        if let Op::Layout = op {
            match &header {
                Some(h) => out.push(format!("L={}", c09::fmt_layout(h))),
                None => out.push("L=-".into()),
            }
            continue;
        }
        let d = match dec.as_mut() {
            Some(d) => d,
            None => {
                out.push("-".into());
                continue;
            }
        };
        if ctx.pos() >= BIGPOS {
            out.push("stop-bigpos".into());
            break;
        }
        let small = d.layout().data_len() <= i64::MAX as u64;
        let r: String = match op {
            Op::Layout => unreachable!(),
            Op::Limit(l) => {
                d.options.memory_limit = *l;
                "m".into()
            }
            Op::Read { c, pad, size } => res_name(&do_read(d, &mut ctx, *c, *pad, *size, &what)),
            Op::All { c } => {
                let mut n = 0;
                let mut last = "ok".to_string();
                while n < MAX_A && !d.is_done() && ctx.pos() < BIGPOS {
                    let r = do_read(d, &mut ctx, *c, false, None, &what);
                    if r.is_ok() {
                        n += 1;
                    } else {
                        last = res_name(&r);
                        break;
                    }
                }
                format!("{n}:{last}")
            }
            Op::Rect { c, ox, oy, w, h } => {
                let color = all_colors()[*c];
                let mut buf = vec![0u8; (*w as u64 * *h as u64 * bpp(*c)) as usize];
                ctx.reset();
                let img = ImageViewMut::new(&mut buf, Size::new(*w, *h), color).expect("harness: view");
                let r = d.read_surface_rect(img, Offset::new(*ox, *oy));
                ctx.check(&what, &r, true);
                res_name(&r)
            }
            Op::Skip => {
                ctx.reset();
                let r = d.skip_surface();
                ctx.check(&what, &r, true);
                res_name(&r)
            }
            Op::SkipMips => {
                ctx.reset();
                let r = d.skip_mipmaps();
                ctx.check(&what, &r, true);
                res_name(&r)
            }
            Op::Cube { c, size } => {
                let color = all_colors()[*c];
                let (w, h) = match size {
                    Some(s) => *s,
                    None => {
                        let m = d.main_size();
                        let (w4, h3) = (m.width as u64 * 4, m.height as u64 * 3);
                        if w4 <= u32::MAX as u64 && h3 <= u32::MAX as u64 && (w4 as u128) * (h3 as u128) * (bpp(*c) as u128) <= CAP as u128 {
                            (w4 as u32, h3 as u32)
                        } else {
                            (1, 1)
                        }
                    }
                };
                let mut buf = vec![0u8; (w as u64 * h as u64 * bpp(*c)) as usize];
                ctx.reset();
                let img = ImageViewMut::new(&mut buf, Size::new(w, h), color).expect("harness: view");
                let r = d.read_cube_map(img);
                ctx.check(&what, &r, false);
                res_name(&r)
            }
            Op::RewPrev => {
                if small {
                    ctx.reset();
                    let r = d.rewind_to_previous_surface();
                    ctx.check(&what, &r, false);
                    res_name(&r)
                } else {
                    "skip".into()
                }
            }
            Op::RewStart => {
                if small {
                    ctx.reset();
                    let r = d.rewind_to_start();
                    ctx.check(&what, &r, false);
                    res_name(&r)
                } else {
                    "skip".into()
                }
            }
        };
        out.push(format!("{}@{}", r, ctx.pos()));
    }
    stage("end");
    out.push("|".into());
    match &dec {
        Some(d) => out.push(format!("cur={}", fmt_cur(d))),
        None => out.push("cur=-".into()),
    }
    Some((out.join(" "), ctx.oracle))
}

// ---------------------------------------------------------------------------------------------
// watchdog: every case runs on a worker thread; the caller waits with a time-out

type CaseResult = Option<(String, Vec<String>)>;
struct Worker {
    tx: mpsc::Sender<String>,
    rx: mpsc::Receiver<CaseResult>,
}
fn spawn_worker() -> Worker {
    let (tx, wrx) = mpsc::channel::<String>();
    let (wtx, rx) = mpsc::channel::<CaseResult>();
    std::thread::Builder::new()
        .name("c01-worker".into())
        .stack_size(16 << 20)
        .spawn(move || {
            for line in wrx {
                let l = line.clone();
                let r = std::panic::catch_unwind(move || run_case(&l));
                let r = match r {
                    Ok(r) => r,
                    Err(e) => {
                        let st = STAGE.with(|s| s.borrow().clone());
                        Some(("panic".to_string(), vec![format!("panic during {}: {}", st, panic_msg(&e))]))
                    }
                };
                if wtx.send(r).is_err() {
                    break;
                }
            }
        })
        .expect("spawn worker");
    Worker { tx, rx }
}
thread_local! {
    static WORKER: RefCell<Option<Worker>> = RefCell::new(None);
    static HANGS: RefCell<u32> = RefCell::new(0);
}
fn watchdog() -> Duration {
    let ms = std::env::var("C01_WATCHDOG_MS").ok().and_then(|s| s.parse().ok()).unwrap_or(20_000u64);
    Duration::from_millis(ms)
}

pub fn run(line: &str) -> Option<(String, Vec<String>)> {
    WORKER.with(|w| {
        let mut w = w.borrow_mut();
        if w.is_none() {
            *w = Some(spawn_worker());
        }
        let wk = w.as_ref().unwrap();
        if wk.tx.send(line.to_string()).is_err() {
            *w = None;
            return Some(("worker-died".into(), vec!["abort: the worker thread died".into()]));
        }
        // a giant case fills 4 GiB of output: give it minutes, not seconds
        let limit = if line.starts_with("G ") { watchdog().max(Duration::from_secs(900)) } else { watchdog() };
        match wk.rx.recv_timeout(limit) {
            Ok(r) => r,
            Err(mpsc::RecvTimeoutError::Timeout) => {
                // the stuck thread cannot be killed: abandon it, and give up on the process if it happens again
                *w = None;
                let n = HANGS.with(|h| {
                    *h.borrow_mut() += 1;
                    *h.borrow()
                });
                if n >= 3 {
                    eprintln!("C01 watchdog: third hang in this process, aborting");
                    std::process::abort();
                }
                Some(("hang".into(), vec![format!("hang: no result within {} ms", watchdog().as_millis())]))
            }
            Err(mpsc::RecvTimeoutError::Disconnected) => {
                *w = None;
                Some(("worker-died".into(), vec!["abort: the worker thread died".into()]))
            }
        }
    })
}

// ---------------------------------------------------------------------------------------------
// generation

const MAGIC: u32 = 0x2053_4444;

/// file image of a header (magic + raw header)
fn file_of(h: &Header) -> Vec<u8> {
    let mut v = Vec::new();
    h.write(&mut v).unwrap();
    v
}

fn data_len_of(h: &Header) -> Option<u64> {
    c09::data_len(h)
}

fn dx10(w: u32, h: u32, d: Option<u32>, mips: u32, dxgi: u32, dim: u32, misc: u32, arr: u32, alpha: u32) -> Header {
    Header::Dx10(Dx10Header {
        width: w,
        height: h,
        depth: d,
        mipmap_count: std::num::NonZeroU32::new(mips.max(1)).unwrap(),
        dxgi_format: DxgiFormat::try_from(dxgi).unwrap(),
        resource_dimension: ResourceDimension::try_from(dim).unwrap(),
        misc_flag: MiscFlags::from_bits_retain(misc),
        array_size: arr,
        alpha_mode: AlphaMode::try_from(alpha).unwrap(),
    })
}
fn dx9_fourcc(w: u32, h: u32, d: Option<u32>, mips: u32, caps2: u32, cc: u32) -> Header {
    Header::Dx9(Dx9Header {
        width: w,
        height: h,
        depth: d,
        mipmap_count: std::num::NonZeroU32::new(mips.max(1)).unwrap(),
        caps2: Caps2::from_bits_retain(caps2),
        pixel_format: Dx9PixelFormat::FourCC(FourCC(cc)),
    })
}
fn dx9_mask(w: u32, h: u32, d: Option<u32>, mips: u32, caps2: u32, row: usize) -> Header {
    let r = c09::MASK_ROWS[row % c09::MASK_ROWS.len()];
    Header::Dx9(Dx9Header {
        width: w,
        height: h,
        depth: d,
        mipmap_count: std::num::NonZeroU32::new(mips.max(1)).unwrap(),
        caps2: Caps2::from_bits_retain(caps2),
        pixel_format: Dx9PixelFormat::Mask(MaskPixelFormat {
            flags: PixelFormatFlags::from_bits_retain(r.0),
            rgb_bit_count: RgbBitCount::try_from(r.1).unwrap(),
            r_bit_mask: r.2,
            g_bit_mask: r.3,
            b_bit_mask: r.4,
            a_bit_mask: r.5,
        }),
    })
}

/// the base files of the structured sweeps: every layout kind x every pixel-info family
fn templates() -> Vec<Header> {
    vec![
        dx10(5, 3, None, 1, 28, 3, 0, 1, 1),             // RGBA8 texture
        dx9_fourcc(9, 6, None, 4, 0, 0x31545844),        // DXT1 with mips
        dx10(4, 4, None, 3, 98, 3, 4, 1, 0),             // BC7 cube with mips
        dx10(6, 5, Some(3), 2, 61, 4, 0, 1, 0),          // R8 volume
        dx10(7, 2, None, 1, 103, 3, 0, 2, 0),            // NV12 array of 2
        dx9_mask(3, 3, None, 1, 0x200 | 0x1400, 12),     // masked BGRA partial cube (2 faces)
        dx10(9, 1, None, 1, 107, 2, 0, 1, 0),            // YUY2 1D
        dx10(11, 7, None, 2, 138, 3, 0, 1, 0),           // ASTC 5x4
        dx9_fourcc(4, 4, Some(2), 1, 0x200000, 0x55354342), // BC5U volume (DX9)
        dx10(17, 3, None, 1, 66, 3, 0, 1, 0),            // R1
        dx10(4, 4, None, 1, 2, 3, 0, 3, 0),              // RGBA32F array of 3
        dx10(8, 8, None, 4, 77, 3, 0, 1, 2),             // BC3 premultiplied
        dx9_fourcc(5, 5, None, 1, 0xFE00, 116),          // RGBA32F cube via D3DFMT four CC
        dx10(3, 2, None, 1, 104, 3, 0, 1, 0),            // P010
        dx10(2, 2, None, 1, 110, 3, 0, 1, 0),            // valid DXGI, pixel info, no decoder (NV11)
        dx10(2, 2, None, 1, 131, 3, 0, 1, 0),            // valid DXGI, no pixel info
        dx9_mask(6, 2, None, 2, 0, 8),                   // B8G8R8 24 bit
        dx9_fourcc(6, 2, None, 1, 0, 0x59565955),        // UYVY
        dx10(16, 16, None, 5, 95, 3, 4, 2, 0),           // BC6H cube array with mips
        dx10(1, 1, Some(1), 1, 10, 4, 0, 1, 0),          // 1x1x1 volume RGBA16F
    ]
}

fn boundary_values() -> Vec<u32> {
    let mut v: Vec<u64> = vec![0, 1];
    for k in 1..=32u32 {
        v.push((1u64 << k) - 1);
        if k < 32 {
            v.push(1u64 << k);
        }
    }
    v.sort();
    v.dedup();
    v.into_iter().map(|x| x as u32).collect()
}

fn set_word(bytes: &mut [u8], i: usize, v: u32) {
    bytes[4 * i..4 * i + 4].copy_from_slice(&v.to_le_bytes());
}
fn get_word(bytes: &[u8], i: usize) -> u32 {
    u32::from_le_bytes([bytes[4 * i], bytes[4 * i + 1], bytes[4 * i + 2], bytes[4 * i + 3]])
}

const OPS_PROBE: &str = "L r3 q0:0:0:1:1 s k c3 A5 p z r0p";

struct Gen {
    out: Vec<String>,
    rng: Rng,
    n: u64,
}
impl Gen {
    /// options rotate deterministically: strict/permissive x file_len {None, right, +1, -1, arbitrary}
    fn opt_fl(&mut self, file_len: u64, skip: bool) -> (String, String) {
        self.n += 1;
        let perm = self.n % 3 != 0;
        let o = match (perm, skip) {
            (false, false) => "s",
            (true, false) => "p",
            (false, true) => "S",
            (true, true) => "P",
        };
        let fl = match (self.n / 3) % 6 {
            0 => "-".to_string(),
            1 | 2 => file_len.to_string(),
            3 => (file_len + 1).to_string(),
            4 => file_len.saturating_sub(1).to_string(),
            _ => match self.rng.below(6) {
                0 => "0".to_string(),
                1 => u64::MAX.to_string(),
                2 => self.rng.below(200).to_string(),
                3 => (file_len + self.rng.below(5000)).to_string(),
                4 => (1u64 << self.rng.below(64)).to_string(),
                _ => self.rng.next().to_string(),
            },
        };
        (o.to_string(), fl)
    }
    fn push(&mut self, opt: &str, fl: &str, env: &str, prefix: &[u8], data: Option<(usize, u64)>, ops: &str) {
        let d = match data {
            Some((l, s)) => format!("{l}:{s}"),
            None => "-".into(),
        };
        self.out.push(format!("X {opt} {fl} {env} {} {d} {ops}", enc_prefix(prefix)).trim_end().to_string());
    }
    /// a hostile header: data of a small arbitrary length, the probing operation list
    fn hostile(&mut self, file: &[u8]) {
        let dl = match self.rng.below(4) {
            0 => 0,
            1 => self.rng.below(16) as usize,
            2 => self.rng.below(300) as usize,
            _ => 64,
        };
        let total = (file.len() + dl) as u64;
        let (o, fl) = self.opt_fl(total, false);
        let seed = self.rng.below(1000);
        self.push(&o, &fl, "n", file, if dl > 0 { Some((dl, seed)) } else { None }, OPS_PROBE);
    }
}

fn colour_ops(limits: &[usize], colours: &[usize]) -> String {
    let mut ops: Vec<String> = vec![];
    for l in limits {
        ops.push(format!("m{l}"));
        for c in colours {
            ops.push(format!("A{c}"));
            ops.push("z".into());
        }
    }
    ops.join(" ")
}

fn random_ops(rng: &mut Rng, n: usize, dims: (u32, u32)) -> String {
    let mut ops: Vec<String> = vec![];
    for _ in 0..n {
        let c = rng.below(12);
        let d = |rng: &mut Rng, m: u32| -> u32 {
            match rng.below(8) {
                0 => 0,
                1 => m,
                2 => m + 1,
                3 => u32::MAX,
                4 => 1 << 31,
                _ => rng.below(m as u64 + 1) as u32,
            }
        };
        ops.push(match rng.below(16) {
            0 | 1 | 2 => format!("r{c}"),
            3 => format!("r{c}p"),
            4 => format!("r{c}:{}:{}", rng.below(dims.0 as u64 + 2), rng.below(dims.1 as u64 + 2)),
            5 | 6 | 7 => {
                let (ox, oy) = (d(rng, dims.0), d(rng, dims.1));
                let w = rng.below(dims.0 as u64 + 2) as u32;
                let h = rng.below(dims.1 as u64 + 2) as u32;
                format!("q{c}:{ox}:{oy}:{w}:{h}")
            }
            8 => "s".into(),
            9 => "k".into(),
            10 => format!("c{c}"),
            11 => "p".into(),
            12 => "z".into(),
            13 => format!("m{}", *rng.pick(&[0usize, 1, 16, 100, 4096, 65536, 33 * 1024 * 1024, usize::MAX])),
            14 => format!("A{c}"),
            _ => format!("c{c}:{}:{}", 4 * dims.0, 3 * dims.1),
        });
    }
    ops.join(" ")
}

/// a small decodable header of every kind for `format`
fn small_header(rng: &mut Rng, f: Format) -> Header {
    let w = rng.range(1, 21) as u32;
    let h = rng.range(1, 21) as u32;
    let base = match rng.below(8) {
        0 => Header::new_cube_map(w, w, f),
        1 => Header::new_volume(w, h, rng.range(1, 4) as u32, f),
        _ => Header::new_image(w, h, f),
    };
    let base = match rng.below(4) {
        0 => base.with_mipmaps(),
        1 => base.with_mipmap_count(rng.range(1, 4) as u32),
        _ => base,
    };
    match base {
        Header::Dx10(mut d) if !d.is_volume() && rng.chance(1, 5) => {
            d.array_size = rng.range(0, 3) as u32;
            Header::Dx10(d)
        }
        Header::Dx9(mut d) if d.caps2.bits() & 0x200 != 0 && rng.chance(1, 2) => {
            d.caps2 = Caps2::from_bits_retain(0x200 | ((rng.below(64) as u32) << 10));
            Header::Dx9(d)
        }
        b => b,
    }
}

fn env_random(rng: &mut Rng, file_len: u64) -> String {
    let k = match rng.below(4) {
        0 => rng.below(150),
        _ => rng.below(file_len + 2),
    };
    let mut s = match rng.below(8) {
        0 | 1 | 2 => "n".to_string(),
        3 | 4 => format!("h{k}"),
        5 | 6 => format!("e{k}"),
        _ => format!("i{k}"),
    };
    if rng.chance(1, 4) {
        s.push_str(",c");
    }
    match rng.below(5) {
        0 => s.push_str(",b1"),
        1 => s.push_str(",b7"),
        2 => s.push_str(",b4096"),
        _ => {}
    }
    s
}

pub fn gen(seed: u64, thorough: bool) -> Vec<String> {
    let mut g = Gen { out: vec![], rng: Rng::new(seed ^ 0xC01), n: 0 };
    let bv = boundary_values();
    let bset = boundary_u32();
    let tmpl = templates();
    let dxgi_valid = c09::valid_dxgi_codes();
    let formats = all_formats();

    // ---- (a1) every u32 header word of every template at 0 / 1 / 2^k / 2^k-1 / MAX
    let n_t = if thorough { tmpl.len() } else { 12 };
    for h in tmpl.iter().take(n_t) {
        let file = file_of(h);
        for i in 0..file.len() / 4 {
            for v in &bv {
                let mut f = file.clone();
                set_word(&mut f, i, *v);
                g.hostile(&f);
            }
        }
    }

    // ---- (a2) all DXGI codes 0..=255 (162 valid) and invalid ones, as texture / cube / volume / array
    let shapes: [(u32, u32, u32, Option<u32>); 5] = [(3, 0, 1, None), (3, 4, 1, None), (4, 0, 1, Some(2)), (3, 0, 3, None), (2, 0, 1, None)];
    for code in (0u32..=255).chain([256, 257, 1 << 8 | 28, 65536 + 71, 1 << 31, u32::MAX]) {
        for (si, (dim, misc, arr, depth)) in shapes.iter().enumerate() {
            if !thorough && si >= 3 && code % 4 != 0 {
                continue;
            }
            let mut file = file_of(&dx10(5, 3, *depth, 2, 28, *dim, *misc, *arr, (code % 5) as u32));
            set_word(&mut file, 32, code);
            if *misc == 4 {
                set_word(&mut file, 3, 3); // square faces
                set_word(&mut file, 4, 3);
            }
            // enough data for small layouts
            let (o, fl) = g.opt_fl(file.len() as u64 + 4096, false);
            let c = (code as usize + si) % 12;
            let ops = format!("L A{c} z r{} q{c}:1:1:2:1 s k c{c} p", (c + 5) % 12);
            g.push(&o, &fl, "n", &file, Some((4096, code as u64)), &ops);
        }
    }

    // ---- (a3) four CCs: known, D3DFMT numbers 0..=130, random
    let mut ccs: Vec<u32> = c09::KNOWN_FOURCC.to_vec();
    ccs.extend(0..=130u32);
    for _ in 0..(if thorough { 3000 } else { 200 }) {
        let r = g.rng.next() as u32;
        ccs.push(if g.rng.chance(1, 2) { r } else { (*g.rng.pick(c09::KNOWN_FOURCC)) ^ (1 << g.rng.below(32)) });
    }
    for (i, cc) in ccs.iter().enumerate() {
        let caps2 = [0u32, 0xFE00, 0x200000, 0x200 | 0x400][i % 4];
        let mut file = file_of(&dx9_fourcc(6, 6, if caps2 == 0x200000 { Some(2) } else { None }, 1 + (i as u32 % 3), caps2, 0x31545844));
        set_word(&mut file, 21, *cc);
        if i % 7 == 0 {
            set_word(&mut file, 20, 0); // no FOURCC flag: permissive repair path
            set_word(&mut file, 22, [0u32, 32, 16][i % 3]);
        }
        let c = i % 12;
        let (o, fl) = g.opt_fl(file.len() as u64 + 2048, false);
        g.push(&o, &fl, "n", &file, Some((2048, i as u64)), &format!("L A{c} z q{c}:0:0:6:6 s k c{c}"));
    }

    // ---- (a4) the mask table and perturbations of it
    for (ri, _) in c09::MASK_ROWS.iter().enumerate() {
        let file = file_of(&dx9_mask(5, 4, None, 2, 0, ri));
        let c = ri % 12;
        let ops = format!("L A{c} z r{}p q{c}:1:1:3:2", (c + 3) % 12);
        let (o, fl) = g.opt_fl(file.len() as u64 + 512, false);
        g.push(&o, &fl, "n", &file, Some((512, ri as u64)), &ops);
        let n_p = if thorough { 160 } else { 24 };
        for p in 0..n_p {
            let mut f = file.clone();
            // flip one bit of flags / bit count / a mask, or set the bit count to a boundary value
            let wi = 20 + [0usize, 2, 3, 4, 5, 6][p % 6];
            let v = get_word(&f, wi);
            let nv = if p % 5 == 4 { *g.rng.pick(&[0u32, 8, 16, 24, 32, 64, 1, 255, u32::MAX]) } else { v ^ (1 << g.rng.below(32)) };
            set_word(&mut f, wi, nv);
            let (o, fl) = g.opt_fl(f.len() as u64 + 512, false);
            g.push(&o, &fl, "n", &f, Some((512, p as u64)), &ops);
        }
    }

    // ---- (a5) resource kinds, caps, flags
    for caps2hi in 0..64u32 {
        for (cube, vol) in [(true, false), (true, true), (false, true), (false, false)] {
            if !cube && caps2hi % 8 != 0 {
                continue;
            }
            let caps2 = (caps2hi << 10) | if cube { 0x200 } else { 0 } | if vol { 0x200000 } else { 0 };
            for depth_flag in [false, true] {
                let mut file = file_of(&dx9_mask(3, 3, Some(2), 2, caps2, 13));
                if !depth_flag {
                    let fl2 = get_word(&file, 2) & !0x800000;
                    set_word(&mut file, 2, fl2);
                }
                let (o, fl) = g.opt_fl(file.len() as u64 + 1024, false);
                g.push(&o, &fl, "n", &file, Some((1024, caps2 as u64)), "L c3 A0 z c7:12:9 s k r4 k k p");
            }
        }
    }
    for dim in 0..=6u32 {
        for misc in [0u32, 4, 1, 5, 0xFFFF_FFFF, 0xFFFF_FFFB] {
            for arr in [0u32, 1, 2, 6, 7, 255, 715827882, 715827883, 1 << 31, u32::MAX] {
                for depth in [None, Some(0u32), Some(3)] {
                    if !thorough && g.rng.chance(1, 2) {
                        continue;
                    }
                    let mut file = file_of(&dx10(4, 4, depth, 2, 71, 3, 0, 1, 0));
                    set_word(&mut file, 33, dim);
                    set_word(&mut file, 34, misc);
                    set_word(&mut file, 35, arr);
                    set_word(&mut file, 36, g.rng.below(9) as u32);
                    let (o, fl) = g.opt_fl(file.len() as u64 + 256, false);
                    g.push(&o, &fl, "n", &file, Some((256, arr as u64)), "L A3 c3 s k r0 q3:0:0:4:4 p z");
                }
            }
        }
    }
    // mip count x flags / caps
    for mips in [0u32, 1, 2, 5, 6, 7, 8, 31, 32, 33, 254, 255, 256, 257, 65535, 1 << 31, u32::MAX] {
        for flags in [0x1007u32, 0x21007, 0x0, 0xFFFF_FFFF] {
            for caps in [0x1000u32, 0x401008, 0x8, 0x400000, 0] {
                let mut file = file_of(&dx10(33, 17, None, 1, 28, 3, 0, 1, 0));
                set_word(&mut file, 7, mips);
                set_word(&mut file, 2, flags);
                set_word(&mut file, 27, caps);
                let (o, fl) = g.opt_fl(file.len() as u64 + 3000, false);
                g.push(&o, &fl, "n", &file, Some((3000, mips as u64)), "L A3 z s s k r7 p p");
            }
        }
    }

    // ---- (a6) DX10 extension present / absent / mismatched
    for h in tmpl.iter().take(if thorough { tmpl.len() } else { 8 }) {
        let file = file_of(h);
        let is10 = file.len() == 148;
        let mut variants: Vec<Vec<u8>> = vec![];
        if is10 {
            variants.push(file[..128].to_vec()); // announced but missing
            let mut f = file.clone();
            set_word(&mut f, 20, 0); // FOURCC flag gone: the extension becomes data
            variants.push(f);
            let mut f = file.clone();
            set_word(&mut f, 21, 0x31545844); // DXT1: the extension becomes data
            variants.push(f);
            let mut f = file.clone();
            set_word(&mut f, 20, 0x40); // RGB flag with four CC DX10
            set_word(&mut f, 22, 32);
            variants.push(f);
        } else {
            let mut f = file.clone();
            set_word(&mut f, 20, 4);
            set_word(&mut f, 21, 0x30315844); // announces an extension that is not there
            variants.push(f.clone());
            f.extend_from_slice(&[28, 0, 0, 0, 3, 0, 0, 0, 0, 0, 0, 0, 1, 0, 0, 0, 0, 0, 0, 0]);
            variants.push(f.clone());
            f.truncate(140);
            variants.push(f);
            let mut f = file.clone();
            set_word(&mut f, 20, 0);
            set_word(&mut f, 21, 0x30315844); // DX10 without the flag (F5)
            set_word(&mut f, 22, 0);
            variants.push(f);
        }
        for v in variants {
            for _ in 0..2 {
                g.hostile(&v);
            }
        }
    }

    // ---- (a7) random multi-field headers
    let n_rand = if thorough { 1_500_000 } else { 100_000 };
    for i in 0..n_rand {
        let h = &tmpl[i % tmpl.len()];
        let mut f = file_of(h);
        let nw = f.len() / 4;
        let k = 1 + g.rng.below(4) as usize;
        for _ in 0..k {
            let wi = match g.rng.below(10) {
                0..=5 => *g.rng.pick(&[1usize, 2, 3, 4, 6, 7, 19, 20, 21, 22, 27, 28]),
                6..=7 if nw > 32 => 32 + g.rng.below(5) as usize,
                _ => g.rng.below(nw as u64) as usize,
            };
            let v = match g.rng.below(6) {
                0 if wi == 32 => *g.rng.pick(&dxgi_valid),
                1 if wi == 21 => *g.rng.pick(c09::KNOWN_FOURCC),
                2 => get_word(&f, wi) ^ (1 << g.rng.below(32)),
                _ => any_u32(&mut g.rng, &bset),
            };
            set_word(&mut f, wi, v);
        }
        g.hostile(&f);
    }

    // ---- (b) byte level mutations of valid small files, (c) truncations / extensions, (d) options
    let n_files = if thorough { 300 } else { 30 };
    let mut small_files: Vec<(Vec<u8>, u64, usize)> = vec![]; // header image, data length, colour
    for i in 0..n_files {
        let (_, f) = formats[(i * 7) % formats.len()];
        let h = if i < tmpl.len() && i % 2 == 0 { tmpl[i].clone() } else { small_header(&mut g.rng, f) };
        if let Some(dl) = data_len_of(&h) {
            if dl <= (if thorough { 1350 } else { 6000 }) {
                small_files.push((file_of(&h), dl, i % 12));
            }
        }
    }
    for (fi, (hb, dl, c)) in small_files.iter().enumerate() {
        let total = hb.len() as u64 + dl;
        let dl = *dl as usize;
        let ops_full = format!("L A{c} z A{} k c{c}", (c + 4) % 12);
        // (c) every truncation offset: the file is cut at every byte
        let step = if thorough || total < 400 { 1 } else { 1 + total / 400 };
        let mut cut = 0u64;
        while cut <= total {
            let (o, fl) = g.opt_fl(total, false);
            if (cut as usize) <= hb.len() {
                g.push(&o, &fl, "n", &hb[..cut as usize], None, &ops_full);
            } else {
                g.push(&o, &fl, "n", hb, Some((cut as usize - hb.len(), fi as u64)), &ops_full);
            }
            cut += step;
        }
        // extensions
        for extra in [1usize, 3, 4, 1000] {
            let (o, fl) = g.opt_fl(total, false);
            g.push(&o, &fl, "n", hb, Some((dl + extra, fi as u64)), &ops_full);
        }
        // (b) byte sets and bit flips in the header
        let every = if thorough { fi % 10 == 0 } else { fi < 3 };
        let n_mut = if every { hb.len() * 4 } else { 60 };
        for m in 0..n_mut {
            let (off, val) = if every { (m / 4, [0x00u8, 0xFF, 0x80, 0x7F][m % 4]) } else { (g.rng.below(hb.len() as u64) as usize, *g.rng.pick(&[0x00u8, 0xFF, 0x80, 0x7F])) };
            let mut f = hb.clone();
            f[off] = val;
            let (o, fl) = g.opt_fl(total, false);
            g.push(&o, &fl, "n", &f, Some((dl, fi as u64)), &ops_full);
        }
        let n_flip = if every { hb.len() * 8 } else { 80 };
        for m in 0..n_flip {
            let bit = if every { m } else { g.rng.below(hb.len() as u64 * 8) as usize };
            let mut f = hb.clone();
            f[bit / 8] ^= 1 << (bit % 8);
            let (o, fl) = g.opt_fl(total, false);
            g.push(&o, &fl, "n", &f, Some((dl, fi as u64)), &ops_full);
        }
        // (d) the ParseOptions matrix on the intact file and on the file without magic
        for skip in [false, true] {
            for with_magic in [true, false] {
                let pre: &[u8] = if with_magic { hb } else { &hb[4..] };
                let tl = pre.len() as u64 + dl as u64;
                for (perm, fl) in [
                    (false, None),
                    (true, None),
                    (true, Some(tl)),
                    (true, Some(tl + 1)),
                    (true, Some(tl.saturating_sub(1))),
                    (true, Some(tl + 4)),
                    (true, Some(tl.saturating_sub(4))),
                    (true, Some(0)),
                    (true, Some(127)),
                    (true, Some(128)),
                    (true, Some(148)),
                    (true, Some(u64::MAX)),
                    (false, Some(tl + 1)),
                ] {
                    let o = match (perm, skip) {
                        (false, false) => "s",
                        (true, false) => "p",
                        (false, true) => "S",
                        (true, true) => "P",
                    };
                    let fl = fl.map(|x| x.to_string()).unwrap_or("-".into());
                    g.push(o, &fl, "n", pre, Some((dl, fi as u64)), &ops_full);
                }
            }
        }
        // (f) a fault at every byte of the file (hard error, EOF, Interrupted)
        let fstep = if (thorough && fi < 60) || total < 300 { 1 } else { 1 + total / (if thorough { 100 } else { 300 }) };
        let mut k = 0u64;
        while k <= total {
            for m in ["h", "e", "i"] {
                if !thorough && fi >= 4 && m != "h" {
                    continue;
                }
                let env = format!("{m}{k}{}", ["", ",c", ",b1", ",b7"][(k as usize + fi) % 4]);
                g.push("s", "-", &env, hb, Some((dl, fi as u64)), &format!("A{c} z r{c} q{c}:0:0:1:1 s"));
            }
            k += fstep;
        }
    }

    // ---- (e) decode scenarios: every format, small surfaces, every colour x memory limit, random operations
    let n_sc = if thorough { 150 } else { 25 };
    for (fi, (_, f)) in formats.iter().enumerate() {
        for s in 0..n_sc {
            let h = small_header(&mut g.rng, *f);
            let dl = match data_len_of(&h) {
                Some(d) if d <= 200_000 => d as usize,
                _ => continue,
            };
            let hb = file_of(&h);
            let total = (hb.len() + dl) as u64;
            let seed = (fi * 100 + s) as u64;
            let (w, hh) = (h.width(), h.height());
            // every surface into each of the 12 colours with limits {0, small, default}
            if s == 0 {
                let all: Vec<usize> = (0..12).collect();
                g.push("s", "-", "n", &hb, Some((dl, seed)), &colour_ops(&[0, 700, 33 * 1024 * 1024], &all));
            }
            // truncated / exact / oversized data with random operations and random faults
            let dlen = match g.rng.below(6) {
                0 => dl,
                1 => dl.saturating_sub(1),
                2 => g.rng.below(dl as u64 + 1) as usize,
                3 => dl + 1 + g.rng.below(40) as usize,
                4 => 0,
                _ => dl,
            };
            let env = env_random(&mut g.rng, total);
            let n_ops = 4 + g.rng.below(12) as usize;
            let ops = random_ops(&mut g.rng, n_ops, (w, hh));
            let (o, fl) = g.opt_fl(total, false);
            g.push(&o, &fl, &env, &hb, if dlen > 0 { Some((dlen, seed)) } else { None }, &ops);
            // rect decodes of every colour
            let c = (fi + s) % 12;
            let rx = g.rng.below(w as u64) as u32;
            let ry = g.rng.below(hh as u64) as u32;
            let rw = 1 + g.rng.below((w - rx) as u64) as u32;
            let rh = 1 + g.rng.below((hh - ry) as u64) as u32;
            let env = env_random(&mut g.rng, total);
            g.push(
                "s",
                "-",
                &env,
                &hb,
                Some((dl, seed)),
                &format!("m{} q{c}:{rx}:{ry}:{rw}:{rh} p q{}:{rx}:{ry}:{rw}:{rh} p q{c}:{rx}:{ry}:0:{rh} p r{c}p", [33 * 1024 * 1024usize, 0, 64, 4096][s % 4], (c + 7) % 12),
            );
        }
    }

    // ---- (e3) lines longer than the 64 KiB line buffer, with all their data
    for (w, h, dxgi) in [
        (5000u32, 2u32, 2u32), // RGBA32F: 80 000 bytes per line
        (70000, 1, 61),        // R8
        (66000, 3, 61),
        (16385, 2, 28),        // RGBA8, one pixel over 64 KiB
        (16384, 2, 28),        // exactly 64 KiB
        (70000, 5, 71),        // BC1: 140 000 bytes per block line
        (40000, 3, 103),       // NV12
        (33000, 2, 107),       // YUY2
        (600000, 1, 66),       // R1
        (21846, 2, 6),         // RGB32F
    ] {
        let h0 = dx10(w, h, None, 1, dxgi, 3, 0, 1, 0);
        if let Some(dl) = data_len_of(&h0) {
            let file = file_of(&h0);
            let c = (w as usize) % 12;
            let ops = format!("A{c} z m0 r{c} m100000 r{} m33000000 q{c}:{}:0:7:{h} p q3:0:{}:{w}:1 p r{}p", (c + 4) % 12, w - 9, h - 1, (c + 8) % 12);
            g.push("s", "-", "n", &file, Some((dl as usize, w as u64)), &ops);
            g.push("s", "-", "n,b4096", &file, Some((dl as usize - 1, w as u64)), &ops);
            g.push("s", "-", &format!("h{}", 148 + dl / 2), &file, Some((dl as usize, w as u64)), &ops);
        }
    }

    // ---- (f2) a transient end of file inside plane 1 / a line of a surface, file longer than the surface
    for (fi, (_, f)) in formats.iter().enumerate() {
        for s in 0..(if thorough { 40 } else { 6 }) {
            let w = g.rng.range(1, 12) as u32;
            let hh = g.rng.range(1, 12) as u32;
            let h0 = Header::new_image(w, hh, *f);
            let dl = match data_len_of(&h0) {
                Some(d) => d,
                None => continue,
            };
            let hb = file_of(&h0);
            let e1 = match formats[fi].0 {
                "NV12" => 1,
                "P010" | "P016" => 2,
                _ => 0,
            };
            // bi-planar: one byte before the end of plane 1
            let k = hb.len() as u64 + if s % 2 == 1 && e1 > 0 { w as u64 * hh as u64 * e1 - 1 } else { g.rng.below(dl + 1) };
            let c = (fi + s) % 12;
            let env = format!("t{k}{}", ["", ",b1", ",b7"][s % 3]);
            g.push("s", "-", &env, &hb, Some((2 * dl as usize + 40, fi as u64)), &format!("r{c} r{c} A{}", (c + 1) % 12));
        }
    }

    // ---- (e2) surfaces too large to decode: parsed, laid out, skipped
    for (w, h, dxgi, mips, arr) in [
        (65535u32, 65535u32, 28u32, 1u32, 1u32),
        (u32::MAX, u32::MAX, 61, 1, 1),
        (u32::MAX, u32::MAX, 2, 1, 1),
        (1 << 31, 1 << 31, 61, 1, 1),
        (1 << 31, 1 << 31, 61, 2, 1),
        (1 << 31, 1 << 30, 61, 1, 3),
        (3037000500, 3037000499, 61, 1, 1),
        (u32::MAX, u32::MAX, 71, 32, 1),
        (u32::MAX, 1, 103, 1, 2),
        (1 << 16, 1 << 16, 98, 17, 6),
        (40000, 40000, 104, 3, 1),
        (4096, 4096, 28, 13, 1),
        (2049, 2047, 71, 1, 2),
        (1, u32::MAX, 66, 1, 1),
        (1073741823, 1073741825, 2, 1, 1), // 2^64 - 16 bytes: a skip count that is negative as i64
        (1073741823, 1073741825, 2, 1, 0),
        (2147483647, 2147483649, 74, 1, 1), // BC2: 2^64 - 16 bytes
        (1073741825, 1431655766, 61, 1, 1), // 4w and 3h wrap to 4 and 2
    ] {
        for misc in [0u32, 4] {
            let file = file_of(&dx10(w, h, None, mips, dxgi, 3, misc, arr, 0));
            for ops in ["L s s s s s", "L c3:4:2 k s", "L k c0:4:2", "L r3 q3:0:0:1:1 q0:5:5:2:2 s k k c3 A0", "L k s p z s s s p p", "L q3:4294967295:4294967295:1:1 q3:0:0:0:0 q7:1:1:0:5 s"] {
                let (o, fl) = g.opt_fl(file.len() as u64, false);
                g.push(&o, &fl, "n", &file, Some((100, 1)), ops);
                g.push(&o, &fl, "n,c", &file, Some((100, 1)), ops);
            }
        }
    }
    // ---- (e3) a dimension of exactly u32::MAX (and its neighbours): rects at the far edge, inside and crossing 2^32
    // along ONE axis only (offset + size must be compared without wrapping or saturating)
    for (w, h, dxgi) in [
        (u32::MAX, 1u32, 61u32),
        (u32::MAX, 2, 61),
        (1, u32::MAX, 61),
        (3, u32::MAX, 56),
        (u32::MAX, 4, 71),
        (8, u32::MAX, 71),
        (u32::MAX - 1, 2, 61),
        (2, u32::MAX - 1, 103),
        (u32::MAX, 2, 103),
        (1 << 31, 2, 28),
    ] {
        let file = file_of(&dx10(w, h, None, 1, dxgi, 3, 0, 1, 0));
        let (mx, my) = (w as u64, h as u64);
        let mut ops = String::from("L");
        for c in [0u32, 3, 7] {
            // crossing along x only / y only, ending exactly at the edge, starting at the edge with size 0
            ops += &format!(" q{c}:{}:0:1:1", mx);
            ops += &format!(" q{c}:{}:0:2:1", mx - 1);
            ops += &format!(" q{c}:{}:0:10:1", mx.saturating_sub(5));
            ops += &format!(" q{c}:0:{}:1:1", my);
            ops += &format!(" q{c}:0:{}:1:2", my - 1);
            ops += &format!(" q{c}:0:{}:1:10", my.saturating_sub(5));
            ops += &format!(" q{c}:{}:0:65536:1", mx.saturating_sub(65535));
            ops += &format!(" q{c}:0:{}:1:65536", my.saturating_sub(65535));
            ops += &format!(" q{c}:{}:0:0:1 q{c}:0:{}:1:0", mx, my);
        }
        ops += &format!(" q3:{}:{}:1:1 s", mx - 1, my - 1);
        for env in ["n", "n,c"] {
            let (o, fl) = g.opt_fl(file.len() as u64, false);
            g.push(&o, &fl, env, &file, Some((300, 3)), &ops);
        }
    }

    // ---- (g) giant surfaces (F17): widths within one conversion chunk of 2^32 through the block loops with a channel
    // conversion; one case in the quick tier (R1_UNORM: 512 MiB encoded, 4 GiB output), the neighbours in thorough
    g.out.push("G R1_UNORM 4294966273 1 alpha u8".to_string());
    if thorough {
        g.out.push("G R1_UNORM 4294966272 1 alpha u8".to_string());
        g.out.push("G R1_UNORM 4294967295 1 alpha u8".to_string());
        // 4 GiB output + 8 GiB encoded: above the cap, answered `skip` (kept as a record of the class)
        g.out.push("G BC4_UNORM 4294967293 1 alpha u8".to_string());
    }
    g.out
}
