//! C06: stream-position contract of `dds::decode` / `dds::decode_rect`.
//!
//! case lines (see lean/DdsModel/DdsModel/Drv/C06.lean):
//!   full <fmt> <ch> <pr> <w> <h> <pad> <lim> <pos0> <len> <fault|-> <clamp> <chunk>
//!   rect <fmt> <ch> <pr> <W> <H> <x> <y> <w> <h> <pad> <lim> <pos0> <len> <fault|-> <clamp> <chunk>
//! result: `<res> <final pos> lim=<limit used> <merged trace>`
//!
//! The reader is a synthetic stream (`FaultReader`) of `len` bytes positioned at `pos0`: optional hard
//! error at absolute offset `fault` (bytes below it are readable; a `read` at it and a `seek` beyond it
//! return `Err`; `t<k>` = the error is reported once and the reader works again afterwards, which is what
//! exposes a swallowed error; `z<k>` = a read at `k` returns `Ok(0)` once although the stream goes on),
//! `seek` either `Cursor`-like or clamping to the end, reads chunked according to `chunk`
//! (`f` full, `1` one byte, `r<seed>` random short reads, `i<seed>` random short reads + `Interrupted`).
//! Every successful mutation of the reader is logged; neighbours of the same kind are merged.
//!
//! Oracle (implementation alone, no model): success => position advanced by
//! `PixelInfo::from(format).surface_bytes(size)`; non-I/O error => position unchanged; the reader
//! returned an error (other than `Interrupted`) => the decode returned `Err(Io)`.
use crate::common::*;
use dds::*;
use std::cell::RefCell;
use std::collections::HashMap;
use std::io::{Read, Seek, SeekFrom};

macro_rules! formats {
    ($($n:ident),* $(,)?) => { pub const FORMATS: &[(&str, Format)] = &[ $((stringify!($n), Format::$n)),* ]; };
}
formats!(
    R8G8B8_UNORM, B8G8R8_UNORM, R8G8B8A8_UNORM, R8G8B8A8_SNORM, B8G8R8A8_UNORM, B8G8R8X8_UNORM,
    B5G6R5_UNORM, B5G5R5A1_UNORM, B4G4R4A4_UNORM, A4B4G4R4_UNORM, R8_SNORM, R8_UNORM, R8G8_UNORM,
    R8G8_SNORM, A8_UNORM, R16_UNORM, R16_SNORM, R16G16_UNORM, R16G16_SNORM, R16G16B16A16_UNORM,
    R16G16B16A16_SNORM, R10G10B10A2_UNORM, R11G11B10_FLOAT, R9G9B9E5_SHAREDEXP, R16_FLOAT,
    R16G16_FLOAT, R16G16B16A16_FLOAT, R32_FLOAT, R32G32_FLOAT, R32G32B32_FLOAT, R32G32B32A32_FLOAT,
    R10G10B10_XR_BIAS_A2_UNORM, AYUV, Y410, Y416, R1_UNORM, R8G8_B8G8_UNORM, G8R8_G8B8_UNORM, UYVY,
    YUY2, Y210, Y216, NV12, P010, P016, BC1_UNORM, BC2_UNORM, BC2_UNORM_PREMULTIPLIED_ALPHA,
    BC3_UNORM, BC3_UNORM_PREMULTIPLIED_ALPHA, BC4_UNORM, BC4_SNORM, BC5_UNORM, BC5_SNORM, BC6H_UF16,
    BC6H_SF16, BC7_UNORM, ASTC_4X4_UNORM, ASTC_5X4_UNORM, ASTC_5X5_UNORM, ASTC_6X5_UNORM,
    ASTC_6X6_UNORM, ASTC_8X5_UNORM, ASTC_8X6_UNORM, ASTC_8X8_UNORM, ASTC_10X5_UNORM,
    ASTC_10X6_UNORM, ASTC_10X8_UNORM, ASTC_10X10_UNORM, ASTC_12X10_UNORM, ASTC_12X12_UNORM,
    BC3_UNORM_RXGB, BC3_UNORM_NORMAL,
);

/// one or more representatives of every helper x unit-size combination
pub const REPRESENTATIVES: &[&str] = &[
    "R8_UNORM", "B5G6R5_UNORM", "R8G8B8_UNORM", "B8G8R8_UNORM", "R16G16B16A16_FLOAT", "R32G32B32_FLOAT",
    "R32G32B32A32_FLOAT", "R1_UNORM", "YUY2", "Y210", "BC1_UNORM", "BC7_UNORM", "ASTC_5X4_UNORM",
    "ASTC_10X6_UNORM", "ASTC_12X12_UNORM", "NV12", "P010",
];

pub fn format_by_name(s: &str) -> Option<Format> {
    FORMATS.iter().find(|(n, _)| *n == s).map(|(_, f)| *f)
}
pub fn colour(ch: u32, pr: u32) -> Option<ColorFormat> {
    let c = match ch {
        0 => Channels::Grayscale,
        1 => Channels::Alpha,
        2 => Channels::Rgb,
        3 => Channels::Rgba,
        _ => return None,
    };
    let p = match pr {
        0 => Precision::U8,
        1 => Precision::U16,
        2 => Precision::F32,
        _ => return None,
    };
    Some(ColorFormat::new(c, p))
}
/// the colour for which `format` has a specialised whole-image decoder (if any), else its native colour
pub fn natural_colour(name: &str) -> (u32, u32) {
    match name {
        "R8G8B8_UNORM" => (2, 0),
        "R8G8B8A8_UNORM" | "R8G8B8A8_SNORM" | "B8G8R8A8_UNORM" => (3, 0),
        "R8_SNORM" | "R8_UNORM" => (0, 0),
        "A8_UNORM" => (1, 0),
        "R16_UNORM" => (0, 1),
        "R16G16B16A16_UNORM" => (3, 1),
        "R32_FLOAT" => (0, 2),
        "R32G32B32_FLOAT" => (2, 2),
        "R32G32B32A32_FLOAT" => (3, 2),
        _ => (3, 0),
    }
}

#[derive(Clone, Copy, Debug)]
pub enum Chunk {
    Full,
    One,
    Rand,
    Intr,
}

pub struct FaultReader {
    pub pos: u64,
    pub len: u64,
    pub fault: Option<u64>,
    pub clamp: bool,
    pub chunk: Chunk,
    pub rng: Rng,
    /// (kind, signed amount): kind b'S' / b'R'; neighbours merged, zero amounts dropped
    pub log: Vec<(u8, i128)>,
    /// an `Err` other than `Interrupted` was returned to the caller
    pub reported_error: bool,
    /// `Ok(0)` was returned for a non-empty buffer
    pub eof_hit: bool,
    pub calls: u64,
    /// do not keep a log (C07: the reader must not allocate while the heap is being measured)
    pub quiet: bool,
    /// the fault is reported once (by the first call that hits it) and is gone afterwards
    pub transient: bool,
    /// `Ok(0)` is returned once, by the first read at or beyond this offset, although the stream goes on
    pub eof_once: Option<u64>,
}
impl FaultReader {
    pub fn new(pos: u64, len: u64, fault: Option<u64>, clamp: bool, chunk: Chunk, seed: u64) -> Self {
        FaultReader {
            pos,
            len,
            fault,
            clamp,
            chunk,
            rng: Rng::new(seed),
            log: vec![],
            reported_error: false,
            eof_hit: false,
            calls: 0,
            quiet: false,
            transient: false,
            eof_once: None,
        }
    }
    fn push(&mut self, kind: u8, amt: i128) {
        if amt == 0 || self.quiet {
            return;
        }
        if let Some(last) = self.log.last_mut() {
            if last.0 == kind {
                last.1 += amt;
                return;
            }
        }
        self.log.push((kind, amt));
    }
    pub fn trace(&self) -> String {
        if self.log.is_empty() {
            return "-".into();
        }
        self.log
            .iter()
            .filter(|(_, a)| *a != 0)
            .map(|(k, a)| format!("{}{}", *k as char, a))
            .collect::<Vec<_>>()
            .join(".")
    }
    pub fn log_sum(&self) -> i128 {
        self.log.iter().map(|(_, a)| *a).sum()
    }
    /// The kind of the injected error rotates with the fault offset and the stream length: the property speaks of
    /// ANY error the reader reports (`Interrupted`, which `Read` defines as "retry", is injected separately).
    fn injected(&self) -> std::io::Error {
        use std::io::ErrorKind::*;
        const KINDS: [std::io::ErrorKind; 10] = [
            Other, OutOfMemory, WouldBlock, TimedOut, ConnectionReset, InvalidData, UnexpectedEof, PermissionDenied,
            BrokenPipe, InvalidInput,
        ];
        let k = (self.fault.unwrap_or(0) as usize).wrapping_mul(7).wrapping_add(self.len as usize) % KINDS.len();
        std::io::Error::new(KINDS[k], "injected fault")
    }
}
impl Read for FaultReader {
    fn read(&mut self, buf: &mut [u8]) -> std::io::Result<usize> {
        self.calls += 1;
        if buf.is_empty() {
            return Ok(0);
        }
        if let Chunk::Intr = self.chunk {
            if self.rng.chance(1, 3) {
                return Err(std::io::Error::new(std::io::ErrorKind::Interrupted, "interrupted"));
            }
        }
        if let Some(f) = self.fault {
            if self.pos >= f {
                self.reported_error = true;
                if self.transient {
                    self.fault = None;
                }
                return Err(self.injected());
            }
        }
        if let Some(z) = self.eof_once {
            if self.pos >= z {
                self.eof_once = None;
                self.eof_hit = true;
                return Ok(0);
            }
        }
        let mut lim = self.len.min(self.fault.unwrap_or(u64::MAX));
        if let Some(z) = self.eof_once {
            lim = lim.min(z);
        }
        if self.pos >= lim {
            self.eof_hit = true;
            return Ok(0);
        }
        let want = (buf.len() as u64).min(lim - self.pos);
        let k = match self.chunk {
            Chunk::Full => want,
            Chunk::One => 1,
            Chunk::Rand | Chunk::Intr => match self.rng.below(6) {
                0 => 1,
                1 => 2.min(want),
                2 => 7.min(want),
                3 => (want / 2).max(1),
                4 => want,
                _ => 1 + self.rng.below(want),
            },
        } as usize;
        let p = self.pos;
        for (i, b) in buf[..k].iter_mut().enumerate() {
            *b = ((p + i as u64).wrapping_mul(2654435761) >> 7) as u8;
        }
        self.pos += k as u64;
        self.push(b'R', k as i128);
        Ok(k)
    }
}
impl Seek for FaultReader {
    fn seek(&mut self, from: SeekFrom) -> std::io::Result<u64> {
        self.calls += 1;
        let target: i128 = match from {
            SeekFrom::Start(n) => n as i128,
            SeekFrom::Current(d) => self.pos as i128 + d as i128,
            SeekFrom::End(d) => self.len as i128 + d as i128,
        };
        if target < 0 || target > u64::MAX as i128 {
            self.reported_error = true;
            return Err(std::io::Error::new(std::io::ErrorKind::InvalidInput, "seek out of range"));
        }
        let target = target as u64;
        if let Some(f) = self.fault {
            if target > f {
                self.reported_error = true;
                if self.transient {
                    self.fault = None;
                }
                return Err(self.injected());
            }
        }
        let new = if self.clamp && target > self.len { self.len.max(self.pos) } else { target };
        self.push(b'S', new as i128 - self.pos as i128);
        self.pos = new;
        Ok(new)
    }
    fn stream_position(&mut self) -> std::io::Result<u64> {
        Ok(self.pos)
    }
}

#[derive(Clone, Debug)]
pub enum CallK {
    Full { w: u32, h: u32 },
    Rect { sw: u32, sh: u32, x: u32, y: u32, w: u32, h: u32 },
}
#[derive(Clone, Debug)]
pub struct CallSpec {
    pub name: String,
    pub format: Format,
    pub ch: u32,
    pub pr: u32,
    pub color: ColorFormat,
    pub call: CallK,
}
impl CallSpec {
    /// parses `<kind> <fmt> <ch> <pr> <dims…>`, returns the remaining tokens
    pub fn parse<'a>(t: &[&'a str]) -> Option<(CallSpec, Vec<&'a str>)> {
        let kind = *t.first()?;
        let name = t.get(1)?.to_string();
        let format = format_by_name(&name)?;
        let ch = p_u32(t.get(2)?)?;
        let pr = p_u32(t.get(3)?)?;
        let color = colour(ch, pr)?;
        let n = |i: usize| -> Option<u32> { p_u32(t.get(i)?) };
        match kind {
            "full" => Some((
                CallSpec { name, format, ch, pr, color, call: CallK::Full { w: n(4)?, h: n(5)? } },
                t.get(6..)?.to_vec(),
            )),
            "rect" => Some((
                CallSpec {
                    name,
                    format,
                    ch,
                    pr,
                    color,
                    call: CallK::Rect { sw: n(4)?, sh: n(5)?, x: n(6)?, y: n(7)?, w: n(8)?, h: n(9)? },
                },
                t.get(10..)?.to_vec(),
            )),
            _ => None,
        }
    }
    pub fn key(&self) -> String {
        format!("{} {} {} {:?}", self.name, self.ch, self.pr, self.call)
    }
    pub fn surface(&self) -> Size {
        match self.call {
            CallK::Full { w, h } => Size::new(w, h),
            CallK::Rect { sw, sh, .. } => Size::new(sw, sh),
        }
    }
    pub fn image_size(&self) -> Size {
        match self.call {
            CallK::Full { w, h } => Size::new(w, h),
            CallK::Rect { w, h, .. } => Size::new(w, h),
        }
    }
    pub fn surface_bytes(&self) -> Option<u64> {
        PixelInfo::from(self.format).surface_bytes(self.surface())
    }
    /// output buffer length and row pitch for padding `pad`
    pub fn out_layout(&self, pad: usize) -> Option<(usize, usize)> {
        let s = self.image_size();
        let bpr = (s.width as usize).checked_mul(self.color.bytes_per_pixel() as usize)?;
        let pitch = bpr.checked_add(pad)?;
        let len = pitch.checked_mul(s.height as usize)?;
        if len > (3usize << 30) {
            return None;
        }
        Some((len, pitch))
    }
    /// runs the real decoder
    pub fn decode(
        &self,
        reader: &mut FaultReader,
        out: &mut [u8],
        pitch: usize,
        limit: usize,
    ) -> Result<(), DecodingError> {
        let mut options = DecodeOptions::default();
        options.memory_limit = limit;
        let s = self.image_size();
        let image = match ImageViewMut::new_with(out, pitch, s, self.color) {
            Some(i) => i,
            None => panic!("harness: cannot build the output view"),
        };
        match self.call {
            CallK::Full { .. } => dds::decode(reader, image, self.format, &options),
            CallK::Rect { sw, sh, x, y, .. } => {
                dds::decode_rect(reader, image, Offset::new(x, y), Size::new(sw, sh), self.format, &options)
            }
        }
    }
}

pub fn res_name(r: &Result<(), DecodingError>) -> String {
    match r {
        Ok(()) => "ok".into(),
        Err(DecodingError::Io(_)) => "io".into(),
        Err(DecodingError::MemoryLimitExceeded) => "mem".into(),
        Err(DecodingError::RectOutOfBounds) => "oob".into(),
        Err(e) => format!("other:{e:?}").replace(' ', "_"),
    }
}

thread_local! {
    static NEED_CACHE: RefCell<HashMap<String, u64>> = RefCell::new(HashMap::new());
}

/// The implementation's observed need: the least `memory_limit` for which the call does not fail with
/// `MemoryLimitExceeded`, found by galloping + bisection on the limit. The probes run on an empty
/// stream (they stop at the first read), so they are cheap for large surfaces; that the threshold is
/// the same on a real stream is checked by the oracles of C06 (`mem` only with an unmoved reader) and
/// C07 (`mem` iff limit < observed need, on a full stream). 0 if the call fails the same way for every
/// limit (validation errors).
pub fn observed_need(spec: &CallSpec, out: &mut [u8], pitch: usize) -> u64 {
    let key = spec.key();
    if let Some(v) = NEED_CACHE.with(|c| c.borrow().get(&key).copied()) {
        return v;
    }
    let mut probe = |limit: u64| -> bool {
        let mut r = FaultReader::new(0, 0, None, false, Chunk::Full, 1);
        let res = spec.decode(&mut r, out, pitch, limit as usize);
        matches!(res, Err(DecodingError::MemoryLimitExceeded))
    };
    let v = if probe(u64::MAX) || !probe(0) {
        0
    } else {
        // invariant: probe(lo) = mem, probe(hi) = not mem
        let mut lo = 0u64;
        let mut hi = 1u64;
        while probe(hi) {
            lo = hi;
            hi = hi.saturating_mul(2);
        }
        while hi - lo > 1 {
            let mid = lo + (hi - lo) / 2;
            if probe(mid) {
                lo = mid;
            } else {
                hi = mid;
            }
        }
        hi
    };
    NEED_CACHE.with(|c| c.borrow_mut().insert(key, v));
    v
}

pub fn resolve_limit(tok: &str, spec: &CallSpec, out: &mut [u8], pitch: usize) -> Option<u64> {
    match tok {
        "d" => Some(DecodeOptions::default().memory_limit as u64),
        "n" => Some(observed_need(spec, out, pitch)),
        "n-1" => Some(observed_need(spec, out, pitch).saturating_sub(1)),
        _ => p_u64(tok),
    }
}

pub fn run(line: &str) -> Option<(String, Vec<String>)> {
    let t = toks(line);
    let (spec, rest) = CallSpec::parse(&t)?;
    if rest.len() != 7 {
        return None;
    }
    let pad = p_usize(rest[0])?;
    let pos0 = p_u64(rest[2])?;
    let len = p_u64(rest[3])?;
    let transient = rest[4].starts_with('t');
    let eof_once = if rest[4].starts_with('z') { Some(p_u64(&rest[4][1..])?) } else { None };
    let fault = if rest[4] == "-" || eof_once.is_some() { None } else { Some(p_u64(rest[4].trim_start_matches('t'))?) };
    let clamp = p_u64(rest[5])? != 0;
    let (chunk, seed) = match rest[6].as_bytes().first()? {
        b'f' => (Chunk::Full, 1),
        b'1' => (Chunk::One, 1),
        b'r' => (Chunk::Rand, p_u64(&rest[6][1..])?),
        b'i' => (Chunk::Intr, p_u64(&rest[6][1..])?),
        _ => return None,
    };
    let (out_len, pitch) = spec.out_layout(pad)?;
    let mut out = vec![0u8; out_len];
    let limit = resolve_limit(rest[1], &spec, &mut out, pitch)?;

    let mut reader = FaultReader::new(pos0, len, fault, clamp, chunk, seed);
    reader.transient = transient;
    reader.eof_once = eof_once;
    let res = spec.decode(&mut reader, &mut out, pitch, limit as usize);
    let name = res_name(&res);
    let pos1 = reader.pos;

    // ---- oracle: the three clauses of the property, on the implementation alone
    let mut o = vec![];
    match &res {
        Ok(()) => match spec.surface_bytes() {
            Some(b) => {
                if pos1 as i128 - pos0 as i128 != b as i128 {
                    o.push(format!(
                        "success but the reader moved from {pos0} to {pos1}; the surface has {b} encoded bytes"
                    ));
                }
            }
            None => o.push("success for a surface whose byte length overflows u64".to_string()),
        },
        Err(DecodingError::Io(_)) => {}
        Err(e) => {
            if pos1 != pos0 {
                o.push(format!("non-I/O error {e:?} but the reader moved from {pos0} to {pos1}"));
            }
        }
    }
    if reader.reported_error && !matches!(res, Err(DecodingError::Io(_))) {
        o.push(format!("the reader returned an error but the decode returned {name}"));
    }
    if reader.log_sum() != pos1 as i128 - pos0 as i128 {
        o.push("harness: log does not add up to the movement of the reader".to_string());
    }
    Some((format!("{name} {pos1} lim={limit} {}", reader.trace()), o))
}

// ------------------------------------------------------------------------------------------------
// generator

fn sb(name: &str, w: u32, h: u32) -> u64 {
    PixelInfo::from(format_by_name(name).unwrap())
        .surface_bytes(Size::new(w, h))
        .unwrap_or(0)
}

/// the rects tried inside a `W×H` surface: (x, y, w, h)
pub fn rects_of(sw: u32, sh: u32) -> Vec<(u32, u32, u32, u32)> {
    let mut v = vec![(0, 0, sw, sh), (sw - 1, sh - 1, 1, 1), (0, 0, 1, 1)];
    if sw >= 3 && sh >= 3 {
        v.push((1, 1, sw - 2, sh - 2));
    }
    if sw >= 4 && sh >= 6 {
        v.push((sw / 2, sh / 3, sw / 3 + 1, sh / 2));
    }
    v.push((0, sh / 2, sw, 1));
    v.push((sw / 2, 0, 1, sh));
    v.sort();
    v.dedup();
    v
}

fn call_str(name: &str, ch: u32, pr: u32, sw: u32, sh: u32, rect: Option<(u32, u32, u32, u32)>) -> String {
    match rect {
        None => format!("full {name} {ch} {pr} {sw} {sh}"),
        Some((x, y, w, h)) => format!("rect {name} {ch} {pr} {sw} {sh} {x} {y} {w} {h}"),
    }
}

pub fn gen(seed: u64, thorough: bool) -> Vec<String> {
    let mut rng = Rng::new(seed);
    let mut v: Vec<String> = vec![];
    let chunks = |rng: &mut Rng| -> String {
        match rng.below(4) {
            0 => "f".to_string(),
            1 => "1".to_string(),
            2 => format!("r{}", rng.below(1000)),
            _ => format!("i{}", rng.below(1000)),
        }
    };

    // 1. every format: full + one rect, success with every limit class, each chunking
    for (name, _) in FORMATS {
        let (nc, np) = natural_colour(name);
        for &(sw, sh) in &[(7u32, 5u32), (16, 12)] {
            let b = sb(name, sw, sh);
            for rect in [None, Some((1, 1, sw - 2, sh - 3)), Some((sw - 1, 0, 1, sh))] {
                for lim in ["0", "n-1", "n", "d"] {
                    let (ch, pr) = if lim == "d" { (nc, np) } else { (rng.below(4) as u32, rng.below(3) as u32) };
                    let c = call_str(name, ch, pr, sw, sh, rect);
                    let pos0 = *rng.pick(&[0u64, 3, 1000]);
                    v.push(format!("{c} {} {lim} {pos0} {} - {} {}", if rng.chance(1, 3) { 5 } else { 0 },
                        pos0 + b + rng.below(3), rng.below(2), chunks(&mut rng)));
                }
            }
        }
    }

    // 2. representatives x small sizes x calls: hard error at every k, EOF at every k (both seek kinds)
    let sizes: &[(u32, u32)] = if thorough {
        &[(1, 1), (2, 3), (5, 4), (7, 9), (13, 6), (16, 16), (9, 21)]
    } else {
        &[(1, 1), (5, 4), (7, 9), (13, 6)]
    };
    for name in REPRESENTATIVES {
        let (nc, np) = natural_colour(name);
        for &(sw, sh) in sizes {
            let b = sb(name, sw, sh);
            let mut calls: Vec<Option<(u32, u32, u32, u32)>> = vec![None];
            calls.extend(rects_of(sw, sh).into_iter().map(Some));
            for rect in calls {
                let kmax = if thorough { b } else { b.min(48) };
                let mut ks: Vec<u64> = (0..=kmax).collect();
                if b > kmax {
                    for _ in 0..12 {
                        ks.push(rng.range(kmax, b));
                    }
                    ks.push(b - 1);
                    ks.push(b);
                }
                for k in ks {
                    let (ch, pr) = if rng.chance(1, 2) { (nc, np) } else { (rng.below(4) as u32, rng.below(3) as u32) };
                    let c = call_str(name, ch, pr, sw, sh, rect);
                    let pos0 = *rng.pick(&[0u64, 11]);
                    let lim = *rng.pick(&["d", "n", "d"]);
                    // hard error at pos0+k
                    v.push(format!("{c} 0 {lim} {pos0} {} {} {} {}", pos0 + b + 4, pos0 + k, rng.below(2), chunks(&mut rng)));
                    // the same error reported only once (the reader recovers): a swallowed error ends in success
                    v.push(format!("{c} 0 {lim} {pos0} {} t{} {} {}", pos0 + b + 4, pos0 + k, rng.below(2), chunks(&mut rng)));
                    // `Ok(0)` once at pos0+k on an intact stream (a short read must not pass as success)
                    v.push(format!("{c} 0 {lim} {pos0} {} z{} {} {}", pos0 + b + 4, pos0 + k, rng.below(2), chunks(&mut rng)));
                    // EOF at pos0+k, Cursor-like and clamping seek
                    v.push(format!("{c} 0 {lim} {pos0} {} - 0 {}", pos0 + k, chunks(&mut rng)));
                    v.push(format!("{c} 0 {lim} {pos0} {} - 1 {}", pos0 + k, chunks(&mut rng)));
                }
            }
        }
    }

    // 3. validation errors and shortcuts: rect out of bounds, empty rects, empty surfaces, overflow check
    for name in ["R8_UNORM", "BC1_UNORM", "NV12", "ASTC_5X4_UNORM", "R32G32B32A32_FLOAT"] {
        let b = sb(name, 8, 8);
        for (x, y, w, h) in [(0u32, 0u32, 9u32, 8u32), (0, 0, 8, 9), (1, 0, 8, 8), (0, 1, 8, 8), (8, 8, 1, 1),
            (4294967295, 0, 1, 1), (0, 4294967295, 1, 1), (7, 7, 2, 1)] {
            v.push(format!("rect {name} 3 0 8 8 {x} {y} {w} {h} 0 d 5 {} - 0 f", 5 + b));
            v.push(format!("rect {name} 2 1 8 8 {x} {y} {w} {h} 0 0 5 {} - 1 1", 5 + b));
        }
        // empty rects: skip the whole surface (also at the far corner, also out of bounds)
        for (x, y, w, h) in [(0u32, 0u32, 0u32, 0u32), (8, 8, 0, 0), (3, 2, 0, 5), (3, 2, 5, 0), (9, 0, 0, 0), (0, 9, 0, 3)] {
            for (len, clamp) in [(5 + b, 0), (5 + b - 1, 0), (5 + b - 1, 1), (5, 1)] {
                v.push(format!("rect {name} 3 0 8 8 {x} {y} {w} {h} 0 0 5 {len} - {clamp} f"));
            }
            v.push(format!("rect {name} 3 0 8 8 {x} {y} {w} {h} 0 d 5 {} {} 0 f", 5 + b, 5 + b / 2));
        }
        // empty surfaces
        v.push(format!("full {name} 3 0 0 0 0 0 9 20 - 0 f"));
        v.push(format!("full {name} 3 0 0 7 0 0 9 20 9 0 f"));
        v.push(format!("rect {name} 3 0 0 7 0 0 0 0 0 0 9 20 - 0 f"));
        v.push(format!("rect {name} 3 0 0 0 0 0 0 0 0 d 9 9 9 1 f"));
        v.push(format!("rect {name} 3 0 5 0 5 0 0 0 0 d 9 9 - 1 f"));
        // check_likely_overflow: surfaces of more than isize::MAX bytes (rect decode only needs a small output)
        v.push(format!("rect {name} 3 0 4294967295 4294967295 0 0 1 1 0 d 9 100 - 0 f"));
        v.push(format!("rect {name} 3 0 4294967295 4294967295 5 5 0 0 0 d 9 100 - 0 f"));
        v.push(format!("rect {name} 3 0 4294967295 4294967295 0 0 2 2 0 0 9 100 9 1 f"));
        // huge but admissible surfaces: the skips are huge, the stream ends early
        v.push(format!("rect {name} 3 0 2000000000 1000000000 1999999990 999999990 3 4 0 d 9 1000 - 0 f"));
        v.push(format!("rect {name} 3 0 2000000000 1000000000 1999999990 999999990 3 4 0 d 9 1000 - 1 f"));
        v.push(format!("rect {name} 3 0 2000000000 1000000000 0 0 3 4 0 d 9 100000 - 0 r5"));
        v.push(format!("rect {name} 3 0 2000000000 1000000000 0 0 3 4 0 d 9 100000 50 1 r5"));
        v.push(format!("rect {name} 3 0 3000000000 3000000000 7 7 0 0 0 d 9 100000 - 0 f"));
        v.push(format!("rect {name} 3 0 3000000000 3000000000 7 7 0 0 0 d 9 100000 - 1 f"));
    }

    // 4. surfaces larger than the 64 KiB line buffer (several refills), padded output rows
    let big: &[(u32, u32)] = if thorough { &[(300, 260), (4096, 3), (3, 4096), (70000, 2), (1025, 130)] } else { &[(300, 260), (4096, 3), (3, 1500), (70000, 2)] };
    for name in REPRESENTATIVES {
        let (nc, np) = natural_colour(name);
        for &(sw, sh) in big {
            let b = sb(name, sw, sh);
            for rect in [None, Some((sw / 3, sh / 3, sw / 2, sh / 2)), Some((0, 1, sw, sh - 1))] {
                let c = call_str(name, nc, np, sw, sh, rect);
                v.push(format!("{c} 0 d 0 {} - 0 f", b));
                v.push(format!("{c} 16 n 17 {} - 1 r{}", 17 + b + 1, rng.below(100)));
                v.push(format!("{c} 0 n-1 17 {} - 1 f", 17 + b));
                let k = rng.below(b);
                v.push(format!("{c} 0 d 17 {} {} 0 i{}", 17 + b, 17 + k, rng.below(100)));
                v.push(format!("{c} 0 d 17 {} t{} 0 r{}", 17 + b, 17 + rng.below(b), rng.below(100)));
                v.push(format!("{c} 0 n 17 {} - {} f", 17 + rng.below(b), rng.below(2)));
                v.push(format!("{c} 0 d 17 {} - {} f", 17 + b - 1, rng.below(2)));
            }
        }
    }

    // 5. PRNG cases over all formats
    let n = if thorough { 60000 } else { 6000 };
    for _ in 0..n {
        let (name, _) = rng.pick(FORMATS);
        let mw = if rng.chance(1, 8) { 200 } else { 24 };
        let mh = if rng.chance(1, 8) { 200 } else { 24 };
        let sw = 1 + rng.below(mw) as u32;
        let sh = 1 + rng.below(mh) as u32;
        let b = sb(name, sw, sh);
        let rect = if rng.chance(2, 5) {
            None
        } else {
            let x = rng.below(sw as u64) as u32;
            let y = rng.below(sh as u64) as u32;
            let w = 1 + rng.below((sw - x) as u64) as u32;
            let h = 1 + rng.below((sh - y) as u64) as u32;
            Some((x, y, w, h))
        };
        let (nc, np) = natural_colour(name);
        let (ch, pr) = if rng.chance(1, 3) { (nc, np) } else { (rng.below(4) as u32, rng.below(3) as u32) };
        let c = call_str(name, ch, pr, sw, sh, rect);
        let pos0 = if rng.chance(1, 2) { 0 } else { rng.below(5000) };
        let pad = if rng.chance(1, 4) { rng.below(9) } else { 0 };
        let lim = match rng.below(8) {
            0 => "0".to_string(),
            1 => "n-1".to_string(),
            2 | 3 => "n".to_string(),
            4 => format!("{}", rng.below(70000)),
            _ => "d".to_string(),
        };
        let (len, fault) = match rng.below(5) {
            0 => (pos0 + b + rng.below(4), "-".to_string()),
            1 => (pos0 + b + rng.below(4), format!("{}", pos0 + rng.below(b + 1))),
            2 => (pos0 + b + rng.below(4), format!("{}{}", if rng.chance(1, 2) { "t" } else { "z" }, pos0 + rng.below(b + 1))),
            _ => (pos0 + rng.below(b + 1), "-".to_string()),
        };
        v.push(format!("{c} {pad} {lim} {pos0} {len} {fault} {} {}", rng.below(2), chunks(&mut rng)));
    }
    v
}
