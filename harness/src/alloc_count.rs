//! Counting global allocator (C07): a wrapper around `System` with per-thread counters that are
//! active only inside `measure`. Thread-local `Cell`s with `const` initialisers need neither lazy
//! initialisation nor destructors, so they are safe to touch from inside the allocator.
use std::alloc::{GlobalAlloc, Layout, System};
use std::cell::Cell;

pub struct Counting;

thread_local! {
    static ON: Cell<bool> = const { Cell::new(false) };
    static LIVE: Cell<isize> = const { Cell::new(0) };
    static PEAK: Cell<isize> = const { Cell::new(0) };
    static TOTAL: Cell<usize> = const { Cell::new(0) };
    static COUNT: Cell<usize> = const { Cell::new(0) };
}

#[inline]
fn note(delta_plus: usize, delta_minus: usize) {
    let _ = ON.try_with(|on| {
        if on.get() {
            LIVE.with(|l| {
                let v = l.get() + delta_plus as isize;
                PEAK.with(|p| {
                    if v > p.get() {
                        p.set(v)
                    }
                });
                l.set(v - delta_minus as isize);
            });
            if delta_plus > 0 {
                TOTAL.with(|t| t.set(t.get().wrapping_add(delta_plus)));
                COUNT.with(|c| c.set(c.get() + 1));
            }
        }
    });
}

unsafe impl GlobalAlloc for Counting {
    unsafe fn alloc(&self, layout: Layout) -> *mut u8 {
        let p = System.alloc(layout);
        if !p.is_null() {
            note(layout.size(), 0);
        }
        p
    }
    unsafe fn alloc_zeroed(&self, layout: Layout) -> *mut u8 {
        let p = System.alloc_zeroed(layout);
        if !p.is_null() {
            note(layout.size(), 0);
        }
        p
    }
    unsafe fn dealloc(&self, ptr: *mut u8, layout: Layout) {
        System.dealloc(ptr, layout);
        note(0, layout.size());
    }
    unsafe fn realloc(&self, ptr: *mut u8, layout: Layout, new_size: usize) -> *mut u8 {
        let p = System.realloc(ptr, layout, new_size);
        if !p.is_null() {
            // conservatively: the new block exists before the old one is gone
            note(new_size, layout.size());
        }
        p
    }
}

pub struct Measured {
    /// peak of (bytes allocated - bytes freed) on this thread during the call
    pub peak: usize,
    /// sum of the sizes of all allocations made during the call
    pub total: usize,
    /// number of allocations
    pub count: usize,
}

/// runs `f` and measures the heap traffic of the calling thread during it
pub fn measure<R>(f: impl FnOnce() -> R) -> (R, Measured) {
    LIVE.with(|c| c.set(0));
    PEAK.with(|c| c.set(0));
    TOTAL.with(|c| c.set(0));
    COUNT.with(|c| c.set(0));
    ON.with(|c| c.set(true));
    let r = f();
    ON.with(|c| c.set(false));
    let m = Measured {
        peak: PEAK.with(|c| c.get()).max(0) as usize,
        total: TOTAL.with(|c| c.get()),
        count: COUNT.with(|c| c.get()),
    };
    (r, m)
}
