//! C16 — generated mipmaps have the declared sizes and preserve flat colour and opacity.
//!
//! Case line:  `M <w> <h> <chan> <prec> <filter> <sa> <variant> <content> <seed> [m:<levels>]`
//!   m:<levels>  optional: the header declares this many levels (1..255) instead of the full chain — fewer
//!           (the chain stops early) or MORE than the image can be halved (every level past 1x1 is 1x1 again)
//!   chan    g | a | rgb | rgba            prec  u8 | u16 | f32
//!   filter  nearest | box | triangle | mitchell | lanczos3        sa  0 | 1 (resize_straight_alpha)
//!   variant al (4-aligned, contiguous) | o1 | o2 | o3 (contiguous at buffer offset 1..3) | st (strided)
//!   content const:<c0>:<c1>:<c2>:<c3> (raw samples: integers, f32 as bit patterns) | opaque | band |
//!           noise | holes
//!
//! Result line (canonical, compared with the Lean model):
//!   `ok n=<levels> sizes=<w>x<h>,... plan=<set>,<set>,... const=<v>:<v>..|-`
//! `plan` = for every generated level the set of earlier images (0 = source, k = k-th generated level) whose
//! resize with the same filter reproduces the level bit for bit (observed through an independent call of the
//! `resize` crate); `*` when not observable (straight-alpha path). The model prints one index per level;
//! tools/propcfg/C16.py `equal` demands that the index is a member of the observed set.
//!
//! Oracle (independent of the Lean model): see `run`.
//!
//! Further kinds: `S` (six cube faces through one encoder, `run_seq`), `P` (single image, chain started in the
//! middle, `run_pseq`), `T` (image / cube map / texture array with any declared level count, every element's
//! chain started at its own level, all colour formats, `run_tseq`).

use crate::common::Rng;
use dds::{
    Channels, ColorFormat, Decoder, Encoder, Format, ImageView, ImageViewMut, Precision, ResizeFilter, Size,
};

#[derive(Clone, Copy, PartialEq, Eq, Debug)]
pub enum Prec {
    U8,
    U16,
    F32,
}
impl Prec {
    fn bytes(self) -> usize {
        match self {
            Prec::U8 => 1,
            Prec::U16 => 2,
            Prec::F32 => 4,
        }
    }
    fn max_raw(self) -> u32 {
        match self {
            Prec::U8 => 255,
            Prec::U16 => 65535,
            Prec::F32 => 1.0f32.to_bits(),
        }
    }
    fn name(self) -> &'static str {
        match self {
            Prec::U8 => "u8",
            Prec::U16 => "u16",
            Prec::F32 => "f32",
        }
    }
    fn val(self, raw: u32) -> f64 {
        match self {
            Prec::F32 => f32::from_bits(raw) as f64,
            _ => raw as f64,
        }
    }
}

/// Relative tolerance for f32 data: the resizer evaluates `sum w_i x_i` in binary32 with binary32 weights
/// (each weight rounded once, each product and each partial sum rounded once, two passes). With at most
/// 256 taps per axis (sizes <= 256) the standard bound is (256+2)*2^-24 per pass, < 2^-15 for both; the
/// straight-alpha division adds two more roundings. 2^-13 leaves a factor 4 for the negative lobes of
/// Mitchell/Lanczos (sum |w_i| < 2) in the constant-colour clause.
const F32_REL: f64 = 1.0 / 8192.0;

#[derive(Clone)]
pub struct Img {
    w: usize,
    h: usize,
    nch: usize,
    prec: Prec,
    /// interleaved raw samples (integers; f32 as bit patterns)
    d: Vec<u32>,
}
impl Img {
    fn at(&self, x: usize, y: usize, c: usize) -> u32 {
        self.d[(y * self.w + x) * self.nch + c]
    }
    fn row_bytes(&self, y: usize, out: &mut Vec<u8>) {
        for i in y * self.w * self.nch..(y + 1) * self.w * self.nch {
            let v = self.d[i];
            match self.prec {
                Prec::U8 => out.push(v as u8),
                Prec::U16 => out.extend_from_slice(&(v as u16).to_ne_bytes()),
                Prec::F32 => out.extend_from_slice(&v.to_ne_bytes()),
            }
        }
    }
    fn from_bytes(w: usize, h: usize, nch: usize, prec: Prec, b: &[u8]) -> Img {
        let n = w * h * nch;
        let mut d = Vec::with_capacity(n);
        for i in 0..n {
            d.push(match prec {
                Prec::U8 => b[i] as u32,
                Prec::U16 => u16::from_ne_bytes([b[2 * i], b[2 * i + 1]]) as u32,
                Prec::F32 => u32::from_ne_bytes([b[4 * i], b[4 * i + 1], b[4 * i + 2], b[4 * i + 3]]),
            });
        }
        Img { w, h, nch, prec, d }
    }
}

struct Cfg {
    w: u32,
    h: u32,
    chan: Channels,
    prec: Prec,
    filter: ResizeFilter,
    sa: bool,
    variant: String,
    content: String,
    seed: u64,
    /// declared number of levels; None = full chain (`Encoder::new_image(.., true)`)
    mips: Option<u32>,
}

fn chan_name(c: Channels) -> &'static str {
    match c {
        Channels::Grayscale => "g",
        Channels::Alpha => "a",
        Channels::Rgb => "rgb",
        Channels::Rgba => "rgba",
    }
}
fn nch(c: Channels) -> usize {
    match c {
        Channels::Grayscale | Channels::Alpha => 1,
        Channels::Rgb => 3,
        Channels::Rgba => 4,
    }
}
/// index of the alpha channel, if the colour format has one
fn alpha_index(c: Channels) -> Option<usize> {
    match c {
        Channels::Alpha => Some(0),
        Channels::Rgba => Some(3),
        _ => None,
    }
}
fn filter_name(f: ResizeFilter) -> &'static str {
    match f {
        ResizeFilter::Nearest => "nearest",
        ResizeFilter::Box => "box",
        ResizeFilter::Triangle => "triangle",
        ResizeFilter::Mitchell => "mitchell",
        ResizeFilter::Lanczos3 => "lanczos3",
        _ => "other",
    }
}
const FILTERS: [ResizeFilter; 5] = [
    ResizeFilter::Nearest,
    ResizeFilter::Box,
    ResizeFilter::Triangle,
    ResizeFilter::Mitchell,
    ResizeFilter::Lanczos3,
];
const CHANS: [Channels; 4] = [Channels::Grayscale, Channels::Alpha, Channels::Rgb, Channels::Rgba];
const PRECS: [Prec; 3] = [Prec::U8, Prec::U16, Prec::F32];
const VARIANTS: [&str; 5] = ["al", "o1", "o2", "o3", "st"];

fn precision(p: Prec) -> Precision {
    match p {
        Prec::U8 => Precision::U8,
        Prec::U16 => Precision::U16,
        Prec::F32 => Precision::F32,
    }
}

/// lossless target of each precision (single-channel targets where they exist)
fn target(chan: Channels, prec: Prec) -> Format {
    match (chan, prec) {
        (Channels::Grayscale, Prec::U8) => Format::R8_UNORM,
        (Channels::Alpha, Prec::U8) => Format::A8_UNORM,
        (_, Prec::U8) => Format::R8G8B8A8_UNORM,
        (Channels::Grayscale, Prec::U16) => Format::R16_UNORM,
        (_, Prec::U16) => Format::R16G16B16A16_UNORM,
        (Channels::Grayscale, Prec::F32) => Format::R32_FLOAT,
        (_, Prec::F32) => Format::R32G32B32A32_FLOAT,
    }
}

fn parse(line: &str) -> Option<Cfg> {
    let t: Vec<&str> = line.split_whitespace().collect();
    if (t.len() != 10 && t.len() != 11) || t[0] != "M" {
        return None;
    }
    let mips = match t.get(10) {
        None => None,
        Some(m) => {
            let m: u32 = m.strip_prefix("m:")?.parse().ok()?;
            if m == 0 || m > 255 {
                return None;
            }
            Some(m)
        }
    };
    let w: u32 = t[1].parse().ok()?;
    let h: u32 = t[2].parse().ok()?;
    if w == 0 || h == 0 || w > 4096 || h > 4096 {
        return None;
    }
    let chan = *CHANS.iter().find(|c| chan_name(**c) == t[3])?;
    let prec = *PRECS.iter().find(|p| p.name() == t[4])?;
    let filter = *FILTERS.iter().find(|f| filter_name(**f) == t[5])?;
    let sa = match t[6] {
        "0" => false,
        "1" => true,
        _ => return None,
    };
    if !VARIANTS.contains(&t[7]) {
        return None;
    }
    let seed: u64 = t[9].parse().ok()?;
    Some(Cfg { w, h, chan, prec, filter, sa, variant: t[7].into(), content: t[8].into(), seed, mips })
}

fn const_colour(content: &str) -> Option<[u32; 4]> {
    let p: Vec<&str> = content.split(':').collect();
    if p.len() != 5 || p[0] != "const" {
        return None;
    }
    let mut c = [0u32; 4];
    for i in 0..4 {
        c[i] = p[i + 1].parse().ok()?;
    }
    Some(c)
}

fn rand_sample(rng: &mut Rng, prec: Prec) -> u32 {
    match prec {
        Prec::U8 | Prec::U16 => {
            let m = prec.max_raw() as u64;
            match rng.below(10) {
                0 => 0,
                1 => m as u32,
                _ => rng.below(m + 1) as u32,
            }
        }
        Prec::F32 => match rng.below(12) {
            0 => 0.0f32.to_bits(),
            1 => 1.0f32.to_bits(),
            // arbitrary mantissas in [2^-8, 1)
            _ => ((1.0 + rng.below(1 << 23) as f32 / (1u32 << 23) as f32) / (2 << rng.below(8)) as f32).to_bits(),
        },
    }
}

fn make_image(c: &Cfg) -> Option<Img> {
    let (w, h) = (c.w as usize, c.h as usize);
    let n = nch(c.chan);
    let mut rng = Rng::new(c.seed ^ 0xC16);
    let mut d = vec![0u32; w * h * n];
    let ai = alpha_index(c.chan);
    if let Some(col) = const_colour(&c.content) {
        if c.prec != Prec::F32 && col.iter().any(|v| *v > c.prec.max_raw()) {
            return None;
        }
        if c.prec == Prec::F32 && col.iter().any(|v| !f32::from_bits(*v).is_finite()) {
            return None;
        }
        for i in 0..w * h {
            for k in 0..n {
                d[i * n + k] = col[k];
            }
        }
        return Some(Img { w, h, nch: n, prec: c.prec, d });
    }
    match c.content.as_str() {
        "noise" | "opaque" | "holes" => {
            for v in d.iter_mut() {
                *v = rand_sample(&mut rng, c.prec);
            }
            if c.content == "opaque" {
                if let Some(a) = ai {
                    for i in 0..w * h {
                        d[i * n + a] = c.prec.max_raw();
                    }
                }
            }
            if c.content == "holes" {
                if let Some(a) = ai {
                    // three random rectangles: transparent, opaque, transparent
                    for r in 0..3 {
                        let x0 = rng.below(w as u64) as usize;
                        let y0 = rng.below(h as u64) as usize;
                        let x1 = x0 + 1 + rng.below((w - x0) as u64) as usize;
                        let y1 = y0 + 1 + rng.below((h - y0) as u64) as usize;
                        for y in y0..y1.min(h) {
                            for x in x0..x1.min(w) {
                                d[(y * w + x) * n + a] = if r == 1 { c.prec.max_raw() } else { 0 };
                            }
                        }
                    }
                }
            }
        }
        "band" => {
            // every channel confined to its own interval, so that the range clause has teeth
            for k in 0..n {
                match c.prec {
                    Prec::U8 | Prec::U16 => {
                        let m = c.prec.max_raw() as u64;
                        let lo = rng.below(m + 1);
                        let width = match rng.below(4) {
                            0 => 0,
                            1 => 1,
                            2 => rng.below(8),
                            _ => rng.below(m + 1),
                        };
                        let hi = (lo + width).min(m);
                        for i in 0..w * h {
                            d[i * n + k] = rng.range(lo, hi) as u32;
                        }
                    }
                    Prec::F32 => {
                        let is_alpha = ai == Some(k);
                        let scale = if is_alpha { 1.0 } else { [1.0f32, 1.0, 100.0, 0.01][rng.below(4) as usize] };
                        let mut a = rng.below(1 << 20) as f32 / (1u32 << 20) as f32 * scale;
                        let mut b = rng.below(1 << 20) as f32 / (1u32 << 20) as f32 * scale;
                        if !is_alpha && rng.chance(1, 4) {
                            a = -a;
                        }
                        if rng.chance(1, 4) {
                            b = a;
                        }
                        let (lo, hi) = if a <= b { (a, b) } else { (b, a) };
                        for i in 0..w * h {
                            let t = rng.below(1 << 16) as f32 / 65535.0;
                            let v = (lo + (hi - lo) * t).max(lo).min(hi);
                            d[i * n + k] = v.to_bits();
                        }
                    }
                }
            }
        }
        _ => return None,
    }
    Some(Img { w, h, nch: n, prec: c.prec, d })
}

/// Encode `img` with mipmap generation through the public API, laid out in memory as `variant` says,
/// and decode every level again. Err = short name of what went wrong.
fn chain(img: &Img, c: &Cfg, variant: &str, seed: u64) -> Result<(Vec<Img>, usize), String> {
    let color = ColorFormat::new(c.chan, precision(c.prec));
    let format = target(c.chan, c.prec);
    let bpr = img.w * img.nch * img.prec.bytes();
    let (off, pitch) = match variant {
        "al" => (0usize, bpr),
        "o1" => (1, bpr),
        "o2" => (2, bpr),
        "o3" => (3, bpr),
        // strided: row pitch = bytes per row + 1..11 extra bytes (odd extras misalign later rows), at an
        // arbitrary buffer offset
        _ => ((seed % 4) as usize, bpr + 1 + (seed / 4 % 11) as usize),
    };
    let len = pitch * (img.h - 1) + bpr;
    // u32-aligned backing store
    let mut store = vec![0xA5A5_A5A5u32; (off + len + pitch) / 4 + 2];
    let bytes: &mut [u8] =
        unsafe { std::slice::from_raw_parts_mut(store.as_mut_ptr() as *mut u8, store.len() * 4) };
    debug_assert!(bytes.as_ptr() as usize % 4 == 0);
    let mut row = Vec::with_capacity(bpr);
    for y in 0..img.h {
        row.clear();
        img.row_bytes(y, &mut row);
        let s = off + y * pitch;
        bytes[s..s + bpr].copy_from_slice(&row);
    }
    let size = Size::new(img.w as u32, img.h as u32);
    // strided views with a single row are contiguous by definition; keep the slice exact
    let view = ImageView::new_with(&bytes[off..off + len], pitch, size, color).ok_or("err view")?;
    let mut file: Vec<u8> = Vec::new();
    {
        let mut enc = match c.mips {
            None => Encoder::new_image(&mut file, size, format, true),
            Some(m) => {
                let header = dds::header::Header::new_image(size.width, size.height, format).with_mipmap_count(m);
                Encoder::new(&mut file, format, &header)
            }
        }
        .map_err(|e| format!("err new {e:?}"))?;
        enc.mipmaps.generate = true;
        enc.mipmaps.resize_filter = c.filter;
        enc.mipmaps.resize_straight_alpha = c.sa;
        // the generated chain must not depend on whether the encoder may use the thread pool
        enc.options.parallel = seed % 3 != 0;
        enc.write_surface(view).map_err(|e| format!("err write {e:?}"))?;
        if !enc.is_done() {
            return Err("err not-done".into());
        }
        enc.finish().map_err(|e| format!("err finish {e:?}"))?;
    }
    let file_len = file.len();
    let mut dec = Decoder::new(std::io::Cursor::new(file)).map_err(|e| format!("err open {e:?}"))?;
    if !dec.layout().is_texture() {
        return Err("err layout".into());
    }
    let mut levels = Vec::new();
    let mut data_bytes = 0usize;
    while let Some(info) = dec.surface_info() {
        let s = info.size();
        let (lw, lh) = (s.width as usize, s.height as usize);
        let mut buf = vec![0u8; lw * lh * img.nch * img.prec.bytes()];
        let v = ImageViewMut::new(&mut buf, s, color).ok_or("err view-mut")?;
        dec.read_surface(v).map_err(|e| format!("err read {e:?}"))?;
        levels.push(Img::from_bytes(lw, lh, img.nch, img.prec, &buf));
        data_bytes += lw * lh * (format_bpp(format));
        if levels.len() > 300 {
            return Err("err too-many-levels".into());
        }
    }
    let header_len = file_len.checked_sub(data_bytes).ok_or("err file-shorter-than-levels")?;
    Ok((levels, header_len))
}

fn format_bpp(f: Format) -> usize {
    match f {
        Format::R8_UNORM | Format::A8_UNORM => 1,
        Format::R16_UNORM => 2,
        Format::R8G8B8A8_UNORM | Format::R32_FLOAT => 4,
        Format::R16G16B16A16_UNORM => 8,
        _ => 16,
    }
}

// ---------------------------------------------------------------------------------------------------------
// observation of the generation plan through an independent call of the `resize` crate

struct ChanF32;
impl resize::PixelFormat for ChanF32 {
    type InputPixel = f32;
    type OutputPixel = f32;
    type Accumulator = f32;
    fn new() -> f32 {
        0.0
    }
    fn add(&self, acc: &mut f32, inp: f32, coeff: f32) {
        *acc += inp * coeff;
    }
    fn add_acc(acc: &mut f32, inp: f32, coeff: f32) {
        *acc += inp * coeff;
    }
    fn into_pixel(&self, acc: f32) -> f32 {
        acc
    }
}

fn resize_type(f: ResizeFilter) -> resize::Type {
    match f {
        ResizeFilter::Nearest => resize::Type::Point,
        ResizeFilter::Box => resize::Type::Custom(resize::Filter::box_filter(1.0)),
        ResizeFilter::Triangle => resize::Type::Triangle,
        ResizeFilter::Mitchell => resize::Type::Mitchell,
        _ => resize::Type::Lanczos3,
    }
}

/// every channel of `src` resized on its own (no straight alpha) to dw x dh
fn ref_resize(src: &Img, dw: usize, dh: usize, filter: ResizeFilter) -> Option<Img> {
    let mut out = Img { w: dw, h: dh, nch: src.nch, prec: src.prec, d: vec![0; dw * dh * src.nch] };
    let mut r = resize::Resizer::new(src.w, src.h, dw, dh, ChanF32, resize_type(filter)).ok()?;
    for c in 0..src.nch {
        let plane: Vec<f32> = (0..src.w * src.h)
            .map(|i| {
                let raw = src.d[i * src.nch + c];
                match src.prec {
                    Prec::F32 => f32::from_bits(raw),
                    _ => raw as f32,
                }
            })
            .collect();
        let mut dst = vec![0f32; dw * dh];
        r.resize(&plane, &mut dst).ok()?;
        for i in 0..dw * dh {
            out.d[i * src.nch + c] = match src.prec {
                Prec::U8 => (dst[i] + 0.5) as u8 as u32,
                Prec::U16 => (dst[i] + 0.5) as u16 as u32,
                Prec::F32 => dst[i].to_bits(),
            };
        }
    }
    Some(out)
}

fn observe_plan(levels: &[Img], filter: ResizeFilter) -> String {
    let mut parts = Vec::new();
    for k in 1..levels.len() {
        let mut set = Vec::new();
        for j in 0..k {
            if let Some(r) = ref_resize(&levels[j], levels[k].w, levels[k].h, filter) {
                if r.d == levels[k].d {
                    set.push(j.to_string());
                }
            }
        }
        parts.push(if set.is_empty() { "none".to_string() } else { set.join("|") });
    }
    if parts.is_empty() {
        "-".into()
    } else {
        parts.join(",")
    }
}

// ---------------------------------------------------------------------------------------------------------

fn expected_sizes(w: u32, h: u32, declared: Option<u32>) -> Vec<(u32, u32)> {
    if let Some(m) = declared {
        // declared by Header::with_mipmap_count: exactly m levels, 1x1 again past the end of the full chain
        return (0..m).map(|l| (w.checked_shr(l).unwrap_or(0).max(1), h.checked_shr(l).unwrap_or(0).max(1))).collect();
    }
    // declared by Header::with_mipmaps: levels until both dimensions have reached 1
    let mut v = Vec::new();
    let mut l = 0u32;
    loop {
        let (lw, lh) = ((w >> l).max(1), (h >> l).max(1));
        v.push((lw, lh));
        if lw == 1 && lh == 1 {
            break;
        }
        l += 1;
    }
    v
}

/// `S <w> <filter> <variant> <seed>`: ONE encoder writes the six faces of a w x w cube map with generated mipmaps,
/// every face carried by a colour format drawn from the seed (so the byte sizes of successive inputs grow and
/// shrink), once from 4-aligned contiguous buffers and once from `variant` buffers holding the same pixels. The
/// alignment / row-pitch clause demands the same file. (The scratch buffers an encoder keeps between surfaces are
/// reused here, which single-image cases never do.) Result `seq ok` on both sides: the model has nothing to add.
fn run_seq(t: &[&str]) -> Option<(String, Vec<String>)> {
    if t.len() != 5 {
        return None;
    }
    let w: u32 = t[1].parse().ok()?;
    if w == 0 || w > 64 {
        return None;
    }
    let filter = *FILTERS.iter().find(|f| filter_name(**f) == t[2])?;
    let variant = t[3];
    if !VARIANTS.contains(&variant) {
        return None;
    }
    let seed: u64 = t[4].parse().ok()?;
    let mut rng = Rng::new(seed ^ 0x5E9);
    let faces: Vec<(Channels, Prec)> = (0..6).map(|_| (*rng.pick(&CHANS), *rng.pick(&PRECS))).collect();
    let encode = |variant: &str| -> Result<Vec<u8>, String> {
        let mut file: Vec<u8> = Vec::new();
        {
            let header = dds::header::Header::new_cube_map(w, w, Format::R8G8B8A8_UNORM).with_mipmaps();
            let mut enc = Encoder::new(&mut file, Format::R8G8B8A8_UNORM, &header).map_err(|e| format!("err new {e:?}"))?;
            enc.mipmaps.generate = true;
            enc.mipmaps.resize_filter = filter;
            enc.options.parallel = seed % 3 != 0;
            for (i, (chan, prec)) in faces.iter().enumerate() {
                let color = ColorFormat::new(*chan, precision(*prec));
                let bpr = w as usize * nch(*chan) * prec.bytes();
                let (off, pitch) = match variant {
                    "al" => (0usize, bpr),
                    "o1" => (1, bpr),
                    "o2" => (2, bpr),
                    "o3" => (3, bpr),
                    _ => ((seed % 4) as usize, bpr + 1 + ((seed / 4 + i as u64) % 11) as usize),
                };
                let len = pitch * (w as usize - 1) + bpr;
                let mut store = vec![0xA5A5_A5A5u32; (off + len + pitch) / 4 + 2];
                let bytes: &mut [u8] = unsafe { std::slice::from_raw_parts_mut(store.as_mut_ptr() as *mut u8, store.len() * 4) };
                // the same pixels for every variant
                let mut r2 = Rng::new(seed.wrapping_mul(31).wrapping_add(i as u64));
                for y in 0..w as usize {
                    let s = off + y * pitch;
                    let row = &mut bytes[s..s + bpr];
                    match prec {
                        Prec::F32 => {
                            for k in 0..bpr / 4 {
                                let v = r2.below(1001) as f32 / 1000.0;
                                row[4 * k..4 * k + 4].copy_from_slice(&v.to_ne_bytes());
                            }
                        }
                        _ => {
                            for b in row.iter_mut() {
                                *b = r2.next() as u8;
                            }
                        }
                    }
                }
                let view = ImageView::new_with(&bytes[off..off + len], pitch, Size::new(w, w), color).ok_or("err view")?;
                enc.write_surface(view).map_err(|e| format!("err write face {i}: {e:?}"))?;
            }
            enc.finish().map_err(|e| format!("err finish {e:?}"))?;
        }
        Ok(file)
    };
    let mut oracle = vec![];
    let a = encode("al");
    let b = encode(variant);
    match (&a, &b) {
        (Ok(x), Ok(y)) => {
            if x != y {
                let at = x.iter().zip(y.iter()).position(|(p, q)| p != q);
                oracle.push(format!(
                    "alignment: the cube-map file differs between aligned and {variant} input of the same pixels (lengths {} / {}, first difference at byte {:?})",
                    x.len(),
                    y.len(),
                    at
                ));
            }
            Some(("seq ok".into(), oracle))
        }
        (x, y) => {
            let e = x.as_ref().err().or(y.as_ref().err()).cloned().unwrap_or_default();
            oracle.push(format!("sequence failed: {e}"));
            Some((format!("seq {e}"), oracle))
        }
    }
}

/// `P <w> <h> <k> <filter> <seed>`: the chain is started in the middle. An R8G8B8A8 texture with a full chain;
/// levels 0..k-1 are written by hand with generation off (each a constant image of its own colour), then
/// generation is switched on and level k is written: the encoder must generate exactly the levels k+1.. behind it
/// ("exactly the declared levels with sizes max(1, dim >> level)"), in the colour of level k.
fn run_pseq(t: &[&str]) -> Option<(String, Vec<String>)> {
    if t.len() != 6 {
        return None;
    }
    let (w, h, k): (u32, u32, u32) = (t[1].parse().ok()?, t[2].parse().ok()?, t[3].parse().ok()?);
    let filter = *FILTERS.iter().find(|f| filter_name(**f) == t[4])?;
    let seed: u64 = t[5].parse().ok()?;
    let mips = 32 - w.max(h).leading_zeros();
    if w == 0 || h == 0 || w > 256 || h > 256 || k >= mips {
        return None;
    }
    let dim = |d: u32, l: u32| (d >> l).max(1);
    let colour = |l: u32| -> [u8; 4] { [(40 + 37 * l + seed as u32 % 7) as u8, (200u32.wrapping_sub(23 * l)) as u8, (l * 11 + 3) as u8, 255] };
    let mut oracle = vec![];
    let mut file: Vec<u8> = Vec::new();
    let header = dds::header::Header::new_image(w, h, Format::R8G8B8A8_UNORM).with_mipmaps();
    let gen_bytes;
    {
        let mut enc = match Encoder::new(&mut file, Format::R8G8B8A8_UNORM, &header) {
            Ok(e) => e,
            Err(e) => return Some((format!("err new {e:?}"), vec![])),
        };
        enc.mipmaps.resize_filter = filter;
        enc.options.parallel = seed % 2 == 0;
        enc.mipmaps.generate = false;
        for l in 0..=k {
            if l == k {
                enc.mipmaps.generate = true;
            }
            let (lw, lh) = (dim(w, l), dim(h, l));
            let data: Vec<u8> = (0..lw as usize * lh as usize).flat_map(|_| colour(l)).collect();
            let view = ImageView::new(&data[..], Size::new(lw, lh), ColorFormat::RGBA_U8)?;
            if let Err(e) = enc.write_surface(view) {
                oracle.push(format!("write of level {l} failed: {e:?}"));
                return Some(("err write".into(), oracle));
            }
        }
        let done = enc.finish().is_ok();
        gen_bytes = done;
    }
    // independent expectation in u128
    let hdr = 4 + header.byte_len();
    let level_bytes = |l: u32| dim(w, l) as u128 * dim(h, l) as u128 * 4;
    let before: u128 = (0..k).map(level_bytes).sum();
    let total: u128 = (0..mips).map(level_bytes).sum();
    let written_by_call = file.len() as u128 - hdr as u128 - before.min(file.len() as u128 - hdr as u128);
    if !gen_bytes {
        oracle.push("finish() refuses the file although generation was on for the last hand-written level".into());
    }
    if file.len() as u128 != hdr as u128 + total {
        oracle.push(format!(
            "chain started at level {k}: the file has {} data bytes, the declared levels need {total} (levels must have the sizes max(1, dim >> level))",
            file.len() - hdr
        ));
    } else {
        // re-open: every level has its declared size and, from level k on, the colour of level k (a constant image
        // yields mipmaps of that colour); the hand-written levels keep their own
        let mut dec = match Decoder::new(std::io::Cursor::new(&file[..])) {
            Ok(d) => d,
            Err(e) => {
                oracle.push(format!("the finished file does not open: {e:?}"));
                return Some(("err reopen".into(), oracle));
            }
        };
        for l in 0..mips {
            let (lw, lh) = (dim(w, l), dim(h, l));
            let mut buf = vec![0u8; lw as usize * lh as usize * 4];
            let view = ImageViewMut::new(&mut buf[..], Size::new(lw, lh), ColorFormat::RGBA_U8)?;
            if let Err(e) = dec.read_surface(view) {
                oracle.push(format!("level {l} ({lw}x{lh}) does not decode: {e:?}"));
                break;
            }
            let want = colour(l.min(k));
            if let Some(px) = buf.chunks(4).find(|px| *px != want) {
                oracle.push(format!("level {l}: pixel {px:?}, expected the constant colour {want:?} of level {}", l.min(k)));
                break;
            }
        }
    }
    Some((format!("pseq ok gen={written_by_call} done={}", gen_bytes as u8), oracle))
}

/// growable sink shared with the encoder, so that the file length can be read between calls
#[derive(Clone)]
struct Sink(std::rc::Rc<std::cell::RefCell<Vec<u8>>>);
impl std::io::Write for Sink {
    fn write(&mut self, buf: &[u8]) -> std::io::Result<usize> {
        self.0.borrow_mut().extend_from_slice(buf);
        Ok(buf.len())
    }
    fn flush(&mut self) -> std::io::Result<()> {
        Ok(())
    }
}

/// `img` laid out in memory as `variant` says (4-aligned store; `seed` picks offset and pitch of `st`)
fn with_view<R>(img: &Img, color: ColorFormat, variant: &str, seed: u64, f: impl FnOnce(ImageView) -> R) -> Option<R> {
    let bpr = img.w * img.nch * img.prec.bytes();
    let (off, pitch) = match variant {
        "al" => (0usize, bpr),
        "o1" => (1, bpr),
        "o2" => (2, bpr),
        "o3" => (3, bpr),
        _ => ((seed % 4) as usize, bpr + 1 + (seed / 4 % 11) as usize),
    };
    let len = pitch * (img.h - 1) + bpr;
    let mut store = vec![0xA5A5_A5A5u32; (off + len + pitch) / 4 + 2];
    let bytes: &mut [u8] = unsafe { std::slice::from_raw_parts_mut(store.as_mut_ptr() as *mut u8, store.len() * 4) };
    let mut row = Vec::with_capacity(bpr);
    for y in 0..img.h {
        row.clear();
        img.row_bytes(y, &mut row);
        let s = off + y * pitch;
        bytes[s..s + bpr].copy_from_slice(&row);
    }
    let view = ImageView::new_with(&bytes[off..off + len], pitch, Size::new(img.w as u32, img.h as u32), color)?;
    Some(f(view))
}

/// The clauses of the property on one generated chain: `src` is the image generation started from, `levels` the
/// decoded levels behind it. Constant colour, opacity, range (convex filters). At most two messages.
fn check_clauses(src: &Img, levels: &[Img], chan: Channels, filter: ResizeFilter, straight: bool, tag: &str, oracle: &mut Vec<String>) {
    let (n, prec) = (src.nch, src.prec);
    let ai = alpha_index(chan);
    let px0: Vec<u32> = (0..n).map(|k| src.d[k]).collect();
    let constant = (0..src.w * src.h).all(|i| (0..n).all(|k| src.d[i * n + k] == px0[k]));
    let opaque = ai.map_or(false, |a| (0..src.w * src.h).all(|i| src.d[i * n + a] == prec.max_raw()));
    let mut lo = vec![f64::INFINITY; n];
    let mut hi = vec![f64::NEG_INFINITY; n];
    for i in 0..src.w * src.h {
        for k in 0..n {
            let v = prec.val(src.d[i * n + k]);
            lo[k] = lo[k].min(v);
            hi[k] = hi[k].max(v);
        }
    }
    let convex = matches!(filter, ResizeFilter::Nearest | ResizeFilter::Box | ResizeFilter::Triangle);
    let src_transparent = straight && constant && prec.val(px0[3]) == 0.0;
    let start = oracle.len();
    for (li, l) in levels.iter().enumerate() {
        for y in 0..l.h {
            for x in 0..l.w {
                let out_transparent = straight && prec.val(l.at(x, y, 3)) == 0.0;
                for k in 0..n {
                    if oracle.len() >= start + 2 {
                        return;
                    }
                    let raw = l.at(x, y, k);
                    let v = prec.val(raw);
                    let is_alpha = ai == Some(k);
                    if constant && !(src_transparent && k < 3) {
                        let ok = match prec {
                            Prec::F32 => (v - prec.val(px0[k])).abs() <= F32_REL * prec.val(px0[k]).abs(),
                            _ => raw == px0[k],
                        };
                        if !ok {
                            oracle.push(format!(
                                "constant: {tag} generated level +{} pixel ({x},{y}) channel {k} is {} but the image is uniformly {}",
                                li + 1,
                                show(prec, raw),
                                show(prec, px0[k])
                            ));
                            continue;
                        }
                    }
                    if opaque && is_alpha {
                        let ok = match prec {
                            Prec::F32 => (v - 1.0).abs() <= F32_REL,
                            _ => raw == prec.max_raw(),
                        };
                        if !ok {
                            oracle.push(format!(
                                "opaque: {tag} generated level +{} pixel ({x},{y}) alpha is {} in a fully opaque image",
                                li + 1,
                                show(prec, raw)
                            ));
                            continue;
                        }
                    }
                    if convex && !(out_transparent && k < 3) {
                        let tol = match prec {
                            Prec::F32 => F32_REL * lo[k].abs().max(hi[k].abs()),
                            _ => 1.0,
                        };
                        if !(v >= lo[k] - tol && v <= hi[k] + tol) {
                            oracle.push(format!(
                                "range: {tag} generated level +{} pixel ({x},{y}) channel {k} is {v} outside [{},{}] (+-{tol})",
                                li + 1,
                                lo[k],
                                hi[k]
                            ));
                        }
                    }
                }
            }
        }
    }
}

/// `T <kind> <w> <h> <levels> <chan> <prec> <filter> <sa> <starts> <seed>`: a whole file through ONE encoder.
///   kind    t (single texture) | c (cube map, 6 faces) | a<n> (texture array of n = 2..8 elements)
///   levels  declared level count 1..255: fewer than, exactly, or MORE than the full chain (levels past 1x1 are 1x1)
///   starts  one start level k_e < levels per element, comma separated: levels 0..k_e-1 of element e are written by
///           hand with generation off, then generation is switched on and level k_e is written — the encoder must
///           generate exactly the levels k_e+1..levels-1 of THAT element behind it
/// Every written image has its own content (constant colour / opaque noise / bands / holes / noise, from the seed)
/// and its own memory layout. Oracle: every call and `finish` succeed, the file has exactly the declared length,
/// and after re-opening every level of every element has the size max(1, dim >> level); hand-written levels read
/// back as written (lossless target), generated levels satisfy the constant / opaque / range clauses with respect
/// to the image their generation started from.
/// Result: `tseq ok gen=<bytes written by the generating call of each element> total=<data bytes> done=<0|1>`.
fn run_tseq(t: &[&str]) -> Option<(String, Vec<String>)> {
    if t.len() != 11 {
        return None;
    }
    let elems: usize = match t[1] {
        "t" => 1,
        "c" => 6,
        k => {
            let n: usize = k.strip_prefix('a')?.parse().ok()?;
            if !(2..=8).contains(&n) {
                return None;
            }
            n
        }
    };
    let (w, h, mips): (u32, u32, u32) = (t[2].parse().ok()?, t[3].parse().ok()?, t[4].parse().ok()?);
    if w == 0 || h == 0 || w > 256 || h > 256 || mips == 0 || mips > 255 {
        return None;
    }
    let chan = *CHANS.iter().find(|c| chan_name(**c) == t[5])?;
    let prec = *PRECS.iter().find(|p| p.name() == t[6])?;
    let filter = *FILTERS.iter().find(|f| filter_name(**f) == t[7])?;
    let sa = match t[8] {
        "0" => false,
        "1" => true,
        _ => return None,
    };
    let starts: Vec<u32> = t[9].split(',').map(|x| x.parse().ok()).collect::<Option<Vec<u32>>>()?;
    if starts.len() != elems || starts.iter().any(|k| *k >= mips) {
        return None;
    }
    let seed: u64 = t[10].parse().ok()?;
    let dim = |d: u32, l: u32| d.checked_shr(l).unwrap_or(0).max(1);
    let color = ColorFormat::new(chan, precision(prec));
    let format = target(chan, prec);
    let straight = sa && chan == Channels::Rgba;
    let mut oracle: Vec<String> = vec![];

    // what the caller writes: element e, level l <= k_e
    let image = |e: usize, l: u32| -> Option<Img> {
        let s = seed ^ 0x7E57_0000 ^ ((e as u64) << 40) ^ ((l as u64) << 48);
        let mut rng = Rng::new(s);
        let content = content(&mut rng, prec, chan);
        make_image(&Cfg { w: dim(w, l), h: dim(h, l), chan, prec, filter, sa, variant: "al".into(), content, seed: s >> 8, mips: None })
    };

    let header = match t[1] {
        "t" => dds::header::Header::new_image(w, h, format),
        "c" => dds::header::Header::new_cube_map(w, h, format),
        _ => match dds::header::Header::new_image(w, h, format) {
            dds::header::Header::Dx10(h10) => dds::header::Header::Dx10(h10.with_array_size(elems as u32)),
            _ => return None,
        },
    }
    .with_mipmap_count(mips);
    let hdr = 4 + header.byte_len();
    let sink = Sink(Default::default());
    let mut gen: Vec<String> = vec![];
    let done;
    {
        let mut enc = match Encoder::new(sink.clone(), format, &header) {
            Ok(e) => e,
            Err(e) => {
                oracle.push(format!("the encoder refuses the header: {e:?}"));
                return Some(("tseq err new".into(), oracle));
            }
        };
        enc.mipmaps.resize_filter = filter;
        enc.mipmaps.resize_straight_alpha = sa;
        enc.options.parallel = seed % 2 == 0;
        for (e, &k) in starts.iter().enumerate() {
            for l in 0..=k {
                enc.mipmaps.generate = l == k;
                let img = image(e, l)?;
                let before = sink.0.borrow().len();
                let variant = VARIANTS[((seed >> 3) as usize + 2 * e + l as usize) % VARIANTS.len()];
                let r = with_view(&img, color, variant, seed.wrapping_add(e as u64 * 13 + l as u64), |v| enc.write_surface(v))?;
                if let Err(err) = r {
                    oracle.push(format!(
                        "element {e}: writing level {l} ({}x{}, generation {}) failed: {err:?}",
                        img.w,
                        img.h,
                        if l == k { "on" } else { "off" }
                    ));
                    return Some(("tseq err write".into(), oracle));
                }
                if l == k {
                    gen.push((sink.0.borrow().len() - before).to_string());
                }
            }
        }
        done = enc.is_done();
        if let Err(e) = enc.finish() {
            oracle.push(format!("every element has been written with generation on for its last hand-written level, finish() says {e:?}"));
        }
    }
    let file = sink.0.borrow().clone();
    // independent expectation in u128
    let level_bytes = |l: u32| dim(w, l) as u128 * dim(h, l) as u128 * format_bpp(format) as u128;
    let total: u128 = (0..mips).map(level_bytes).sum::<u128>() * elems as u128;
    let data = file.len().saturating_sub(hdr);
    let result = format!("tseq ok gen={} total={data} done={}", gen.join(","), done as u8);
    if data as u128 != total {
        oracle.push(format!(
            "levels: the file has {data} data bytes, the {elems} x {mips} declared levels need {total} (sizes max(1, dim >> level))"
        ));
        return Some((result, oracle));
    }
    let mut dec = match Decoder::new(std::io::Cursor::new(&file[..])) {
        Ok(d) => d,
        Err(e) => {
            oracle.push(format!("the finished file does not open: {e:?}"));
            return Some((result, oracle));
        }
    };
    'elems: for (e, &k) in starts.iter().enumerate() {
        let mut decoded: Vec<Img> = vec![];
        for l in 0..mips {
            let want = Size::new(dim(w, l), dim(h, l));
            let got = dec.surface_info().map(|i| i.size());
            if got != Some(want) {
                oracle.push(format!("levels: element {e} level {l}: the file continues with {got:?}, declared is {want:?}"));
                break 'elems;
            }
            let (lw, lh) = (want.width as usize, want.height as usize);
            let mut buf = vec![0u8; lw * lh * nch(chan) * prec.bytes()];
            let view = ImageViewMut::new(&mut buf[..], want, color)?;
            if let Err(err) = dec.read_surface(view) {
                oracle.push(format!("element {e} level {l} ({lw}x{lh}) does not decode: {err:?}"));
                break 'elems;
            }
            decoded.push(Img::from_bytes(lw, lh, nch(chan), prec, &buf));
        }
        for l in 0..=k {
            let img = image(e, l)?;
            if decoded[l as usize].d != img.d {
                // not a statement about generation if the target were lossy; the targets used here are not
                oracle.push(format!("levels: element {e} level {l} was written by hand and does not read back as written"));
                break 'elems;
            }
        }
        let before = oracle.len();
        check_clauses(&decoded[k as usize], &decoded[k as usize + 1..], chan, filter, straight, &format!("element {e} (generation started at level {k}):"), &mut oracle);
        if oracle.len() > before {
            break;
        }
    }
    if oracle.is_empty() && dec.surface_info().is_some() {
        oracle.push("levels: the file declares more surfaces than elements x levels".into());
    }
    Some((result, oracle))
}

pub fn run(line: &str) -> Option<(String, Vec<String>)> {
    let t: Vec<&str> = line.split_whitespace().collect();
    if t.first() == Some(&"S") {
        return run_seq(&t);
    }
    if t.first() == Some(&"P") {
        return run_pseq(&t);
    }
    if t.first() == Some(&"T") {
        return run_tseq(&t);
    }
    let c = parse(line)?;
    let img = make_image(&c)?;
    let mut oracle: Vec<String> = Vec::new();
    let (levels, header_len) = match chain(&img, &c, &c.variant, c.seed) {
        Ok(x) => x,
        Err(e) => {
            oracle.push(format!("generation failed: {e}"));
            return Some((e, oracle));
        }
    };
    let prec = c.prec;
    let n = nch(c.chan);
    let ai = alpha_index(c.chan);
    let straight = c.sa && c.chan == Channels::Rgba;

    // the observation is only sound if the target stores the colour format without loss
    if levels.is_empty() || levels[0].d != img.d {
        return Some(("err lossy-target".into(), oracle));
    }

    // (1) exactly the declared levels, sizes max(1, dim >> level), nothing else in the file
    let exp = expected_sizes(c.w, c.h, c.mips);
    let got: Vec<(u32, u32)> = levels.iter().map(|l| (l.w as u32, l.h as u32)).collect();
    if got != exp {
        oracle.push(format!("levels: expected {:?}, file has {:?}", exp, got));
    }
    if header_len != 148 && header_len != 128 {
        oracle.push(format!("levels: {header_len} bytes precede the level data (header is 128 or 148)"));
    }

    // (2) constant colour
    let cc = const_colour(&c.content);
    let mut const_tok = "-".to_string();
    if let Some(col) = cc {
        let transparent = straight && prec.val(col[3]) == 0.0;
        let mut seen: Vec<Option<u32>> = vec![None; n];
        let mut uniform = vec![true; n];
        let mut near = vec![true; n];
        for (li, l) in levels.iter().enumerate() {
            for y in 0..l.h {
                for x in 0..l.w {
                    for k in 0..n {
                        let v = l.at(x, y, k);
                        // the result token describes the generated levels only
                        if li > 0 {
                            match seen[k] {
                                None => seen[k] = Some(v),
                                Some(s) => {
                                    if s != v {
                                        uniform[k] = false
                                    }
                                }
                            }
                        }
                        let ok = match prec {
                            Prec::F32 => {
                                let (a, b) = (prec.val(v), prec.val(col[k]));
                                (a - b).abs() <= F32_REL * b.abs()
                            }
                            _ => v == col[k],
                        };
                        if !ok {
                            near[k] = false;
                            // colour of fully transparent pixels is unconstrained
                            if !(transparent && k < 3) && oracle.len() < 4 {
                                oracle.push(format!(
                                    "constant: level {li} pixel ({x},{y}) channel {k} is {} but the image is uniformly {} (off by {})",
                                    show(prec, v),
                                    show(prec, col[k]),
                                    off_by(prec, v, col[k])
                                ));
                            }
                        }
                    }
                }
            }
        }
        if levels.len() > 1 {
            const_tok = (0..n)
                .map(|k| match prec {
                    Prec::F32 if near[k] => col[k].to_string(),
                    _ if uniform[k] => seen[k].unwrap_or(0).to_string(),
                    _ => "varies".to_string(),
                })
                .collect::<Vec<_>>()
                .join(":");
        }
    }

    // (3) opacity
    if let Some(a) = ai {
        if (0..img.w * img.h).all(|i| img.d[i * n + a] == prec.max_raw()) {
            'o: for (li, l) in levels.iter().enumerate() {
                for y in 0..l.h {
                    for x in 0..l.w {
                        let v = l.at(x, y, a);
                        let ok = match prec {
                            Prec::F32 => (prec.val(v) - 1.0).abs() <= F32_REL,
                            _ => v == prec.max_raw(),
                        };
                        if !ok {
                            oracle.push(format!(
                                "opaque: level {li} pixel ({x},{y}) alpha is {} in a fully opaque image (off by {})",
                                show(prec, v),
                                off_by(prec, v, prec.max_raw())
                            ));
                            break 'o;
                        }
                    }
                }
            }
        }
    }

    // (5) range clause for the convex filters
    if matches!(c.filter, ResizeFilter::Nearest | ResizeFilter::Box | ResizeFilter::Triangle) {
        let mut lo = vec![f64::INFINITY; n];
        let mut hi = vec![f64::NEG_INFINITY; n];
        for i in 0..img.w * img.h {
            for k in 0..n {
                let v = prec.val(img.d[i * n + k]);
                lo[k] = lo[k].min(v);
                hi[k] = hi[k].max(v);
            }
        }
        'r: for (li, l) in levels.iter().enumerate().skip(1) {
            for y in 0..l.h {
                for x in 0..l.w {
                    let transparent = straight && prec.val(l.at(x, y, 3)) == 0.0;
                    for k in 0..n {
                        if transparent && k < 3 {
                            continue;
                        }
                        let v = prec.val(l.at(x, y, k));
                        let tol = match prec {
                            Prec::F32 => F32_REL * lo[k].abs().max(hi[k].abs()),
                            _ => 1.0,
                        };
                        if !(v >= lo[k] - tol && v <= hi[k] + tol) {
                            oracle.push(format!(
                                "range: level {li} pixel ({x},{y}) channel {k} is {} outside [{},{}] (+-{})",
                                v, lo[k], hi[k], tol
                            ));
                            break 'r;
                        }
                    }
                }
            }
        }
    }

    // (6) independence of buffer alignment and row pitch
    if c.variant != "al" {
        match chain(&img, &c, "al", c.seed) {
            Ok((ref_levels, _)) => {
                if let Some(m) = first_diff(&levels, &ref_levels, None) {
                    oracle.push(format!("layout: variant {} differs from the aligned contiguous input at {m}", c.variant));
                }
            }
            Err(e) => oracle.push(format!("layout: aligned reference run failed: {e}")),
        }
    }

    // (4) channels are resized independently when straight-alpha handling is off
    if !straight && n > 1 {
        let mut rng = Rng::new(c.seed ^ 0x1DE9);
        let k = rng.below(n as u64) as usize;
        let mut other = img.clone();
        for i in 0..img.w * img.h {
            other.d[i * n + k] = rand_sample(&mut rng, prec);
        }
        match chain(&other, &c, &c.variant, c.seed) {
            Ok((ol, _)) => {
                if let Some(m) = first_diff(&levels, &ol, Some(k)) {
                    oracle.push(format!("independent: changing only channel {k} of the input changed {m}"));
                }
            }
            Err(e) => oracle.push(format!("independent: second run failed: {e}")),
        }
    }

    let plan = if levels.len() <= 1 {
        "-".to_string()
    } else if straight {
        vec!["*"; levels.len() - 1].join(",")
    } else {
        observe_plan(&levels, c.filter)
    };
    let sizes = got.iter().map(|(w, h)| format!("{w}x{h}")).collect::<Vec<_>>().join(",");
    Some((format!("ok n={} sizes={} plan={} const={}", levels.len(), sizes, plan, const_tok), oracle))
}

fn show(p: Prec, raw: u32) -> String {
    match p {
        Prec::F32 => format!("{:e}(0x{:08x})", f32::from_bits(raw), raw),
        _ => raw.to_string(),
    }
}

/// first sample where two chains differ, ignoring channel `skip`
fn first_diff(a: &[Img], b: &[Img], skip: Option<usize>) -> Option<String> {
    if a.len() != b.len() {
        return Some("the number of levels".into());
    }
    for (li, (x, y)) in a.iter().zip(b).enumerate() {
        if x.w != y.w || x.h != y.h {
            return Some(format!("the size of level {li}"));
        }
        for i in 0..x.d.len() {
            if Some(i % x.nch) == skip {
                continue;
            }
            if x.d[i] != y.d[i] {
                let p = i / x.nch;
                return Some(format!(
                    "level {li} pixel ({},{}) channel {}: {} vs {}",
                    p % x.w,
                    p / x.w,
                    i % x.nch,
                    show(x.prec, x.d[i]),
                    show(y.prec, y.d[i])
                ));
            }
        }
    }
    None
}

// ---------------------------------------------------------------------------------------------------------
// generator

/// distance between two raw samples in output units (integers) / as a float difference (f32)
fn off_by(prec: Prec, a: u32, b: u32) -> String {
    match prec {
        Prec::F32 => format!("{:e}", (prec.val(a) - prec.val(b)).abs()),
        _ => format!("{}", (a as i64 - b as i64).abs()),
    }
}

fn const_content(rng: &mut Rng, prec: Prec, chan: Channels) -> String {
    let mut col = [0u32; 4];
    for k in 0..4 {
        col[k] = match prec {
            Prec::U8 | Prec::U16 => {
                let m = prec.max_raw() as u64;
                match rng.below(8) {
                    0 => 0,
                    1 => m as u32,
                    2 => 1,
                    3 => (m - 1) as u32,
                    4 => (m / 2 + rng.below(2)) as u32,
                    _ => rng.below(m + 1) as u32,
                }
            }
            Prec::F32 => match rng.below(8) {
                0 => 0.0f32.to_bits(),
                1 => 1.0f32.to_bits(),
                2 => 0.1f32.to_bits(),
                3 => (1.0f32 / 3.0).to_bits(),
                4 => (1.0f32 - f32::EPSILON / 2.0).to_bits(),
                _ => rand_sample(rng, prec),
            },
        };
    }
    // alpha of a constant image: zero, tiny, full or arbitrary
    if chan == Channels::Rgba {
        col[3] = match (prec, rng.below(6)) {
            (_, 0) => 0,
            (Prec::F32, 1) => (1.0f32 / 256.0).to_bits(),
            (_, 1) => 1,
            (_, 2) => prec.max_raw(),
            _ => col[3],
        };
    }
    format!("const:{}:{}:{}:{}", col[0], col[1], col[2], col[3])
}

fn content(rng: &mut Rng, prec: Prec, chan: Channels) -> String {
    match rng.below(8) {
        0 | 1 => const_content(rng, prec, chan),
        2 => "opaque".into(),
        3 | 4 => "band".into(),
        5 => "holes".into(),
        _ => "noise".into(),
    }
}

fn line(w: u32, h: u32, chan: Channels, prec: Prec, f: ResizeFilter, sa: bool, var: &str, content: &str, seed: u64) -> String {
    format!(
        "M {w} {h} {} {} {} {} {var} {content} {seed}",
        chan_name(chan),
        prec.name(),
        filter_name(f),
        sa as u8
    )
}

pub fn gen(seed: u64, thorough: bool) -> Vec<String> {
    let mut rng = Rng::new(seed ^ 0xC16C16);
    let mut out = Vec::new();

    // ---- size pool
    let mut small: Vec<(u32, u32)> = Vec::new(); // all of 1..12 x 1..12
    for w in 1..=12 {
        for h in 1..=12 {
            small.push((w, h));
        }
    }
    let mut grid: Vec<(u32, u32)> = Vec::new(); // 1..40 x 1..40 (quick: sampled)
    for w in 1..=40u32 {
        for h in 1..=40u32 {
            if w <= 12 && h <= 12 {
                continue;
            }
            grid.push((w, h));
        }
    }
    let mut pow2: Vec<(u32, u32)> = Vec::new();
    for a in 0..=8 {
        for b in 0..=8 {
            pow2.push((1 << a, 1 << b));
        }
    }
    // extreme aspect ratios, and sources that are not powers of two although all their mipmaps are
    let extreme: Vec<(u32, u32)> = vec![
        (1, 256), (256, 1), (3, 200), (200, 3), (1, 255), (255, 1), (2, 129), (129, 2), (1, 129), (257, 1), (1, 40),
        (40, 1), (9, 9), (17, 17), (33, 33), (9, 5), (5, 9), (17, 8), (8, 17), (33, 4), (5, 16), (16, 5), (3, 2),
        (65, 64), (64, 65), (129, 129), (5, 5), (3, 3), (9, 3), (17, 1), (1, 33), (33, 17), (255, 255), (100, 100),
    ];

    // very long rows / columns: levels generated from the source average 500..4000 taps
    let very_extreme: Vec<(u32, u32)> = vec![(1000, 3), (3, 1000), (2047, 2), (2, 2047), (997, 1), (1, 997), (4096, 1), (1, 1025), (511, 2)];

    let any_cfg = |rng: &mut Rng| {
        let chan = *rng.pick(&CHANS);
        let prec = *rng.pick(&PRECS);
        let f = *rng.pick(&FILTERS);
        let sa = rng.chance(1, 2);
        let var = *rng.pick(&VARIANTS);
        (chan, prec, f, sa, var)
    };

    // ---- A. configuration sweep: 12 colour formats x 5 filters x alpha on/off x 5 layouts x contents
    let reps = if thorough { 40 } else { 2 };
    for _ in 0..reps {
        for chan in CHANS {
            for prec in PRECS {
                for f in FILTERS {
                    for sa in [false, true] {
                        for var in VARIANTS {
                            for ci in 0..5 {
                                let (w, h) = match rng.below(4) {
                                    0 => *rng.pick(&small),
                                    1 => *rng.pick(&grid),
                                    2 => *rng.pick(&pow2[..49]),
                                    _ => *rng.pick(&extreme),
                                };
                                let cont = match ci {
                                    0 => const_content(&mut rng, prec, chan),
                                    1 => "opaque".to_string(),
                                    2 => "band".to_string(),
                                    3 => "holes".to_string(),
                                    _ => "noise".to_string(),
                                };
                                out.push(line(w, h, chan, prec, f, sa, var, &cont, rng.next() >> 16));
                            }
                        }
                    }
                }
            }
        }
    }

    // ---- A2. very long rows / columns with boundary constants and opaque content, every precision and filter
    for &(w, h) in &very_extreme {
        for prec in PRECS {
            for f in FILTERS {
                let m = prec.max_raw();
                let consts: Vec<u32> = match prec {
                    Prec::F32 => vec![m, (1.0f32 / 3.0).to_bits()],
                    _ => vec![m, m - 1, m / 3 * 2, m / 2],
                };
                for v in consts {
                    out.push(line(w, h, Channels::Grayscale, prec, f, false, "al", &format!("const:{v}:{v}:{v}:{m}"), 1));
                    if thorough {
                        out.push(line(w, h, Channels::Rgba, prec, f, true, "o1", &format!("const:{v}:{v}:{v}:{m}"), 1));
                    }
                }
                out.push(line(w, h, Channels::Rgba, prec, f, rng.chance(1, 2), "al", "opaque", rng.next() >> 16));
            }
        }
    }

    // ---- A3. several surfaces through one encoder (cube map faces in changing colour formats)
    let nseq = if thorough { 900 } else { 90 };
    for i in 0..nseq {
        let w = *rng.pick(&[4u32, 5, 8, 9, 16, 3]);
        let f = *rng.pick(&[ResizeFilter::Box, ResizeFilter::Triangle, ResizeFilter::Mitchell, ResizeFilter::Nearest]);
        let var = VARIANTS[1 + i % 4];
        out.push(format!("S {w} {} {var} {}", filter_name(f), rng.next() >> 16));
    }

    // ---- A4. the chain is started in the middle (levels 0..k-1 by hand, generation on for level k)
    for (w, h) in [(16u32, 16u32), (13, 5), (1, 9), (32, 4), (7, 7), (64, 64), (2, 2), (100, 3)] {
        let mips = 32 - w.max(h).leading_zeros();
        for k in 0..mips {
            let f = FILTERS[(k as usize + w as usize) % FILTERS.len()];
            out.push(format!("P {w} {h} {k} {} {}", filter_name(f), rng.next() >> 16));
        }
    }
    for _ in 0..if thorough { 600 } else { 60 } {
        let (w, h) = (rng.range(1, 130) as u32, rng.range(1, 130) as u32);
        let mips = 32 - w.max(h).leading_zeros();
        let k = rng.below(mips as u64);
        out.push(format!("P {w} {h} {k} {} {}", filter_name(*rng.pick(&FILTERS)), rng.next() >> 16));
    }

    // (own generator state: the cases of the other parts do not move when these parts change)
    let mut rng2 = Rng::new(seed ^ 0xC16_A5A6);
    // ---- A5. declared level counts other than the full chain: the header says how many levels there are. Fewer
    // (generation stops early), and MORE than the image can be halved (legal up to 255: every level past 1x1 is 1x1
    // again, generated from a 1x1 image), for every colour format, filter and alpha setting.
    let full = |w: u32, h: u32| 32 - w.max(h).leading_zeros();
    let declared = |rng2: &mut Rng, w: u32, h: u32| -> u32 {
        let f = full(w, h);
        match rng2.below(8) {
            0 if f > 2 => rng2.range(2, f as u64 - 1) as u32, // short chain
            1 => (f + 1).min(255),
            2 | 3 | 4 => f + 1 + rng2.below(4) as u32,
            5 => f + rng2.range(5, 20) as u32,
            6 if w * h <= 64 => *rng2.pick(&[255u32, 254, 128, 100]),
            _ => f + 2,
        }
    };
    let tiny: Vec<(u32, u32)> = vec![(1, 1), (2, 2), (4, 4), (2, 1), (1, 2), (16, 2), (1, 8), (8, 8), (3, 3), (5, 4), (1, 3), (7, 1), (32, 32), (6, 6), (16, 16), (4, 1)];
    for round in 0..if thorough { 12 } else { 1 } {
        for chan in CHANS {
            for prec in PRECS {
                for (fi, f) in FILTERS.into_iter().enumerate() {
                    for sa in [false, true] {
                        for ci in 0..3 {
                            let (w, h) = if round == 0 { tiny[(ci + 3 * fi + out.len()) % tiny.len()] } else {
                                match rng2.below(4) {
                                    0 => *rng2.pick(&tiny),
                                    1 => *rng2.pick(&small),
                                    2 => *rng2.pick(&pow2[..49]),
                                    _ => *rng2.pick(&grid),
                                }
                            };
                            let cont = match ci {
                                0 => const_content(&mut rng2, prec, chan),
                                1 => "opaque".to_string(),
                                _ => content(&mut rng2, prec, chan),
                            };
                            let m = if round == 0 && ci < 2 { full(w, h) + 1 + (ci as u32) * 2 } else { declared(&mut rng2, w, h) };
                            let var = *rng2.pick(&VARIANTS);
                            out.push(format!("{} m:{m}", line(w, h, chan, prec, f, sa, var, &cont, rng2.next() >> 16)));
                        }
                    }
                }
            }
        }
    }

    // ---- A6. whole files through one encoder: single textures, cube maps and texture arrays with any declared
    // level count; the chain of every element is started at its own level (0 = from the top; k > 0 = levels 0..k-1
    // written by hand with generation off). Start patterns: all from the top, the FIRST generation of the encoder
    // in the middle of a chain and later elements from the top, the reverse, and arbitrary.
    let kinds = ["t", "c", "a2", "a3", "a4", "a7"];
    let tsizes: Vec<(u32, u32)> = vec![(16, 16), (8, 8), (4, 4), (1, 1), (2, 2), (13, 5), (1, 9), (32, 4), (7, 7), (64, 64), (100, 3), (9, 9), (17, 8), (5, 5), (3, 1), (32, 32), (12, 20), (1, 2)];
    let nt = if thorough { 6000 } else { 420 };
    for i in 0..nt {
        let kind = kinds[i % kinds.len()];
        let elems = match kind {
            "t" => 1,
            "c" => 6,
            k => k[1..].parse::<usize>().unwrap(),
        };
        let (w, h) = if i % 3 == 0 { (rng2.range(1, 40) as u32, rng2.range(1, 40) as u32) } else { *rng2.pick(&tsizes) };
        let f = full(w, h);
        let mips = match rng2.below(6) {
            0 | 1 => f,
            2 if f > 2 => rng2.range(2, f as u64) as u32,
            3 => f + 1 + rng2.below(3) as u32,
            4 => f + rng2.range(1, 12) as u32,
            _ => f.max(3),
        };
        let any = |rng2: &mut Rng| rng2.below(mips as u64) as u32;
        let mid = |rng2: &mut Rng| if mips > 1 { rng2.range(1, mips as u64 - 1) as u32 } else { 0 };
        let starts: Vec<u32> = match (i / kinds.len()) % 5 {
            0 => vec![0; elems],
            1 => (0..elems).map(|e| if e == 0 { mid(&mut rng2) } else { 0 }).collect(),
            2 => (0..elems).map(|e| if e + 1 == elems { mid(&mut rng2) } else { 0 }).collect(),
            3 => (0..elems).map(|e| if e == 0 { mid(&mut rng2) } else if rng2.chance(1, 2) { 0 } else { any(&mut rng2) }).collect(),
            _ => (0..elems).map(|_| any(&mut rng2)).collect(),
        };
        let (chan, prec, filter, sa, _) = any_cfg(&mut rng2);
        out.push(format!(
            "T {kind} {w} {h} {mips} {} {} {} {} {} {}",
            chan_name(chan),
            prec.name(),
            filter_name(filter),
            sa as u8,
            starts.iter().map(|k| k.to_string()).collect::<Vec<_>>().join(","),
            rng2.next() >> 16
        ));
    }

    // ---- B. size sweep
    let mut sizes: Vec<((u32, u32), u32)> = Vec::new(); // (size, configurations per size)
    if thorough {
        sizes.extend(small.iter().map(|s| (*s, 200)));
        sizes.extend(grid.iter().map(|s| (*s, 120)));
        sizes.extend(pow2.iter().map(|s| (*s, if s.0 * s.1 > 16384 { 40 } else { 150 })));
        sizes.extend(extreme.iter().map(|s| (*s, 200)));
        sizes.extend(very_extreme.iter().map(|s| (*s, 120)));
    } else {
        sizes.extend(small.iter().map(|s| (*s, 12)));
        for _ in 0..700 {
            sizes.push((*rng.pick(&grid), 2));
        }
        sizes.extend(pow2.iter().map(|s| (*s, if s.0 * s.1 > 16384 { 3 } else { 10 })));
        sizes.extend(extreme.iter().map(|s| (*s, 16)));
        sizes.extend(very_extreme.iter().map(|s| (*s, 24)));
    }
    for ((w, h), k) in sizes {
        for _ in 0..k {
            let (chan, prec, f, sa, var) = any_cfg(&mut rng);
            let cont = content(&mut rng, prec, chan);
            out.push(line(w, h, chan, prec, f, sa, var, &cont, rng.next() >> 16));
        }
    }
    out
}
