//! C10: the encoder writes a complete, re-readable DDS file of exactly the declared size.
//!
//! `X <format> <px> <mulW> <mulH> <kind> <w> <h> <mipmode n|e|g> <color> <pitchExtra> <quality> <dither> <parallel>`
//! kind: t | a<n> | c | v<depth>
use crate::c02::Px;
use crate::common::*;
use dds::header::*;
use dds::*;
use std::cell::RefCell;
use std::io::Write;
use std::rc::Rc;

/// shared sink; accepts at most `.1` bytes per `write` call (short writes, as pipes and sockets do)
struct SharedVec(Rc<RefCell<Vec<u8>>>, usize);
impl Clone for SharedVec {
    fn clone(&self) -> Self {
        SharedVec(self.0.clone(), self.1)
    }
}
impl Write for SharedVec {
    fn write(&mut self, buf: &[u8]) -> std::io::Result<usize> {
        let n = buf.len().min(self.1);
        self.0.borrow_mut().extend_from_slice(&buf[..n]);
        Ok(n)
    }
    fn flush(&mut self) -> std::io::Result<()> {
        Ok(())
    }
}

fn encodable() -> Vec<(&'static str, Format)> {
    all_formats().into_iter().filter(|(_, f)| f.encoding_support().is_some()).collect()
}

pub fn gen(seed: u64, thorough: bool) -> Vec<String> {
    let mut rng = Rng::new(seed);
    let mut out = vec![];
    let fmts = encodable();
    let per_format = if thorough { 1200 } else { 70 };
    for (name, f) in &fmts {
        let px = Px::from_info(PixelInfo::from(*f));
        let (mw, mh) = f.encoding_support().unwrap().size_multiple().map(|(a, b)| (a.get(), b.get())).unwrap_or((1, 1));
        let is_bc = name.starts_with("BC");
        for i in 0..per_format {
            // sizes 1..~70, all residues; multiples where required (and sometimes not, to see the refusal)
            let mut w = rng.range(1, if is_bc { 40 } else { 70 }) as u32;
            let mut h = rng.range(1, if is_bc { 40 } else { 70 }) as u32;
            if i < 24 {
                w = 1 + (i % 12) as u32;
                h = 1 + (i / 2 % 12) as u32;
            }
            if rng.chance(1, 12) {
                w = *rng.pick(&[511u32, 512, 513, 1023, 1025]);
                h = rng.range(1, 3) as u32;
            }
            if (mw, mh) != (1, 1) && !rng.chance(1, 8) {
                w = (w + mw - 1) / mw * mw;
                h = (h + mh - 1) / mh * mh;
            }
            let has_dxgi = matches!(Header::new_image(1, 1, *f), Header::Dx10(_));
            let kind = match rng.below(10) {
                0..=4 => "t".to_string(),
                5 if has_dxgi => format!("a{}", rng.range(2, 3)),
                5 => "t".to_string(),
                6..=7 => "c".to_string(),
                _ => format!("v{}", rng.range(1, 5)),
            };
            if kind != "t" {
                w = w.min(24);
                h = h.min(24);
                if (mw, mh) != (1, 1) {
                    w = (w + mw - 1) / mw * mw;
                    h = (h + mh - 1) / mh * mh;
                }
            }
            let mipmode = *rng.pick(&["n", "n", "e", "g", "g", "m"]);
            let color = rng.below(12);
            let pitch_extra = *rng.pick(&[0u32, 0, 0, 1, 7, 64]);
            let quality = if is_bc { *rng.pick(&["fast", "fast", "fast", "normal"]) } else { "fast" };
            let dither = *rng.pick(&["none", "none", "color", "alpha", "both"]);
            let parallel = rng.below(2);
            out.push(format!(
                "X {name} {} {mw} {mh} {kind} {w} {h} {mipmode} {color} {pitch_extra} {quality} {dither} {parallel}",
                px.fmt()
            ));
        }
    }
    out
}

fn calls_seed(t: &str) -> usize {
    t.bytes().map(|b| b as usize).sum()
}

fn err_name(e: &EncodingError) -> String {
    match e {
        EncodingError::TooManySurfaces => "TooManySurfaces".into(),
        EncodingError::UnexpectedSurfaceSize => "UnexpectedSurfaceSize".into(),
        EncodingError::MissingSurfaces => "MissingSurfaces".into(),
        EncodingError::Cancelled => "Cancelled".into(),
        EncodingError::InvalidSize(..) => "InvalidSize".into(),
        EncodingError::UnsupportedFormat(_) => "UnsupportedFormat".into(),
        EncodingError::Layout(e) => format!("Layout{}", crate::c02::err_name(e)),
        EncodingError::Io(_) => "Io".into(),
        _ => "Other".into(),
    }
}

fn make_image(size: Size, color: ColorFormat, pitch_extra: u32, seed: u64) -> (Vec<u8>, usize) {
    let bpr = size.width as usize * color.bytes_per_pixel() as usize;
    let pitch = bpr + pitch_extra as usize;
    let len = if size.height == 0 { 0 } else { pitch * (size.height as usize - 1) + bpr };
    let mut rng = Rng::new(seed);
    let mut buf = vec![0u8; len];
    match color.precision {
        Precision::F32 => {
            // values in [0,1] as f32
            let mut i = 0;
            while i + 4 <= len {
                let v = (rng.below(1001) as f32) / 1000.0;
                buf[i..i + 4].copy_from_slice(&v.to_ne_bytes());
                i += 4;
            }
            // the padding between rows holds f32 too, harmless
        }
        _ => {
            for b in buf.iter_mut() {
                *b = rng.next() as u8;
            }
        }
    }
    (buf, pitch)
}

pub fn run(line: &str) -> Option<(String, Vec<String>)> {
    let t = toks(line);
    if t.len() != 14 || t[0] != "X" {
        return None;
    }
    let format = format_by_name(t[1])?;
    let px = Px::parse(t[2])?;
    let (mw, mh) = (p_u32(t[3])?, p_u32(t[4])?);
    let kind = t[5];
    let (w, h) = (p_u32(t[6])?, p_u32(t[7])?);
    let mipmode = t[8];
    let color = *all_colors().get(p_usize(t[9])?)?;
    let pitch_extra = p_u32(t[10])?;
    let mut oracle = vec![];
    if Px::from_info(PixelInfo::from(format)) != px {
        oracle.push("pixel info of the format differs from the case line".into());
    }
    let adv = format.encoding_support()?.size_multiple().map(|(a, b)| (a.get(), b.get())).unwrap_or((1, 1));
    if adv != (mw, mh) {
        oracle.push("size multiple of the format differs from the case line".into());
    }
    // header
    let mut header = if kind == "t" {
        Header::new_image(w, h, format)
    } else if kind == "c" {
        Header::new_cube_map(w, h, format)
    } else if let Some(d) = kind.strip_prefix('v') {
        Header::new_volume(w, h, d.parse().ok()?, format)
    } else if let Some(n) = kind.strip_prefix('a') {
        match Header::new_image(w, h, format) {
            Header::Dx10(h10) => Header::Dx10(h10.with_array_size(n.parse().ok()?)),
            // formats without a DXGI code cannot be arrays
            Header::Dx9(_) => return Some(("skip-no-array".into(), oracle)),
        }
    } else {
        return None;
    };
    if mipmode != "n" {
        header = header.with_mipmaps();
    }
    let header_len = 4 + header.byte_len();
    // every third case writes through a sink with short writes
    let max_write = if (w + 2 * h) % 3 == 0 { 1 + (w as usize * 13 + h as usize * 7) % 509 } else { usize::MAX };
    let sink = SharedVec(Rc::new(RefCell::new(Vec::new())), max_write);
    let mut enc = match Encoder::new(sink.clone(), format, &header) {
        Ok(e) => e,
        Err(e) => return Some((format!("err {}", err_name(&e)), oracle)),
    };
    enc.options.quality = match t[11] {
        "normal" => CompressionQuality::Normal,
        "high" => CompressionQuality::High,
        _ => CompressionQuality::Fast,
    };
    enc.options.dithering = match t[12] {
        "color" => Dithering::Color,
        "alpha" => Dithering::Alpha,
        "both" => Dithering::ColorAndAlpha,
        _ => Dithering::None,
    };
    enc.options.parallel = t[13] == "1";
    // byte accounting must not depend on how generated levels are computed: vary the resize filter and alpha
    // handling as a function of the case (not part of the model, which only sees sizes)
    enc.mipmaps.resize_filter = [ResizeFilter::Nearest, ResizeFilter::Box, ResizeFilter::Triangle, ResizeFilter::Mitchell, ResizeFilter::Lanczos3]
        [((w + 3 * h) as usize + calls_seed(t[9]) + calls_seed(t[10]) + calls_seed(t[5])) % 5];
    enc.mipmaps.resize_straight_alpha = (w + h) % 2 == 0;
    // mode m: the caller supplies level 0 with generation off, then turns generation on
    enc.mipmaps.generate = mipmode == "g";
    let layout = enc.layout();
    let data_len = layout.data_len();

    let mut lens: Vec<String> = vec![];
    let mut result = "ok".to_string();
    let mut calls = 0u64;
    let mut expect_off: u64;
    while let Some(info) = enc.surface_info() {
        let size = info.size();
        let slen = info.data_len();
        let is_mip = info.is_mipmap();
        let before = sink.0.borrow().len();
        let (mut buf, pitch) = make_image(size, color, pitch_extra, calls * 7919 + w as u64);
        // a view over a larger backing slice (reused scratch buffer): the bytes written must not depend on it
        if (w as u64 + 2 * h as u64 + calls) % 3 == 0 {
            buf.extend((0..(257 + 13 * calls as usize)).map(|i| i as u8));
        }
        let view = ImageView::new_with(&buf, pitch, size, color)?;
        let r = enc.write_surface(view);
        calls += 1;
        if mipmode == "m" {
            enc.mipmaps.generate = true;
        }
        let after = sink.0.borrow().len();
        lens.push(format!("{}", after - header_len));
        match r {
            Ok(()) => {
                // the surface passed by the caller occupies exactly its layout length; generated levels follow
                if (after - before) < slen as usize {
                    oracle.push(format!("call {calls}: wrote {} bytes, the surface has {}", after - before, slen));
                }
                let _ = is_mip;
            }
            Err(e) => {
                result = format!("err {}", err_name(&e));
                break;
            }
        }
        // bytes written = layout offset of the next surface
        WRITTEN.with(|wr| *wr.borrow_mut() = (after - header_len) as u64);
        expect_off = match enc.surface_info() {
            Some(_) => {
                // offset of the next surface: recompute from the layout by walking it
                next_offset(&layout, &enc)
            }
            None => data_len,
        };
        if (after - header_len) as u64 != expect_off {
            oracle.push(format!("call {calls}: {} data bytes written, next surface starts at {}", after - header_len, expect_off));
        }
        if calls > 5000 {
            break;
        }
    }
    let done = enc.is_done();
    let fin = enc.finish();
    let bytes = sink.0.borrow().clone();
    if result == "ok" {
        match fin {
            Ok(()) => {
                if bytes.len() as u64 != header_len as u64 + data_len {
                    oracle.push(format!("finished file has {} bytes, magic+header+data is {}", bytes.len(), header_len as u64 + data_len));
                }
                reopen(&bytes, &header, format, &layout, &mut oracle);
            }
            Err(e) => oracle.push(format!("all surfaces written (done={done}) but finish failed: {}", err_name(&e))),
        }
    } else if fin.is_ok() {
        oracle.push("finish accepted a file after a failed write".into());
    }
    // a single surface through the free function writes exactly its encoded length
    let main = layout.main_size();
    let mut single = Vec::new();
    let (mut buf, pitch) = make_image(main, color, pitch_extra, 42);
    if (w + h) % 2 == 1 {
        buf.extend((0..301).map(|i| i as u8));
    }
    let view = ImageView::new_with(&buf, pitch, main, color)?;
    let mut opts = EncodeOptions::default();
    opts.quality = CompressionQuality::Fast;
    opts.parallel = t[13] == "1";
    let sres = encode(&mut single, view, format, None, &opts);
    let single_s = match sres {
        Ok(()) => {
            let exp = PixelInfo::from(format).surface_bytes(main).unwrap_or(u64::MAX);
            if single.len() as u64 != exp {
                oracle.push(format!("dds::encode wrote {} bytes, the encoded length is {}", single.len(), exp));
            }
            format!("{}", single.len())
        }
        Err(e) => {
            if !single.is_empty() {
                oracle.push("dds::encode failed after writing bytes for an unsupported size".into());
            }
            err_name(&e)
        }
    };
    Some((format!("{result} calls={calls} lens={} total={} single={single_s}", lens.join(","), bytes.len() - header_len), oracle))
}

fn next_offset(layout: &DataLayout, enc: &Encoder<SharedVec>) -> u64 {
    // the encoder reports size/len of the next surface; find the first surface in layout order at or after the
    // bytes written so far is not possible without the cursor, so walk the flattened list and count calls instead:
    // the encoder's cursor is identified by (remaining surfaces) = surfaces whose offset >= written. We use the
    // flattened list and the invariant under test directly: the next surface's offset is the smallest offset o with
    // o >= 0 such that the number of surfaces before it equals the number consumed. The number consumed is not
    // observable, so we use the encoder's own report (size, len, is_mipmap) to find candidates and take the one
    // matching the bytes written — if none matches, the caller's comparison fails.
    let flat: Vec<SurfaceDescriptor> = match layout {
        DataLayout::Texture(t) => t.iter_mips().collect(),
        DataLayout::TextureArray(a) => a.iter().flat_map(|t| t.iter_mips()).collect(),
        DataLayout::Volume(v) => v.iter_mips().flat_map(|vd| vd.iter_depth_slices()).collect(),
    };
    let info = enc.surface_info().unwrap();
    let written = enc_written(enc);
    for s in &flat {
        if s.data_offset() == written && s.size() == info.size() && s.data_len() == info.data_len() {
            return s.data_offset();
        }
    }
    u64::MAX
}
fn enc_written(_enc: &Encoder<SharedVec>) -> u64 {
    // filled by the caller through a thread local (the writer is shared)
    WRITTEN.with(|w| *w.borrow())
}
thread_local! { static WRITTEN: RefCell<u64> = RefCell::new(0); }

fn reopen(bytes: &[u8], header: &Header, format: Format, layout: &DataLayout, oracle: &mut Vec<String>) {
    let mut dec = match Decoder::new(std::io::Cursor::new(bytes)) {
        Ok(d) => d,
        Err(_) => {
            oracle.push("finished file cannot be re-opened".into());
            return;
        }
    };
    if dec.header() != header {
        oracle.push("re-opened header differs from the one written".into());
    }
    let alias_ok = dec.format() == format || (format == Format::BC3_UNORM_NORMAL && dec.format() == Format::BC3_UNORM);
    if !alias_ok {
        oracle.push(format!("re-opened format {:?} differs from {:?}", dec.format(), format));
    }
    if dec.layout() != *layout {
        oracle.push("re-opened layout differs".into());
    }
    let color = dec.native_color();
    let mut n = 0;
    while let Some(info) = dec.surface_info() {
        let size = info.size();
        let mut buf = vec![0u8; size.width as usize * size.height as usize * color.bytes_per_pixel() as usize];
        let view = ImageViewMut::new(&mut buf, size, color).unwrap();
        if let Err(e) = dec.read_surface(view) {
            oracle.push(format!("surface {n} of the written file does not decode: {e}"));
            return;
        }
        n += 1;
        if n > 6000 {
            break;
        }
    }
    let mut r = dec.into_reader();
    let pos = r.position();
    if pos != bytes.len() as u64 {
        oracle.push(format!("end of the last surface is at {pos}, the file has {} bytes", bytes.len()));
    }
    let mut rest = Vec::new();
    let _ = std::io::Read::read_to_end(&mut r, &mut rest);
}
