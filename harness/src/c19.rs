//! C19: format metadata agrees with what the codecs actually do.
//!
//! Case kinds (first token):
//!   `H x <dxgi 0..255> <alpha 0..4> <dim 2..4> <misc>`   DX10 header
//!   `H f <fourcc u32>`                                   DX9 FourCC header
//!   `H m <flags> <bits> <r> <g> <b> <a>`                 DX9 mask header
//!   `M <fmt>`                                            metadata row of format number <fmt> (0..72)
//!   `D <fmt> <w> <h> <seed>`                             decode byte consumption
//!   `E <fmt> <w> <h> <color 0..11> <par 0|1> <seed>`     encode success / length
//!   `R <fmt> <W> <H> <x> <y> <w> <h> <seed>`             byte consumption of a rectangle decode (`decode_rect` /
//!                                                        `Decoder::read_surface_rect`, chosen by the seed)
//!   `T <fmt> <w> <h> <color 0..11> <seed> [<q 0..3>]`    dithering acts only where advertised / requested
//!                                                        (q = Fast, Normal, High, Unreasonable; absent: Fast or
//!                                                        Normal by the seed)
//!   `G <fmt> <color 0..11>`                              dithering canary (which path `pick_encoder` takes)
//!
//! The oracle (strings returned in the second component) evaluates the clauses of C19 directly
//! on the implementation: two API paths compared with each other, byte positions of a `Cursor`,
//! stored bytes under different dithering options.  Nothing of it depends on the Lean model.
use crate::common::*;
use dds::header::*;
use dds::*;
use std::io::Cursor;
use std::num::NonZeroU32;

pub const FORMATS: [Format; 73] = [
    Format::R8G8B8_UNORM,
    Format::B8G8R8_UNORM,
    Format::R8G8B8A8_UNORM,
    Format::R8G8B8A8_SNORM,
    Format::B8G8R8A8_UNORM,
    Format::B8G8R8X8_UNORM,
    Format::B5G6R5_UNORM,
    Format::B5G5R5A1_UNORM,
    Format::B4G4R4A4_UNORM,
    Format::A4B4G4R4_UNORM,
    Format::R8_SNORM,
    Format::R8_UNORM,
    Format::R8G8_UNORM,
    Format::R8G8_SNORM,
    Format::A8_UNORM,
    Format::R16_UNORM,
    Format::R16_SNORM,
    Format::R16G16_UNORM,
    Format::R16G16_SNORM,
    Format::R16G16B16A16_UNORM,
    Format::R16G16B16A16_SNORM,
    Format::R10G10B10A2_UNORM,
    Format::R11G11B10_FLOAT,
    Format::R9G9B9E5_SHAREDEXP,
    Format::R16_FLOAT,
    Format::R16G16_FLOAT,
    Format::R16G16B16A16_FLOAT,
    Format::R32_FLOAT,
    Format::R32G32_FLOAT,
    Format::R32G32B32_FLOAT,
    Format::R32G32B32A32_FLOAT,
    Format::R10G10B10_XR_BIAS_A2_UNORM,
    Format::AYUV,
    Format::Y410,
    Format::Y416,
    Format::R1_UNORM,
    Format::R8G8_B8G8_UNORM,
    Format::G8R8_G8B8_UNORM,
    Format::UYVY,
    Format::YUY2,
    Format::Y210,
    Format::Y216,
    Format::NV12,
    Format::P010,
    Format::P016,
    Format::BC1_UNORM,
    Format::BC2_UNORM,
    Format::BC2_UNORM_PREMULTIPLIED_ALPHA,
    Format::BC3_UNORM,
    Format::BC3_UNORM_PREMULTIPLIED_ALPHA,
    Format::BC4_UNORM,
    Format::BC4_SNORM,
    Format::BC5_UNORM,
    Format::BC5_SNORM,
    Format::BC6H_UF16,
    Format::BC6H_SF16,
    Format::BC7_UNORM,
    Format::ASTC_4X4_UNORM,
    Format::ASTC_5X4_UNORM,
    Format::ASTC_5X5_UNORM,
    Format::ASTC_6X5_UNORM,
    Format::ASTC_6X6_UNORM,
    Format::ASTC_8X5_UNORM,
    Format::ASTC_8X6_UNORM,
    Format::ASTC_8X8_UNORM,
    Format::ASTC_10X5_UNORM,
    Format::ASTC_10X6_UNORM,
    Format::ASTC_10X8_UNORM,
    Format::ASTC_10X10_UNORM,
    Format::ASTC_12X10_UNORM,
    Format::ASTC_12X12_UNORM,
    Format::BC3_UNORM_RXGB,
    Format::BC3_UNORM_NORMAL,
];

pub const COLORS: [ColorFormat; 12] = [
    ColorFormat::GRAYSCALE_U8,
    ColorFormat::ALPHA_U8,
    ColorFormat::RGB_U8,
    ColorFormat::RGBA_U8,
    ColorFormat::GRAYSCALE_U16,
    ColorFormat::ALPHA_U16,
    ColorFormat::RGB_U16,
    ColorFormat::RGBA_U16,
    ColorFormat::GRAYSCALE_F32,
    ColorFormat::ALPHA_F32,
    ColorFormat::RGB_F32,
    ColorFormat::RGBA_F32,
];

/// The FourCC codes the detection tables know (pinned here as numbers/ASCII, not read from the crate).
pub fn known_four_ccs() -> Vec<u32> {
    let mut v: Vec<u32> = [
        b"DXT1", b"DXT2", b"DXT3", b"DXT4", b"DXT5", b"RXGB", b"DX10", b"ATI1", b"BC4U", b"BC4S", b"ATI2",
        b"BC5U", b"BC5S", b"RGBG", b"GRGB", b"YUY2", b"UYVY",
    ]
    .iter()
    .map(|b| u32::from_le_bytes(**b))
    .collect();
    v.extend_from_slice(&[36, 110, 111, 112, 113, 114, 115, 116]);
    v
}

/// The mask rows (flags, bit count, r, g, b, a) as pinned numbers (DDS_PIXELFORMAT conventions).
pub const MASK_ROWS: [(u32, u32, u32, u32, u32, u32); 19] = [
    (0x2, 8, 0, 0, 0, 0xFF),
    (0x20000, 8, 0xFF, 0, 0, 0),
    (0x20040, 8, 0xFF, 0, 0, 0),
    (0x20000, 16, 0xFFFF, 0, 0, 0),
    (0x40, 16, 0xF800, 0x07E0, 0x001F, 0),
    (0x40, 32, 0xFF0000, 0xFF00, 0xFF, 0),
    (0x40, 32, 0xFFFF, 0xFFFF0000, 0, 0),
    (0x40, 16, 0xFF, 0xFF00, 0, 0),
    (0x40, 24, 0xFF0000, 0xFF00, 0xFF, 0),
    (0x40, 24, 0xFF, 0xFF00, 0xFF0000, 0),
    (0x41, 16, 0xF00, 0xF0, 0xF, 0xF000),
    (0x41, 16, 0x7C00, 0x3E0, 0x1F, 0x8000),
    (0x41, 32, 0xFF0000, 0xFF00, 0xFF, 0xFF000000),
    (0x41, 32, 0xFF, 0xFF00, 0xFF0000, 0xFF000000),
    (0x41, 32, 0x3FF00000, 0xFFC00, 0x3FF, 0xC0000000),
    (0x80000, 32, 0xFF, 0xFF00, 0xFF0000, 0xFF000000),
    (0x80000, 16, 0xFF, 0xFF00, 0, 0),
    (0x80000, 32, 0xFFFF, 0xFFFF0000, 0, 0),
    (0x20001, 16, 0xFF, 0, 0, 0xFF00),
];

fn fmt_px(i: PixelInfo) -> String {
    crate::c02::Px::from_info(i).fmt()
}
fn fmt_color(c: ColorFormat) -> String {
    let ch = match c.channels {
        Channels::Grayscale => "Gray",
        Channels::Alpha => "Alpha",
        Channels::Rgb => "Rgb",
        Channels::Rgba => "Rgba",
    };
    let p = match c.precision {
        Precision::U8 => "U8",
        Precision::U16 => "U16",
        Precision::F32 => "F32",
    };
    format!("{ch}/{p}")
}
fn fmt_dith(d: Dithering) -> &'static str {
    match d {
        Dithering::None => "N",
        Dithering::Color => "C",
        Dithering::Alpha => "A",
        Dithering::ColorAndAlpha => "CA",
    }
}
fn fmt_support(s: Option<EncodingSupport>) -> String {
    match s {
        None => "none".into(),
        Some(s) => format!(
            "d={},sh={},ld={},sm={}",
            fmt_dith(s.dithering()),
            s.split_height().map(|x| x.get().to_string()).unwrap_or("-".into()),
            s.local_dithering() as u8,
            s.size_multiple()
                .map(|(a, b)| format!("{}x{}", a.get(), b.get()))
                .unwrap_or("-".into())
        ),
    }
}
fn fmt_err(e: &FormatError) -> &'static str {
    match e {
        FormatError::UnsupportedDxgiFormat(_) => "dxgi",
        FormatError::UnsupportedFourCC(_) => "fourcc",
        FormatError::UnsupportedPixelFormat => "mask",
        _ => "other",
    }
}
/// the metadata every detected / listed format is printed with
fn fmt_meta(f: Format) -> String {
    let pi = PixelInfo::from(f);
    format!(
        "FP:{} C:{} B:{} S:{}",
        fmt_px(pi),
        fmt_color(f.color()),
        pi.bits_per_pixel(),
        fmt_support(f.encoding_support())
    )
}

fn one() -> NonZeroU32 {
    NonZeroU32::new(1).unwrap()
}

// ---------------------------------------------------------------------------------------------
// generator

pub fn gen(seed: u64, thorough: bool) -> Vec<String> {
    let mut rng = Rng::new(seed);
    let mut out = vec![];

    // (0) metadata rows
    for i in 0..FORMATS.len() {
        out.push(format!("M {i}"));
    }
    // (1a) every u32 0..=255 as DXGI code x all 5 alpha modes x dims x misc
    for code in 0..=255u32 {
        for alpha in 0..5u32 {
            let (dim, misc) = match (code + alpha) % 4 {
                0 => (3, 0),
                1 => (2, 0),
                2 => (4, 0),
                _ => (3, 4),
            };
            out.push(format!("H x {code} {alpha} {dim} {misc}"));
        }
    }
    // (1b) FourCCs: table entries, their one-bit neighbours, boundaries, random
    let known = known_four_ccs();
    for &c in &known {
        out.push(format!("H f {c}"));
    }
    for &c in &known {
        for bit in 0..32 {
            out.push(format!("H f {}", c ^ (1u32 << bit)));
        }
    }
    for c in (0..=130u32).chain([u32::MAX, u32::MAX - 1, 0x8000_0000, 0x3154_5844 - 1, 0x3554_5844 + 1]) {
        out.push(format!("H f {c}"));
    }
    let n_rand_cc = if thorough { 20000 } else { 600 };
    for _ in 0..n_rand_cc {
        let c = match rng.below(3) {
            0 => rng.next() as u32,
            1 => {
                // ASCII-looking
                let a = b"DXTBCATIRGUYV0123456789SU";
                u32::from_le_bytes([*rng.pick(a), *rng.pick(a), *rng.pick(a), *rng.pick(a)])
            }
            _ => rng.below(256) as u32,
        };
        out.push(format!("H f {c}"));
    }
    // (1c) mask rows, single-bit perturbations of every field, other bit counts, random masks
    for &(fl, bc, r, g, b, a) in &MASK_ROWS {
        out.push(format!("H m {fl} {bc} {r} {g} {b} {a}"));
        for other in [8u32, 16, 24, 32] {
            if other != bc {
                out.push(format!("H m {fl} {other} {r} {g} {b} {a}"));
            }
        }
        let bits: Vec<u32> = if thorough { (0..32).collect() } else { vec![0, 1, 4, 5, 6, 7, 8, 15, 16, 17, 19, 24, 31] };
        for &bit in &bits {
            let m = 1u32 << bit;
            out.push(format!("H m {} {bc} {r} {g} {b} {a}", fl ^ m));
            out.push(format!("H m {fl} {bc} {} {g} {b} {a}", r ^ m));
            out.push(format!("H m {fl} {bc} {r} {} {b} {a}", g ^ m));
            out.push(format!("H m {fl} {bc} {r} {g} {} {a}", b ^ m));
            out.push(format!("H m {fl} {bc} {r} {g} {b} {}", a ^ m));
        }
        // swapped channels
        out.push(format!("H m {fl} {bc} {b} {g} {r} {a}"));
        out.push(format!("H m {fl} {bc} {r} {g} {b} 0"));
    }
    for bc in [0u32, 1, 4, 7, 9, 12, 15, 17, 23, 25, 31, 33, 48, 64, 128, u32::MAX] {
        out.push(format!("H m 64 {bc} 255 65280 16711680 0"));
    }
    let n_rand_m = if thorough { 20000 } else { 800 };
    let fl_pool = [0u32, 1, 2, 4, 0x20, 0x40, 0x41, 0x200, 0x20000, 0x20001, 0x20040, 0x40000, 0x80000, 0xC0000];
    let mask_pool = [0u32, 0xFF, 0xFF00, 0xFF0000, 0xFF000000, 0xFFFF, 0xFFFF0000, 0xF800, 0x7E0, 0x1F, 0x7C00, 0x3E0, 0x8000, 0xF, 0xF0, 0xF00, 0xF000, 0x3FF, 0xFFC00, 0x3FF00000, 0xC0000000];
    for _ in 0..n_rand_m {
        let fl = if rng.chance(4, 5) { *rng.pick(&fl_pool) } else { rng.next() as u32 };
        let bc = *rng.pick(&[8u32, 16, 24, 32]);
        let m = |rng: &mut Rng| if rng.chance(5, 6) { *rng.pick(&mask_pool) } else { rng.next() as u32 };
        let (r, g, b, a) = (m(&mut rng), m(&mut rng), m(&mut rng), m(&mut rng));
        out.push(format!("H m {fl} {bc} {r} {g} {b} {a}"));
    }

    // (2) codecs against the table
    let nf = FORMATS.len();
    if thorough {
        for f in 0..nf {
            for w in 1..=32u32 {
                for h in 1..=32u32 {
                    out.push(format!("D {f} {w} {h} {}", rng.next() % 1000));
                    out.push(format!("E {f} {w} {h} {} {} {}", rng.below(12), rng.below(2), rng.next() % 1000));
                }
            }
        }
    } else {
        // every format x every width 1..32 and every height 1..32 (paired with a varying partner),
        for f in 0..nf {
            for a in 1..=32u32 {
                let b = 1 + ((a * 7 + f as u32 * 3) % 32);
                out.push(format!("D {f} {a} {b} {}", rng.next() % 1000));
                out.push(format!("D {f} {b} {a} {}", rng.next() % 1000));
                out.push(format!("E {f} {a} {b} {} {} {}", rng.below(12), rng.below(2), rng.next() % 1000));
                out.push(format!("E {f} {b} {a} {} {} {}", rng.below(12), rng.below(2), rng.next() % 1000));
            }
            // all small sizes both dims
            for w in 1..=6u32 {
                for h in 1..=6u32 {
                    out.push(format!("D {f} {w} {h} {}", rng.next() % 1000));
                    out.push(format!("E {f} {w} {h} {} {} {}", rng.below(12), rng.below(2), rng.next() % 1000));
                }
            }
        }
    }
    // (2b) rectangle decodes consume the whole surface too. The vertical period of a format (block
    // height / chroma sub-sampling; 1 for plain pixels) decides where a rectangle can start and end
    // relative to the encoded lines: surface heights with every residue modulo the period (below one
    // period and beyond two), every bottom edge, tops on and off line boundaries.
    for f in 0..nf {
        let (pw, ph) = match crate::c02::Px::from_info(PixelInfo::from(FORMATS[f])) {
            crate::c02::Px::F(_) => (1u32, 1u32),
            crate::c02::Px::B(_, bw, bh) => (bw as u32, bh as u32),
            crate::c02::Px::P(_, _, sx, sy) => (sx as u32, sy as u32),
        };
        let mut heights: Vec<u32> = (1..=ph.max(3)).chain(2 * ph..3 * ph).collect();
        heights.sort();
        heights.dedup();
        let tops = if thorough { 3 } else { 1 };
        for &sh in &heights {
            for bottom in 1..=sh {
                for k in 0..tops {
                    let sw = 1 + rng.below((2 * pw + 3) as u64) as u32;
                    // tops: any row above the bottom edge; every other one moved onto a line boundary
                    let mut y = rng.below(bottom as u64) as u32;
                    if (bottom + k) % 2 == 0 {
                        y -= y % ph;
                    }
                    let x = rng.below(sw as u64) as u32;
                    let w = 1 + rng.below((sw - x) as u64) as u32;
                    out.push(format!("R {f} {sw} {sh} {x} {y} {w} {} {}", bottom - y, rng.next() % 1000));
                }
            }
            // the whole surface as a rectangle
            let sw = 1 + rng.below((2 * pw + 3) as u64) as u32;
            out.push(format!("R {f} {sw} {sh} 0 0 {sw} {sh} {}", rng.next() % 1000));
        }
        // PRNG: larger surfaces
        let n = if thorough { 60 } else { 6 };
        for _ in 0..n {
            let sw = 1 + rng.below(40) as u32;
            let sh = 1 + rng.below(40) as u32;
            let x = rng.below(sw as u64) as u32;
            let y = rng.below(sh as u64) as u32;
            let w = 1 + rng.below((sw - x) as u64) as u32;
            let h = 1 + rng.below((sh - y) as u64) as u32;
            out.push(format!("R {f} {sw} {sh} {x} {y} {w} {h} {}", rng.next() % 1000));
        }
        // not inside the surface: refused
        // empty rects: no pixel is addressed, the whole surface must still be consumed
        for &(sw, sh) in &[(5u32, 5u32), (12, 20), (7, 13), (6, 5), (16, 16)] {
            for &(x, y, w, h) in &[(0u32, 0u32, 0u32, 0u32), (1, 2, 0, 3), (2, 1, 3, 0), (5, 5, 0, 0)] {
                out.push(format!("R {f} {sw} {sh} {} {} {w} {h} {}", x.min(sw), y.min(sh), rng.next() % 1000));
            }
        }
        out.push(format!("R {f} 8 8 4 4 5 4 {}", rng.next() % 1000));
        out.push(format!("R {f} 8 8 0 7 8 2 {}", rng.next() % 1000));
    }
    // every colour format for every format at two sizes
    for f in 0..nf {
        for c in 0..12 {
            out.push(format!("E {f} 6 4 {c} 0 {}", rng.next() % 1000));
            out.push(format!("E {f} 5 3 {c} 1 {}", rng.next() % 1000));
        }
    }

    // (3a) dithering canary: a fixed smooth RGBA f32 gradient on which every dithering path visibly
    // differs from the plain path; ties `pick_encoder` (which path is taken) to the model
    for f in 0..nf {
        // f32 inputs only: integer inputs are often exactly representable, so that a dithering path
        // legitimately produces the same bytes
        // (and RGBA only: a constant alpha of 1.0 is exactly representable as well)
        out.push(format!("G {f} 11"));
    }
    // (3) dithering
    let sizes: &[(u32, u32)] = &[(8, 8), (4, 4), (6, 2), (2, 6), (12, 4), (16, 16), (10, 10), (32, 2), (2, 2), (14, 6)];
    let reps = if thorough { 12 } else { 1 };
    for f in 0..nf {
        for c in 0..12 {
            for rep in 0..reps {
                let (w, h) = sizes[(f + c + rep) % sizes.len()];
                out.push(format!("T {f} {w} {h} {c} {}", rng.next() % 100000));
            }
        }
        // extra weight on the f32 / u16 RGBA inputs, where dithering is not short-cut by exact encoders
        let extra = if thorough { 40 } else { 4 };
        for k in 0..extra {
            let c = [11usize, 7, 11, 10][k % 4];
            let (w, h) = *rng.pick(sizes);
            out.push(format!("T {f} {w} {h} {c} {}", rng.next() % 100000));
        }
    }
    // (3b) the same comparison at every compression quality (the BC encoders switch algorithms with
    // the quality, the others ignore it): RGBA inputs, so that the alpha content varies inside every block;
    // small images (the highest quality is an exhaustive search)
    let small: &[(u32, u32)] = &[(4, 4), (8, 8), (8, 4), (4, 8), (12, 8), (6, 10), (16, 16), (2, 2)];
    let reps = if thorough { 6 } else { 1 };
    for f in 0..nf {
        for q in 0..4usize {
            for (k, c) in [3usize, 7, 11, 12].into_iter().enumerate() {
                for rep in 0..reps {
                    let c = if c == 12 { rng.below(12) as usize } else { c };
                    let (w, h) = small[(f + q + k + rep) % small.len()];
                    out.push(format!("T {f} {w} {h} {c} {} {q}", rng.next() % 100000));
                }
            }
        }
    }
    out
}

// ---------------------------------------------------------------------------------------------
// implementation side

fn header_of(t: &[&str]) -> Result<Header, &'static str> {
    match t[1] {
        "x" => {
            if t.len() != 6 {
                return Err("bad-case");
            }
            let code = p_u32(t[2]).ok_or("bad-case")?;
            let alpha = p_u32(t[3]).ok_or("bad-case")?;
            let dim = p_u32(t[4]).ok_or("bad-case")?;
            let misc = p_u32(t[5]).ok_or("bad-case")?;
            let alpha_mode = AlphaMode::try_from(alpha).map_err(|_| "bad-case")?;
            let resource_dimension = ResourceDimension::try_from(dim).map_err(|_| "bad-case")?;
            let dxgi_format = DxgiFormat::try_from(code).map_err(|_| "invalid-dxgi")?;
            Ok(Header::Dx10(Dx10Header {
                height: 4,
                width: 4,
                depth: if dim == 4 { Some(2) } else { None },
                mipmap_count: one(),
                dxgi_format,
                resource_dimension,
                misc_flag: MiscFlags::from_bits_retain(misc),
                array_size: 1,
                alpha_mode,
            }))
        }
        "f" => {
            if t.len() != 3 {
                return Err("bad-case");
            }
            let cc = p_u32(t[2]).ok_or("bad-case")?;
            Ok(Header::Dx9(Dx9Header {
                height: 4,
                width: 4,
                depth: None,
                mipmap_count: one(),
                caps2: Caps2::empty(),
                pixel_format: Dx9PixelFormat::FourCC(FourCC(cc)),
            }))
        }
        "m" => {
            if t.len() != 8 {
                return Err("bad-case");
            }
            let v: Option<Vec<u32>> = t[2..8].iter().map(|s| p_u32(s)).collect();
            let v = v.ok_or("bad-case")?;
            let rgb_bit_count = RgbBitCount::try_from(v[1]).map_err(|_| "invalid-bitcount")?;
            Ok(Header::Dx9(Dx9Header {
                height: 4,
                width: 4,
                depth: None,
                mipmap_count: one(),
                caps2: Caps2::empty(),
                pixel_format: Dx9PixelFormat::Mask(MaskPixelFormat {
                    flags: PixelFormatFlags::from_bits_retain(v[0]),
                    rgb_bit_count,
                    r_bit_mask: v[2],
                    g_bit_mask: v[3],
                    b_bit_mask: v[4],
                    a_bit_mask: v[5],
                }),
            }))
        }
        _ => Err("bad-case"),
    }
}

fn run_header(t: &[&str]) -> Option<(String, Vec<String>)> {
    if t.len() < 3 {
        return None;
    }
    let header = match header_of(t) {
        Ok(h) => h,
        Err("bad-case") => return None,
        Err(e) => return Some((e.to_string(), vec![])),
    };
    let mut oracle = vec![];
    let f = Format::from_header(&header);
    let p = PixelInfo::from_header(&header);
    let mut s = String::new();
    match &f {
        Ok(f) => s += &format!("F:{:?}", f),
        Err(e) => s += &format!("F:E:{}", fmt_err(e)),
    }
    match &p {
        Ok(p) => s += &format!(" P:{}", fmt_px(*p)),
        Err(e) => s += &format!(" P:E:{}", fmt_err(e)),
    }
    if let Ok(f) = f {
        s += " ";
        s += &fmt_meta(f);
        // ---- oracle, clause (a): the two ways of obtaining the layout coincide
        match p {
            Ok(p) => {
                if p != PixelInfo::from(f) {
                    oracle.push(format!(
                        "PixelInfo::from_header = {:?} but PixelInfo::from({:?}) = {:?}",
                        p,
                        f,
                        PixelInfo::from(f)
                    ));
                }
                // the layouts built with and without the decoder's format coincide
                let l1 = DataLayout::from_header(&header).ok();
                let l2 = DataLayout::from_header_with(&header, PixelInfo::from(f)).ok();
                if l1 != l2 {
                    oracle.push("DataLayout::from_header differs from from_header_with(format pixel info)".into());
                }
            }
            Err(_) => oracle.push(format!("format {:?} detected but PixelInfo::from_header fails", f)),
        }
    }
    Some((s, oracle))
}

fn run_meta(t: &[&str]) -> Option<(String, Vec<String>)> {
    let i = p_usize(t.get(1)?)?;
    let f = *FORMATS.get(i)?;
    let mut oracle = vec![];
    let dx = DxgiFormat::try_from(f).ok();
    let cc = FourCC::try_from(f).ok();
    let mk = MaskPixelFormat::try_from(f).ok();
    let s = format!(
        "M:{:?} {} X:{} 4:{} K:{}",
        f,
        fmt_meta(f),
        dx.map(|d| u32::from(d).to_string()).unwrap_or("-".into()),
        cc.map(|c| c.0.to_string()).unwrap_or("-".into()),
        mk.as_ref()
            .map(|m| format!(
                "{},{},{},{},{},{}",
                m.flags.bits(),
                u32::from(m.rgb_bit_count),
                m.r_bit_mask,
                m.g_bit_mask,
                m.b_bit_mask,
                m.a_bit_mask
            ))
            .unwrap_or("-".into())
    );
    // ---- oracle: the header written for a format is detected as that format (metadata round trip),
    // except for BC3_UNORM_NORMAL which is documented as not detectable.
    let pi = PixelInfo::from(f);
    let hdr = Header::new_image(4, 4, f);
    match Format::from_header(&hdr) {
        Ok(g) if g == f || f == Format::BC3_UNORM_NORMAL => {}
        other => oracle.push(format!("Header::new_image(.., {:?}) is detected as {:?}", f, other)),
    }
    if PixelInfo::from_header(&hdr).ok() != Some(pi) {
        oracle.push(format!("Header::new_image(.., {:?}) has another pixel info than the format", f));
    }
    // bits per pixel against the surface length of a large surface (independent formula)
    let size = Size::new(720, 720);
    let bytes = pi.surface_bytes(size).unwrap_or(0) as u128;
    let bpp = (bytes * 8 + size.pixels() as u128 - 1) / size.pixels() as u128;
    if bpp != pi.bits_per_pixel() as u128 {
        oracle.push(format!("bits_per_pixel {} != {} derived from surface_bytes", pi.bits_per_pixel(), bpp));
    }
    Some((s, oracle))
}

fn rand_bytes(rng: &mut Rng, n: usize, zero: bool) -> Vec<u8> {
    let mut v = vec![0u8; n];
    if !zero {
        let mut i = 0;
        while i < n {
            let x = rng.next().to_le_bytes();
            let k = (n - i).min(8);
            v[i..i + k].copy_from_slice(&x[..k]);
            i += k;
        }
    }
    v
}

fn run_decode(t: &[&str]) -> Option<(String, Vec<String>)> {
    if t.len() != 5 {
        return None;
    }
    let f = *FORMATS.get(p_usize(t[1])?)?;
    let (w, h) = (p_u32(t[2])?, p_u32(t[3])?);
    let seed = p_u64(t[4])?;
    if w == 0 || h == 0 || w > 4096 || h > 4096 {
        return None;
    }
    let mut rng = Rng::new(seed ^ 0xC19);
    let size = Size::new(w, h);
    let mut oracle = vec![];
    let advertised = PixelInfo::from(f).surface_bytes(size)?;
    let extra = 9usize;
    let data = rand_bytes(&mut rng, advertised as usize + extra, seed % 3 == 0);
    let color = if seed % 2 == 0 { f.color() } else { *rng.pick(&COLORS) };
    let mut buf = vec![0u8; color.buffer_size(size)?];
    // u16 / f32 views need alignment of the element type? ImageViewMut::new takes bytes; alignment is
    // handled inside the crate.
    let mut cur = Cursor::new(&data[..]);
    let view = ImageViewMut::new(&mut buf, size, color)?;
    let r = decode(&mut cur, view, f, &DecodeOptions::default());
    let s = match r {
        Ok(()) => format!("ok {}", cur.position()),
        Err(e) => format!("err {}", short_dec_err(&e)),
    };
    if r_is_ok(&s) {
        if cur.position() != advertised {
            oracle.push(format!(
                "decode of {:?} {}x{} consumed {} bytes, advertised {}",
                f,
                w,
                h,
                cur.position(),
                advertised
            ));
        }
    } else {
        oracle.push(format!("decode of {:?} {}x{} from {} bytes failed: {}", f, w, h, data.len(), s));
    }
    // one byte less than advertised must not be enough
    if advertised > 0 {
        let mut cur = Cursor::new(&data[..advertised as usize - 1]);
        let view = ImageViewMut::new(&mut buf, size, color)?;
        if decode(&mut cur, view, f, &DecodeOptions::default()).is_ok() {
            oracle.push(format!("decode of {:?} {}x{} succeeded with {} bytes, advertised {}", f, w, h, advertised - 1, advertised));
        }
        // exactly the advertised bytes are enough
        let mut cur = Cursor::new(&data[..advertised as usize]);
        let view = ImageViewMut::new(&mut buf, size, color)?;
        if decode(&mut cur, view, f, &DecodeOptions::default()).is_err() {
            oracle.push(format!("decode of {:?} {}x{} fails with exactly the advertised {} bytes", f, w, h, advertised));
        }
    }
    Some((s, oracle))
}
/// Byte consumption of a rectangle decode: after a successful `decode_rect` /
/// `Decoder::read_surface_rect` the reader stands at surface start + advertised surface bytes,
/// whatever part of the surface was asked for.
fn run_rect(t: &[&str]) -> Option<(String, Vec<String>)> {
    if t.len() != 9 {
        return None;
    }
    let f = *FORMATS.get(p_usize(t[1])?)?;
    let (sw, sh) = (p_u32(t[2])?, p_u32(t[3])?);
    let (x, y, w, h) = (p_u32(t[4])?, p_u32(t[5])?, p_u32(t[6])?, p_u32(t[7])?);
    let seed = p_u64(t[8])?;
    // empty rects (w == 0 or h == 0) are legal: nothing is decoded, the surface is still consumed (seed C19j)
    if sw == 0 || sh == 0 || sw > 4096 || sh > 4096 || w > 4096 || h > 4096 {
        return None;
    }
    let mut rng = Rng::new(seed ^ 0x4C19);
    let surface = Size::new(sw, sh);
    let size = Size::new(w, h);
    let offset = Offset::new(x, y);
    let advertised = PixelInfo::from(f).surface_bytes(surface)?;
    // the surface does not start at the beginning of the stream, and something follows it
    let start = rng.below(3) * 5;
    let extra = 9usize;
    let data = rand_bytes(&mut rng, start as usize + advertised as usize + extra, seed % 3 == 0);
    let color = if rng.chance(1, 2) { f.color() } else { *rng.pick(&COLORS) };
    let through_decoder = rng.chance(1, 2);
    let mut buf = vec![0u8; color.buffer_size(size)?];
    // returns the result and the position of the reader afterwards
    let mut call = |bytes: &[u8], buf: &mut [u8]| -> Option<(Result<(), DecodingError>, u64)> {
        let mut cur = Cursor::new(bytes);
        cur.set_position(start);
        let view = ImageViewMut::new(buf, size, color)?;
        if through_decoder {
            let mut d = match Decoder::from_header_with(cur, Header::new_image(sw, sh, f), f) {
                Ok(d) => d,
                Err(e) => return Some((Err(e), start)),
            };
            let r = d.read_surface_rect(view, offset);
            Some((r, d.into_reader().position()))
        } else {
            let r = decode_rect(&mut cur, view, offset, surface, f, &DecodeOptions::default());
            Some((r, cur.position()))
        }
    };
    let api = if through_decoder { "Decoder::read_surface_rect" } else { "decode_rect" };
    let what = format!("{api} of {:?} {}x{} rect {},{} {}x{}", f, sw, sh, x, y, w, h);
    let mut oracle = vec![];
    let (r, pos) = call(&data[..], &mut buf)?;
    let s = match &r {
        Ok(()) => format!("ok {}", pos.wrapping_sub(start)),
        Err(e) => format!("err {}", short_dec_err(e)),
    };
    let inside = x.checked_add(w).map_or(false, |e| e <= sw) && y.checked_add(h).map_or(false, |e| e <= sh);
    if r.is_ok() {
        if pos != start + advertised {
            oracle.push(format!(
                "{what} consumed {} bytes, advertised {}",
                pos as i128 - start as i128,
                advertised
            ));
        }
    } else if inside {
        oracle.push(format!("{what} from {} bytes failed: {}", data.len() - start as usize, s));
    }
    if inside {
        // exactly the advertised bytes are enough, and they are consumed
        let (r, pos) = call(&data[..(start + advertised) as usize], &mut buf)?;
        if r.is_err() {
            oracle.push(format!("{what} fails with exactly the advertised {} bytes", advertised));
        } else if pos != start + advertised {
            oracle.push(format!(
                "{what} (stream ends with the surface) consumed {} bytes, advertised {}",
                pos as i128 - start as i128,
                advertised
            ));
        }
    }
    Some((s, oracle))
}
fn r_is_ok(s: &str) -> bool {
    s.starts_with("ok")
}
fn short_dec_err(e: &DecodingError) -> String {
    match e {
        DecodingError::Io(_) => "Io".into(),
        DecodingError::MemoryLimitExceeded => "MemoryLimitExceeded".into(),
        other => format!("{:?}", other).split('(').next().unwrap_or("?").to_string(),
    }
}

/// image data in the given colour format; f32 values mostly in [0,1], some slightly outside
fn rand_image(rng: &mut Rng, size: Size, color: ColorFormat, smooth: bool) -> Vec<u8> {
    let n = size.pixels() as usize * color.channels.count() as usize;
    let mut out = Vec::with_capacity(n * color.precision.size() as usize);
    let base: Vec<f32> = (0..4).map(|_| (rng.below(1001) as f32) / 1000.0).collect();
    for i in 0..n {
        let ch = i % color.channels.count() as usize;
        let v: f32 = if smooth {
            // slowly varying values: where error diffusion matters most
            let t = (i / color.channels.count() as usize) as f32 / (size.pixels() as f32);
            (base[ch] * 0.5 + 0.5 * t + (rng.below(100) as f32) / 2000.0).min(1.0)
        } else {
            match rng.below(20) {
                0 => 0.0,
                1 => 1.0,
                2 => -0.25,
                3 => 1.5,
                _ => (rng.below(1 << 20) as f32) / ((1 << 20) as f32),
            }
        };
        match color.precision {
            Precision::U8 => out.push((v.clamp(0.0, 1.0) * 255.0 + 0.5) as u8),
            Precision::U16 => out.extend_from_slice(&(((v.clamp(0.0, 1.0) * 65535.0) + 0.5) as u16).to_ne_bytes()),
            Precision::F32 => out.extend_from_slice(&v.to_ne_bytes()),
        }
    }
    out
}

fn enc_err(e: &EncodingError) -> String {
    match e {
        EncodingError::UnsupportedFormat(_) => "UnsupportedFormat".into(),
        EncodingError::InvalidSize(a, b) => format!("InvalidSize:{}x{}", a.get(), b.get()),
        EncodingError::Io(_) => "Io".into(),
        other => format!("{:?}", other).split('(').next().unwrap_or("?").to_string(),
    }
}

fn run_encode(t: &[&str]) -> Option<(String, Vec<String>)> {
    if t.len() != 7 {
        return None;
    }
    let f = *FORMATS.get(p_usize(t[1])?)?;
    let (w, h) = (p_u32(t[2])?, p_u32(t[3])?);
    let color = *COLORS.get(p_usize(t[4])?)?;
    let par = p_u32(t[5])? != 0;
    let seed = p_u64(t[6])?;
    if w == 0 || h == 0 || w > 4096 || h > 4096 {
        return None;
    }
    let mut rng = Rng::new(seed ^ 0xE19);
    let size = Size::new(w, h);
    let img = rand_image(&mut rng, size, color, false);
    let view = ImageView::new(&img, size, color)?;
    let mut options = EncodeOptions::default();
    options.parallel = par;
    options.quality = CompressionQuality::Fast;
    options.dithering = *rng.pick(&[Dithering::None, Dithering::None, Dithering::Color, Dithering::Alpha, Dithering::ColorAndAlpha]);
    let mut outv: Vec<u8> = vec![];
    let r = encode(&mut outv, view, f, None, &options);
    let s = match &r {
        Ok(()) => format!("ok {}", outv.len()),
        Err(e) => format!("err {}", enc_err(e)),
    };
    // ---- oracle, clause (b): encoding succeeds exactly for supported sizes, and writes the advertised bytes
    let mut oracle = vec![];
    let support = f.encoding_support();
    let expect_ok = support.map(|s| s.supports_size(size)).unwrap_or(false);
    if r.is_ok() != expect_ok {
        oracle.push(format!(
            "encode {:?} {}x{} {}: result {} but encoding_support says {}",
            f,
            w,
            h,
            fmt_color(color),
            s,
            match support {
                None => "not encodable".to_string(),
                Some(su) => format!("supports_size={}", su.supports_size(size)),
            }
        ));
    }
    if r.is_ok() {
        let adv = PixelInfo::from(f).surface_bytes(size);
        if Some(outv.len() as u64) != adv {
            oracle.push(format!("encode {:?} {}x{} wrote {} bytes, advertised {:?}", f, w, h, outv.len(), adv));
        }
    }
    if let (Err(EncodingError::InvalidSize(a, b)), Some(su)) = (&r, support) {
        if su.size_multiple() != Some((*a, *b)) {
            oracle.push(format!("InvalidSize({},{}) differs from the advertised size multiple {:?}", a, b, su.size_multiple()));
        }
    }
    Some((s, oracle))
}

/// Where the alpha channel is stored, per repeating unit of the encoded surface:
/// (unit bytes, mask over the unit with 0xFF.. on alpha bits). Pinned from the format definitions
/// (DXGI / DDS programming guide), little endian. `None` = the format is outside the class
/// "stores alpha independently of colour" (BC1: punch-through, BC7: joint modes).
pub fn alpha_layout(f: Format) -> Option<(usize, Vec<u8>)> {
    use Format::*;
    let m = |unit: usize, bits: &[usize]| -> Option<(usize, Vec<u8>)> {
        let mut v = vec![0u8; unit];
        for &b in bits {
            v[b / 8] |= 1 << (b % 8);
        }
        Some((unit, v))
    };
    let range = |a: usize, b: usize| -> Vec<usize> { (a..b).collect() };
    match f {
        BC1_UNORM | BC7_UNORM => None,
        // not encodable: nothing to compare
        BC6H_UF16 | BC6H_SF16 => None,
        R8G8B8A8_UNORM | R8G8B8A8_SNORM | B8G8R8A8_UNORM | AYUV => m(4, &range(24, 32)),
        B5G5R5A1_UNORM => m(2, &[15]),
        B4G4R4A4_UNORM => m(2, &range(12, 16)),
        A4B4G4R4_UNORM => m(2, &range(0, 4)),
        A8_UNORM => m(1, &range(0, 8)),
        R16G16B16A16_UNORM | R16G16B16A16_SNORM | R16G16B16A16_FLOAT | Y416 => m(8, &range(48, 64)),
        R10G10B10A2_UNORM | R10G10B10_XR_BIAS_A2_UNORM | Y410 => m(4, &range(30, 32)),
        R32G32B32A32_FLOAT => m(16, &range(96, 128)),
        BC2_UNORM | BC2_UNORM_PREMULTIPLIED_ALPHA | BC3_UNORM | BC3_UNORM_PREMULTIPLIED_ALPHA => {
            m(16, &range(0, 64))
        }
        // everything else stores no alpha: every stored bit is colour
        _ => m(1, &[]),
    }
}

fn split_bits(bytes: &[u8], unit: usize, mask: &[u8]) -> (Vec<u8>, Vec<u8>) {
    let mut a = Vec::with_capacity(bytes.len());
    let mut c = Vec::with_capacity(bytes.len());
    for (i, &b) in bytes.iter().enumerate() {
        let m = mask[i % unit];
        a.push(b & m);
        c.push(b & !m);
    }
    (a, c)
}

fn run_dither(t: &[&str]) -> Option<(String, Vec<String>)> {
    if t.len() != 6 && t.len() != 7 {
        return None;
    }
    let fi = p_usize(t[1])?;
    let f = *FORMATS.get(fi)?;
    let (w, h) = (p_u32(t[2])?, p_u32(t[3])?);
    let color = *COLORS.get(p_usize(t[4])?)?;
    let seed = p_u64(t[5])?;
    if w == 0 || h == 0 || w > 256 || h > 256 {
        return None;
    }
    let quality = match t.get(6) {
        None => {
            if seed % 7 == 0 {
                CompressionQuality::Normal
            } else {
                CompressionQuality::Fast
            }
        }
        Some(q) => match p_u32(q)? {
            0 => CompressionQuality::Fast,
            1 => CompressionQuality::Normal,
            2 => CompressionQuality::High,
            3 => CompressionQuality::Unreasonable,
            _ => return None,
        },
    };
    let support = match f.encoding_support() {
        None => return Some(("unsupported".into(), vec![])),
        Some(s) => s,
    };
    let size = Size::new(w, h);
    if !support.supports_size(size) {
        return Some(("unsupported-size".into(), vec![]));
    }
    let mut rng = Rng::new(seed ^ 0xD19);
    let img = rand_image(&mut rng, size, color, seed % 2 == 0);
    let mut outs: Vec<Vec<u8>> = vec![];
    for d in [Dithering::None, Dithering::Color, Dithering::Alpha, Dithering::ColorAndAlpha] {
        let view = ImageView::new(&img, size, color)?;
        let mut options = EncodeOptions::default();
        options.parallel = seed % 5 == 0;
        options.quality = quality;
        options.dithering = d;
        let mut o: Vec<u8> = vec![];
        if let Err(e) = encode(&mut o, view, f, None, &options) {
            return Some((format!("err {}", enc_err(&e)), vec![format!("encode failed for a supported size: {}", enc_err(&e))]));
        }
        outs.push(o);
    }
    let (n, c, a, ca) = (&outs[0], &outs[1], &outs[2], &outs[3]);
    let adv = support.dithering();
    let e = |x: &Vec<u8>, y: &Vec<u8>| if x == y { "1" } else { "0" };
    let mut s = format!("adv={} C={} A={} CA={} CA~C={} CA~A={}", fmt_dith(adv), e(n, c), e(n, a), e(n, ca), e(ca, c), e(ca, a));
    let mut oracle = vec![];
    let ctx = format!("{:?} {}x{} {} seed {} quality {:?}", f, w, h, fmt_color(color), seed, quality);
    // ---- oracle, clause (c)
    // formats advertising no dithering for a channel group ignore the option for it
    if !adv.color() {
        if n != c {
            oracle.push(format!("{ctx}: colour dithering not advertised but Dithering::Color changes the output"));
        }
        if a != ca {
            oracle.push(format!("{ctx}: colour dithering not advertised but ColorAndAlpha differs from Alpha"));
        }
    }
    if !adv.alpha() {
        if n != a {
            oracle.push(format!("{ctx}: alpha dithering not advertised but Dithering::Alpha changes the output"));
        }
        if c != ca {
            oracle.push(format!("{ctx}: alpha dithering not advertised but ColorAndAlpha differs from Color"));
        }
    }
    // formats that store alpha independently of colour
    match alpha_layout(f) {
        None => s += " aNC=- cNA=-",
        Some((unit, mask)) => {
            let (an, cn) = split_bits(n, unit, &mask);
            let (ac, _) = split_bits(c, unit, &mask);
            let (_, ca_) = split_bits(a, unit, &mask);
            s += &format!(" aNC={} cNA={}", e(&an, &ac), e(&cn, &ca_));
            if an != ac {
                let at = an.iter().zip(ac.iter()).position(|(x, y)| x != y).unwrap_or(0);
                oracle.push(format!(
                    "{ctx}: colour-only dithering changed the stored alpha (first difference at byte {at}: {:#04x} vs {:#04x})",
                    an[at], ac[at]
                ));
            }
            if cn != ca_ {
                let at = cn.iter().zip(ca_.iter()).position(|(x, y)| x != y).unwrap_or(0);
                oracle.push(format!(
                    "{ctx}: alpha-only dithering changed the stored colour (first difference at byte {at}: {:#04x} vs {:#04x})",
                    cn[at], ca_[at]
                ));
            }
        }
    }
    Some((s, oracle))
}

/// Canary: 48x8 gradient, every channel a different slow ramp through non-representable values.
fn run_canary(t: &[&str]) -> Option<(String, Vec<String>)> {
    if t.len() != 3 {
        return None;
    }
    let f = *FORMATS.get(p_usize(t[1])?)?;
    let color = *COLORS.get(p_usize(t[2])?)?;
    let support = match f.encoding_support() {
        None => return Some(("unsupported".into(), vec![])),
        Some(s) => s,
    };
    let size = Size::new(48, 8);
    if !support.supports_size(size) {
        return Some(("unsupported-size".into(), vec![]));
    }
    let nch = color.channels.count() as usize;
    let mut img: Vec<u8> = vec![];
    for y in 0..8usize {
        for x in 0..48usize {
            for ch in 0..nch {
                let k = (x * (5 + 2 * ch) + y * (17 + 4 * ch) + 31 * ch) % 397;
                let v = k as f32 / 397.0;
                match color.precision {
                    Precision::U8 => img.push((v * 255.0 + 0.5) as u8),
                    Precision::U16 => img.extend_from_slice(&((v * 65535.0 + 0.5) as u16).to_ne_bytes()),
                    Precision::F32 => img.extend_from_slice(&v.to_ne_bytes()),
                }
            }
        }
    }
    let mut outs: Vec<Vec<u8>> = vec![];
    for d in [Dithering::None, Dithering::Color, Dithering::Alpha, Dithering::ColorAndAlpha] {
        let view = ImageView::new(&img, size, color)?;
        let mut options = EncodeOptions::default();
        options.parallel = false;
        options.quality = CompressionQuality::Fast;
        options.dithering = d;
        let mut o: Vec<u8> = vec![];
        if encode(&mut o, view, f, None, &options).is_err() {
            return Some(("err".into(), vec!["encode failed for a supported size".into()]));
        }
        outs.push(o);
    }
    let e = |x: &Vec<u8>, y: &Vec<u8>| if x == y { "1" } else { "0" };
    Some((format!("C={} A={} CA={}", e(&outs[0], &outs[1]), e(&outs[0], &outs[2]), e(&outs[0], &outs[3])), vec![]))
}

pub fn run(line: &str) -> Option<(String, Vec<String>)> {
    let t = toks(line);
    match *t.first()? {
        "G" => run_canary(&t),
        "H" => run_header(&t),
        "M" => run_meta(&t),
        "D" => run_decode(&t),
        "R" => run_rect(&t),
        "E" => run_encode(&t),
        "T" => run_dither(&t),
        _ => None,
    }
}
