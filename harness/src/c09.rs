//! C09: headers survive serialisation.
//!
//! Case kinds (tokens separated by blanks):
//!   `P <opt> <fl> <w0> <w1> ...`   a word stream (u32, little endian on disk, magic included)
//!                                   opt: s|p (strict|permissive), upper case = skip_magic_bytes
//!                                   fl : file_len or `-`
//!   `K <I|V|C> <Format> <w> <h> <d> <op>...`  constructor + builder chain
//!                                   op: S:w:h | D:w:h:d|- | M:m | X
//!   `KS <I|V|C> <9:F:cc|9:M:fl:bits:r:g:b:a|10:dxgi> <w> <h> <d> <op>...`  struct-level constructor
//!                                   (Dx9Header::new_* / Dx10Header::new_*) + chain of struct-level setters
//!                                   op: S:w:h | D:w:h:d|- | M:m | C:faces | P:F:cc | P:M:.. | G:dxgi | R:dim | Q:misc | A:n | L:alpha
//!   `X <hdr>`                       to_dx9 / to_dx10 on a header (canonical header token)
//!   `TD <code>` `TF <fourcc>` `TM <Format>`   table rows (exhaustive part of the tie)
//!
//! Canonical header token:
//!   `9:w:h:d|-:mips:caps2:F:fourcc` | `9:w:h:d|-:mips:caps2:M:flags:bits:r:g:b:a`
//!   `10:w:h:d|-:mips:dxgi:dim:misc:array:alpha`
use crate::c02::Px;
use crate::common::*;
use dds::header::*;
use dds::*;
use std::io::Cursor;
use std::num::NonZeroU32;

// ---------------------------------------------------------------------------------------------
// canonical text

pub fn fmt_opt(d: Option<u32>) -> String {
    match d {
        Some(x) => x.to_string(),
        None => "-".into(),
    }
}

pub fn fmt_header(h: &Header) -> String {
    match h {
        Header::Dx9(x) => {
            let pf = match &x.pixel_format {
                Dx9PixelFormat::FourCC(c) => format!("F:{}", c.0),
                Dx9PixelFormat::Mask(m) => format!(
                    "M:{}:{}:{}:{}:{}:{}",
                    m.flags.bits(),
                    u32::from(m.rgb_bit_count),
                    m.r_bit_mask,
                    m.g_bit_mask,
                    m.b_bit_mask,
                    m.a_bit_mask
                ),
            };
            format!(
                "9:{}:{}:{}:{}:{}:{}",
                x.width,
                x.height,
                fmt_opt(x.depth),
                x.mipmap_count.get(),
                x.caps2.bits(),
                pf
            )
        }
        Header::Dx10(x) => format!(
            "10:{}:{}:{}:{}:{}:{}:{}:{}:{}",
            x.width,
            x.height,
            fmt_opt(x.depth),
            x.mipmap_count.get(),
            u32::from(x.dxgi_format),
            u32::from(x.resource_dimension),
            x.misc_flag.bits(),
            x.array_size,
            u32::from(x.alpha_mode)
        ),
    }
}

pub fn parse_header(s: &str) -> Option<Header> {
    let p: Vec<&str> = s.split(':').collect();
    let n = |i: usize| -> Option<u32> { p.get(i)?.parse().ok() };
    let d = |i: usize| -> Option<Option<u32>> {
        let t = p.get(i)?;
        if *t == "-" {
            Some(None)
        } else {
            Some(Some(t.parse().ok()?))
        }
    };
    match *p.first()? {
        "9" => {
            let pf = match *p.get(6)? {
                "F" if p.len() == 8 => Dx9PixelFormat::FourCC(FourCC(n(7)?)),
                "M" if p.len() == 13 => Dx9PixelFormat::Mask(MaskPixelFormat {
                    flags: PixelFormatFlags::from_bits_retain(n(7)?),
                    rgb_bit_count: RgbBitCount::try_from(n(8)?).ok()?,
                    r_bit_mask: n(9)?,
                    g_bit_mask: n(10)?,
                    b_bit_mask: n(11)?,
                    a_bit_mask: n(12)?,
                }),
                _ => return None,
            };
            Some(Header::Dx9(Dx9Header {
                width: n(1)?,
                height: n(2)?,
                depth: d(3)?,
                mipmap_count: NonZeroU32::new(n(4)?)?,
                caps2: Caps2::from_bits_retain(n(5)?),
                pixel_format: pf,
            }))
        }
        "10" if p.len() == 10 => Some(Header::Dx10(Dx10Header {
            width: n(1)?,
            height: n(2)?,
            depth: d(3)?,
            mipmap_count: NonZeroU32::new(n(4)?)?,
            dxgi_format: dxgi_by_code(n(5)?)?,
            resource_dimension: ResourceDimension::try_from(n(6)?).ok()?,
            misc_flag: MiscFlags::from_bits_retain(n(7)?),
            array_size: n(8)?,
            alpha_mode: AlphaMode::try_from(n(9)?).ok()?,
        })),
        _ => None,
    }
}

pub fn fmt_err(e: &HeaderError) -> String {
    match e {
        HeaderError::InvalidMagicBytes(b) => format!("err:InvalidMagicBytes:{}", u32::from_le_bytes(*b)),
        HeaderError::InvalidHeaderSize(n) => format!("err:InvalidHeaderSize:{n}"),
        HeaderError::InvalidPixelFormatSize(n) => format!("err:InvalidPixelFormatSize:{n}"),
        HeaderError::InvalidRgbBitCount(n) => format!("err:InvalidRgbBitCount:{n}"),
        HeaderError::InvalidDxgiFormat(n) => format!("err:InvalidDxgiFormat:{n}"),
        HeaderError::InvalidResourceDimension(n) => format!("err:InvalidResourceDimension:{n}"),
        HeaderError::InvalidAlphaMode(n) => format!("err:InvalidAlphaMode:{n}"),
        HeaderError::InvalidArraySizeForTexture3D(n) => format!("err:InvalidArraySizeForTexture3D:{n}"),
        HeaderError::Io(_) => "err:Io".into(),
        #[allow(unreachable_patterns)]
        _ => "err:other".into(),
    }
}

pub fn fmt_px(p: Option<PixelInfo>) -> String {
    match p {
        Some(i) => Px::from_info(i).fmt(),
        None => "-".into(),
    }
}

pub fn px_of(h: &Header) -> Option<PixelInfo> {
    PixelInfo::from_header(h).ok()
}

/// `DataLayout::from_header(h).data_len()`
pub fn data_len(h: &Header) -> Option<u64> {
    DataLayout::from_header(h).ok().map(|l| l.data_len())
}

/// summary of `DataLayout::from_header`
pub fn fmt_layout(h: &Header) -> String {
    let px = match px_of(h) {
        Some(p) => p,
        None => return "nopx".into(),
    };
    match DataLayout::from_header_with(h, px) {
        Err(e) => {
            let name = match e {
                LayoutError::TooManyMipMaps(_) => "TooManyMipMaps",
                LayoutError::MissingDepth => "MissingDepth",
                LayoutError::ZeroDimension => "ZeroDimension",
                LayoutError::ArraySizeTooBig(_) => "ArraySizeTooBig",
                LayoutError::DataLayoutTooBig => "DataLayoutTooBig",
                LayoutError::InvalidCubeMapFaces => "InvalidCubeMapFaces",
                #[allow(unreachable_patterns)]
                _ => "other",
            };
            format!("err:{name}")
        }
        Ok(l) => match l {
            DataLayout::Texture(t) => format!("T:{}x{}:{}:{}", t.main().width(), t.main().height(), t.mipmaps(), t.data_len()),
            DataLayout::Volume(v) => {
                let m = v.main();
                format!("V:{}x{}x{}:{}:{}", m.width(), m.height(), m.depth(), v.mipmaps(), v.data_len())
            }
            DataLayout::TextureArray(a) => {
                let k = match a.kind() {
                    TextureArrayKind::Textures => "T".to_string(),
                    TextureArrayKind::CubeMaps => "C".to_string(),
                    TextureArrayKind::PartialCubeMap(f) => format!("P{}", f.bits()),
                };
                format!(
                    "A{}:{}:{}x{}:{}:{}",
                    k,
                    a.len(),
                    a.size().width,
                    a.size().height,
                    a.mipmaps(),
                    a.data_len()
                )
            }
        },
    }
}

pub fn words_to_bytes(ws: &[u32]) -> Vec<u8> {
    let mut v = Vec::with_capacity(ws.len() * 4);
    for w in ws {
        v.extend_from_slice(&w.to_le_bytes());
    }
    v
}
pub fn bytes_to_words(bs: &[u8]) -> Vec<u32> {
    bs.chunks_exact(4).map(|c| u32::from_le_bytes([c[0], c[1], c[2], c[3]])).collect()
}

pub fn header_words(h: &Header) -> Vec<u32> {
    let mut v = Vec::new();
    h.write(&mut v).unwrap();
    bytes_to_words(&v)
}

pub struct Opts {
    pub permissive: bool,
    pub skip_magic: bool,
    pub file_len: Option<u64>,
}
impl Opts {
    pub fn parse(o: &str, fl: &str) -> Option<Opts> {
        let (permissive, skip_magic) = match o {
            "s" => (false, false),
            "p" => (true, false),
            "S" => (false, true),
            "P" => (true, true),
            _ => return None,
        };
        let file_len = if fl == "-" { None } else { Some(p_u64(fl)?) };
        Some(Opts { permissive, skip_magic, file_len })
    }
    pub fn to_options(&self) -> ParseOptions {
        let mut o = ParseOptions::default();
        o.permissive = self.permissive;
        o.skip_magic_bytes = self.skip_magic;
        o.file_len = self.file_len;
        o
    }
}

/// `Header::read` over a byte image; also returns the number of bytes left unread
pub fn read_header(bytes: &[u8], o: &ParseOptions) -> (Result<Header, HeaderError>, usize) {
    let mut c = Cursor::new(bytes);
    let r = Header::read(&mut c, o);
    let left = bytes.len() - (c.position() as usize).min(bytes.len());
    (r, left)
}

/// The round-trip part shared by P and K cases: `len=.. W=.. rr=...` and the C09 oracle.
/// rr: re-read of the written bytes equals the header in strict / permissive(None) /
/// permissive(true file length) mode (`x` when the header has no layout, i.e. no true length).
/// A writer that accepts at most `max` bytes per `write` call (pipes, sockets, fixed-size sinks behave like this):
/// `Header::write` must deliver the whole image through it as well.
pub struct ShortWriter {
    pub data: Vec<u8>,
    pub max: usize,
}
impl std::io::Write for ShortWriter {
    fn write(&mut self, buf: &[u8]) -> std::io::Result<usize> {
        let n = buf.len().min(self.max);
        self.data.extend_from_slice(&buf[..n]);
        Ok(n)
    }
    fn flush(&mut self) -> std::io::Result<()> {
        Ok(())
    }
}

pub fn roundtrip(h: &Header, oracle: &mut Vec<String>) -> String {
    let mut bytes = Vec::new();
    h.write(&mut bytes).unwrap();
    // the same image through a writer with short writes (chunk size derived from the header so that it varies)
    let max = 1 + (h.width() as usize * 7 + h.height() as usize) % 131;
    let mut sw = ShortWriter { data: vec![], max };
    match h.write(&mut sw) {
        Ok(()) => {
            if sw.data != bytes {
                oracle.push(format!(
                    "Header::write returned Ok through a writer accepting {max} bytes per call but delivered {} of {} bytes",
                    sw.data.len(),
                    bytes.len()
                ));
            }
        }
        Err(e) => oracle.push(format!("Header::write failed on a writer with short writes: {e}")),
    }
    let want = 4 + h.byte_len();
    if bytes.len() != want || (want != 128 && want != 148) || bytes[..4] != Header::MAGIC {
        oracle.push(format!("written image has {} bytes / wrong magic (expected magic + {})", bytes.len(), want - 4));
    }
    let len = data_len(h);
    let mut rr = String::new();
    let mut modes: Vec<(&str, ParseOptions)> = vec![
        ("strict", ParseOptions::default()),
        ("permissive", ParseOptions::new_permissive(None)),
    ];
    if let Some(l) = len {
        if let Some(fl) = l.checked_add(bytes.len() as u64) {
            modes.push(("permissive+file_len", ParseOptions::new_permissive(Some(fl))));
        }
    }
    for (name, o) in &modes {
        let (r, left) = read_header(&bytes, o);
        match r {
            Ok(h2) if h2 == *h && left == 0 => rr.push('1'),
            Ok(h2) => {
                rr.push('0');
                oracle.push(format!(
                    "write->read ({name}) is not the identity: wrote {} read {} ({} bytes unread)",
                    fmt_header(h),
                    fmt_header(&h2),
                    left
                ));
            }
            Err(e) => {
                rr.push('0');
                oracle.push(format!("write->read ({name}) fails: wrote {} got {}", fmt_header(h), fmt_err(&e)));
            }
        }
    }
    if modes.len() == 2 {
        rr.push('x');
    }
    // raw header: read -> write is bit-for-bit
    let mut c = Cursor::new(&bytes[4..]);
    match RawHeader::read(&mut c) {
        Ok(raw) => {
            let mut out = Vec::new();
            raw.write(&mut out).unwrap();
            if out != bytes[4..] {
                oracle.push("RawHeader read->write of a written header is not bit-for-bit".into());
            }
            if raw != h.to_raw() {
                oracle.push("RawHeader::read(write(to_raw h)) != to_raw h".into());
            }
        }
        Err(_) => oracle.push("RawHeader::read fails on a written header".into()),
    }
    let ws: Vec<String> = bytes_to_words(&bytes).iter().map(|w| w.to_string()).collect();
    format!("len={} W={} rr={}", len.map(|l| l.to_string()).unwrap_or("-".into()), ws.join(","), rr)
}

// ---------------------------------------------------------------------------------------------
// formats

macro_rules! formats {
    ($($n:ident),+) => { pub const FORMATS: &[(&str, Format)] = &[$((stringify!($n), Format::$n)),+]; };
}
formats!(
    R8G8B8_UNORM, B8G8R8_UNORM, R8G8B8A8_UNORM, R8G8B8A8_SNORM, B8G8R8A8_UNORM, B8G8R8X8_UNORM,
    B5G6R5_UNORM, B5G5R5A1_UNORM, B4G4R4A4_UNORM, A4B4G4R4_UNORM, R8_SNORM, R8_UNORM, R8G8_UNORM,
    R8G8_SNORM, A8_UNORM, R16_UNORM, R16_SNORM, R16G16_UNORM, R16G16_SNORM, R16G16B16A16_UNORM,
    R16G16B16A16_SNORM, R10G10B10A2_UNORM, R11G11B10_FLOAT, R9G9B9E5_SHAREDEXP, R16_FLOAT,
    R16G16_FLOAT, R16G16B16A16_FLOAT, R32_FLOAT, R32G32_FLOAT, R32G32B32_FLOAT, R32G32B32A32_FLOAT,
    R10G10B10_XR_BIAS_A2_UNORM, AYUV, Y410, Y416, R1_UNORM, R8G8_B8G8_UNORM, G8R8_G8B8_UNORM, UYVY,
    YUY2, Y210, Y216, NV12, P010, P016, BC1_UNORM, BC2_UNORM, BC2_UNORM_PREMULTIPLIED_ALPHA,
    BC3_UNORM, BC3_UNORM_PREMULTIPLIED_ALPHA, BC4_UNORM, BC4_SNORM, BC5_UNORM, BC5_SNORM, BC6H_UF16,
    BC6H_SF16, BC7_UNORM, ASTC_4X4_UNORM, ASTC_5X4_UNORM, ASTC_5X5_UNORM, ASTC_6X5_UNORM,
    ASTC_6X6_UNORM, ASTC_8X5_UNORM, ASTC_8X6_UNORM, ASTC_8X8_UNORM, ASTC_10X5_UNORM,
    ASTC_10X6_UNORM, ASTC_10X8_UNORM, ASTC_10X10_UNORM, ASTC_12X10_UNORM, ASTC_12X12_UNORM,
    BC3_UNORM_RXGB, BC3_UNORM_NORMAL
);

pub fn format_by_name(s: &str) -> Option<Format> {
    FORMATS.iter().find(|(n, _)| *n == s).map(|(_, f)| *f)
}
pub fn format_name(f: Format) -> &'static str {
    FORMATS.iter().find(|(_, g)| *g == f).map(|(n, _)| *n).unwrap_or("?")
}

pub const KNOWN_FOURCC: &[u32] = &[
    0x31545844, 0x32545844, 0x33545844, 0x34545844, 0x35545844, 0x42475852, 0x30315844, 0x31495441,
    0x55344342, 0x53344342, 0x32495441, 0x55354342, 0x53354342, 0x47424752, 0x42475247, 0x32595559,
    0x59565955, 36, 110, 111, 112, 113, 114, 115, 116,
];

/// (flags, bit count, r, g, b, a) of the rows of detect.rs KNOWN_PIXEL_FORMATS (inputs only)
pub const MASK_ROWS: &[(u32, u32, u32, u32, u32, u32)] = &[
    (0x2, 8, 0, 0, 0, 0xFF),
    (0x20000, 8, 0xFF, 0, 0, 0),
    (0x20040, 8, 0xFF, 0, 0, 0),
    (0x20000, 16, 0xFFFF, 0, 0, 0),
    (0x40, 16, 0xF800, 0x07E0, 0x001F, 0),
    (0x40, 32, 0xFF0000, 0xFF00, 0xFF, 0),
    (0x40, 32, 0xFFFF, 0xFFFF0000, 0, 0),
    (0x40, 16, 0xFF, 0xFF00, 0, 0),
    (0x40, 24, 0xFF0000, 0xFF00, 0xFF, 0),
    (0x40, 24, 0xFF, 0xFF00, 0xFF0000, 0),
    (0x41, 16, 0xF00, 0xF0, 0xF, 0xF000),
    (0x41, 16, 0x7C00, 0x3E0, 0x1F, 0x8000),
    (0x41, 32, 0xFF0000, 0xFF00, 0xFF, 0xFF000000),
    (0x41, 32, 0xFF, 0xFF00, 0xFF0000, 0xFF000000),
    (0x41, 32, 0x3FF00000, 0xFFC00, 0x3FF, 0xC0000000),
    (0x80000, 32, 0xFF, 0xFF00, 0xFF0000, 0xFF000000),
    (0x80000, 16, 0xFF, 0xFF00, 0, 0),
    (0x80000, 32, 0xFFFF, 0xFFFF0000, 0, 0),
    (0x20001, 16, 0xFF, 0, 0, 0xFF00),
];

// ---------------------------------------------------------------------------------------------
// run

fn run_p(t: &[&str]) -> Option<(String, Vec<String>)> {
    let o = Opts::parse(t.get(1)?, t.get(2)?)?;
    let mut ws = Vec::new();
    for s in &t[3..] {
        ws.push(p_u32(s)?);
    }
    let bytes = words_to_bytes(&ws);
    let mut oracle = vec![];
    let (r, left) = read_header(&bytes, &o.to_options());
    let mut out = match &r {
        Ok(h) => format!("ok {} rest={} {}", fmt_header(h), left / 4, roundtrip(h, &mut oracle)),
        Err(e) => fmt_err(e),
    };
    // parsing is a normalisation: write(parse(x)) parses to the same header again — under the options x was parsed
    // with (same mode, same file length; the written image always carries the magic). Seed C09i.
    if let Ok(h) = &r {
        let mut w = Vec::new();
        h.write(&mut w).unwrap();
        let mut o2 = o.to_options();
        o2.skip_magic_bytes = false;
        match read_header(&w, &o2).0 {
            Ok(h2) if h2 == *h => {}
            Ok(h2) => oracle.push(format!(
                "parse is not a normalisation under the same options: parse(x) = {} but parse(write(parse(x))) = {}",
                fmt_header(h),
                fmt_header(&h2)
            )),
            Err(e) => oracle.push(format!("write(parse(x)) does not parse under the same options: {}", fmt_err(&e))),
        }
    }
    // raw header over the same stream
    let skip = if o.skip_magic { 0 } else { 4.min(bytes.len()) };
    let mut c = Cursor::new(&bytes[skip..]);
    match RawHeader::read(&mut c) {
        Ok(raw) => {
            let used = c.position() as usize;
            let mut w = Vec::new();
            raw.write(&mut w).unwrap();
            let same = w == bytes[skip..skip + used];
            if !same {
                oracle.push("RawHeader::read -> write is not bit-for-bit on this image".into());
            }
            // and the other direction on the value
            let mut c2 = Cursor::new(&w);
            match RawHeader::read(&mut c2) {
                Ok(raw2) if raw2 == raw => {}
                _ => oracle.push("RawHeader::write -> read does not give the value back".into()),
            }
            out += &format!(" raw={}:{}", used / 4, same as u8);
        }
        Err(_) => out += " raw=eof",
    }
    Some((out, oracle))
}

pub enum Op {
    S(u32, u32),
    D(u32, u32, Option<u32>),
    M(u32),
    X,
}
pub fn parse_op(s: &str) -> Option<Op> {
    let p: Vec<&str> = s.split(':').collect();
    let n = |i: usize| -> Option<u32> { p.get(i)?.parse().ok() };
    match p[0] {
        "S" => Some(Op::S(n(1)?, n(2)?)),
        "D" => Some(Op::D(n(1)?, n(2)?, if *p.get(3)? == "-" { None } else { Some(n(3)?) })),
        "M" => Some(Op::M(n(1)?)),
        "X" => Some(Op::X),
        _ => None,
    }
}

fn run_k(t: &[&str]) -> Option<(String, Vec<String>)> {
    let f = format_by_name(t.get(2)?)?;
    let (w, h, d) = (p_u32(t.get(3)?)?, p_u32(t.get(4)?)?, p_u32(t.get(5)?)?);
    let mut ops = vec![];
    for s in &t[6..] {
        ops.push(parse_op(s)?);
    }
    let ctor = t[1].to_string();
    let built = std::panic::catch_unwind(move || {
        let mut hd = match ctor.as_str() {
            "I" => Header::new_image(w, h, f),
            "V" => Header::new_volume(w, h, d, f),
            _ => Header::new_cube_map(w, h, f),
        };
        for op in ops {
            hd = match op {
                Op::S(a, b) => hd.with_size(Size::new(a, b)),
                Op::D(a, b, c) => hd.with_dimensions(a, b, c),
                Op::M(0) => return None,
                Op::M(m) => hd.with_mipmap_count(m),
                Op::X => hd.with_mipmaps(),
            };
        }
        Some(hd)
    });
    if !matches!(t[1], "I" | "V" | "C") {
        return None;
    }
    let mut oracle = vec![];
    let out = match built {
        Ok(Some(hd)) => format!("ok {} {}", fmt_header(&hd), roundtrip(&hd, &mut oracle)),
        Ok(None) => "panic-mip0".to_string(),
        Err(e) => {
            oracle.push(format!("constructor/builder chain panicked: {}", panic_msg(&e)));
            "panic".to_string()
        }
    };
    Some((out, oracle))
}

fn parse_pf(p: &[&str]) -> Option<Dx9PixelFormat> {
    let n = |i: usize| -> Option<u32> { p.get(i)?.parse().ok() };
    match *p.first()? {
        "F" if p.len() == 2 => Some(Dx9PixelFormat::FourCC(FourCC(n(1)?))),
        "M" if p.len() == 7 => Some(Dx9PixelFormat::Mask(MaskPixelFormat {
            flags: PixelFormatFlags::from_bits_retain(n(1)?),
            rgb_bit_count: RgbBitCount::try_from(n(2)?).ok()?,
            r_bit_mask: n(3)?,
            g_bit_mask: n(4)?,
            b_bit_mask: n(5)?,
            a_bit_mask: n(6)?,
        })),
        _ => None,
    }
}

/// what a DDS file can express: not the DX10 marker as a DX9 four CC, no FOURCC flag on a mask format, and a 3D
/// texture only with array size 1 (everything else the struct-level setters build must survive serialisation)
fn expressible(h: &Header) -> bool {
    match h {
        Header::Dx9(x) => match &x.pixel_format {
            Dx9PixelFormat::FourCC(c) => *c != FourCC::DX10,
            Dx9PixelFormat::Mask(m) => !m.flags.contains(PixelFormatFlags::FOURCC),
        },
        Header::Dx10(x) => !(x.resource_dimension == ResourceDimension::Texture3D && x.array_size != 1),
    }
}

fn run_ks(t: &[&str]) -> Option<(String, Vec<String>)> {
    let ctor = *t.get(1)?;
    if !matches!(ctor, "I" | "V" | "C") {
        return None;
    }
    let st: Vec<&str> = t.get(2)?.split(':').collect();
    let (w, h, d) = (p_u32(t.get(3)?)?, p_u32(t.get(4)?)?, p_u32(t.get(5)?)?);
    let mut hd = match *st.first()? {
        "9" => {
            let pf = parse_pf(&st[1..])?;
            Header::Dx9(match ctor {
                "I" => Dx9Header::new_image(w, h, pf),
                "V" => Dx9Header::new_volume(w, h, d, pf),
                _ => Dx9Header::new_cube_map(w, h, pf),
            })
        }
        "10" if st.len() == 2 => {
            let f = dxgi_by_code(p_u32(st[1])?)?;
            Header::Dx10(match ctor {
                "I" => Dx10Header::new_image(w, h, f),
                "V" => Dx10Header::new_volume(w, h, d, f),
                _ => Dx10Header::new_cube_map(w, h, f),
            })
        }
        _ => return None,
    };
    for s in &t[6..] {
        let p: Vec<&str> = s.split(':').collect();
        let n = |i: usize| -> Option<u32> { p.get(i)?.parse().ok() };
        let od = |i: usize| -> Option<Option<u32>> {
            let x = p.get(i)?;
            if *x == "-" {
                Some(None)
            } else {
                Some(Some(x.parse().ok()?))
            }
        };
        hd = match (hd, *p.first()?) {
            (Header::Dx9(x), "S") if p.len() == 3 => Header::Dx9(x.with_size(Size::new(n(1)?, n(2)?))),
            (Header::Dx9(x), "D") if p.len() == 4 => Header::Dx9(x.with_dimensions(n(1)?, n(2)?, od(3)?)),
            (Header::Dx9(x), "M") if p.len() == 2 => Header::Dx9(x.with_mipmap_count(NonZeroU32::new(n(1)?)?)),
            (Header::Dx9(x), "C") if p.len() == 2 => {
                let f: u32 = n(1)?;
                if f > 255 {
                    return None;
                }
                Header::Dx9(x.with_cube_map_faces(CubeMapFaces::from_bits_retain(f as u8)))
            }
            (Header::Dx9(x), "P") => Header::Dx9(x.with_pixel_format(parse_pf(&p[1..])?)),
            (Header::Dx10(x), "S") if p.len() == 3 => Header::Dx10(x.with_size(Size::new(n(1)?, n(2)?))),
            (Header::Dx10(x), "D") if p.len() == 4 => Header::Dx10(x.with_dimensions(n(1)?, n(2)?, od(3)?)),
            (Header::Dx10(x), "M") if p.len() == 2 => Header::Dx10(x.with_mipmap_count(NonZeroU32::new(n(1)?)?)),
            (Header::Dx10(x), "G") if p.len() == 2 => Header::Dx10(x.with_dxgi_format(dxgi_by_code(n(1)?)?)),
            (Header::Dx10(x), "R") if p.len() == 2 => {
                Header::Dx10(x.with_resource_dimension(ResourceDimension::try_from(n(1)?).ok()?))
            }
            (Header::Dx10(x), "Q") if p.len() == 2 => Header::Dx10(x.with_misc_flags(MiscFlags::from_bits_retain(n(1)?))),
            (Header::Dx10(x), "A") if p.len() == 2 => Header::Dx10(x.with_array_size(n(1)?)),
            (Header::Dx10(x), "L") if p.len() == 2 => Header::Dx10(x.with_alpha_mode(AlphaMode::try_from(n(1)?).ok()?)),
            _ => return None,
        };
    }
    let mut oracle = vec![];
    let mut scratch = vec![];
    let rr = if expressible(&hd) { roundtrip(&hd, &mut oracle) } else { roundtrip(&hd, &mut scratch) };
    Some((format!("ok {} {}", fmt_header(&hd), rr), oracle))
}

fn same_shape(a: &Header, b: &Header) -> bool {
    a.width() == b.width() && a.height() == b.height() && a.depth() == b.depth() && a.mipmap_count() == b.mipmap_count()
}

fn run_x(t: &[&str]) -> Option<(String, Vec<String>)> {
    let h = parse_header(t.get(1)?)?;
    let mut oracle = vec![];
    let d9 = h.to_dx9().map(Header::Dx9);
    let d10 = h.to_dx10().map(Header::Dx10);
    let f = |x: &Option<Header>| x.as_ref().map(fmt_header).unwrap_or("-".into());
    let fpx = |x: &Option<Header>| x.as_ref().map(|y| fmt_px(px_of(y))).unwrap_or("-".into());
    let fl = |x: &Option<Header>| x.as_ref().map(fmt_layout).unwrap_or("-".into());
    for (name, c) in [("to_dx9", &d9), ("to_dx10", &d10)] {
        if let Some(c) = c {
            if !same_shape(&h, c) {
                oracle.push(format!("{name} changes dimensions or mip count: {} -> {}", fmt_header(&h), fmt_header(c)));
            }
            if px_of(&h) != px_of(c) {
                oracle.push(format!("{name} changes the pixel info: {} -> {}", fmt_px(px_of(&h)), fmt_px(px_of(c))));
            }
            // 2D, cube and volume resources keep the data layout (1D resources are flattened to
            // height 1 only in the DX10 form)
            let is_1d = matches!(&h, Header::Dx10(x) if x.resource_dimension == ResourceDimension::Texture1D);
            if !is_1d {
                let (la, lb) = (DataLayout::from_header(&h).ok(), DataLayout::from_header(c).ok());
                if la != lb {
                    oracle.push(format!("{name} changes the data layout: {} -> {}", fmt_layout(&h), fmt_layout(c)));
                }
            }
        }
    }
    // converting a header to its own form is the identity
    match &h {
        Header::Dx9(_) if d9.as_ref() != Some(&h) => oracle.push("to_dx9 of a DX9 header is not the identity".into()),
        Header::Dx10(_) if d10.as_ref() != Some(&h) => oracle.push("to_dx10 of a DX10 header is not the identity".into()),
        _ => {}
    }
    let out = format!(
        "d9={} d10={} px={} px9={} px10={} lay={} lay9={} lay10={}",
        f(&d9),
        f(&d10),
        fmt_px(px_of(&h)),
        fpx(&d9),
        fpx(&d10),
        fmt_layout(&h),
        fl(&d9),
        fl(&d10)
    );
    Some((out, oracle))
}

fn fmt_pf(p: &Dx9PixelFormat) -> String {
    let h = Header::Dx9(Dx9Header::new_image(1, 1, p.clone()));
    let s = fmt_header(&h);
    // strip "9:1:1:-:1:0:"
    s.splitn(7, ':').nth(6).unwrap().to_string()
}

fn run_td(t: &[&str]) -> Option<(String, Vec<String>)> {
    let code = p_u32(t.get(1)?)?;
    let out = match DxgiFormat::try_from(code) {
        Err(_) => "invalid".to_string(),
        Ok(d) => {
            let px = PixelInfo::try_from(d).ok();
            let to9 = Dx10Header::new_image(1, 1, d).with_alpha_mode(AlphaMode::Unknown).to_dx9();
            let to9p = Dx10Header::new_image(1, 1, d).with_alpha_mode(AlphaMode::Premultiplied).to_dx9();
            format!(
                "valid px={} lin={} alpha={} fmt={} to9={} to9p={}",
                fmt_px(px),
                u32::from(d.to_linear()),
                d.has_alpha() as u8,
                Format::from_dxgi(d).map(format_name).unwrap_or("-"),
                to9.map(|x| fmt_pf(&x.pixel_format)).unwrap_or("-".into()),
                to9p.map(|x| fmt_pf(&x.pixel_format)).unwrap_or("-".into()),
            )
        }
    };
    // "forall DxgiFormat (all 162 valid codes)": a header built from a named public constant must be readable again,
    // which needs `try_from` (used by `from_raw`) to accept the constant's code, and `u32::from` to give it back
    let mut oracle = vec![];
    if let Some((_, d)) = DXGI_CONSTS.iter().find(|(c, _)| *c == code) {
        if u32::from(*d) != code {
            oracle.push(format!("the named DxgiFormat constant of code {code} converts to {}", u32::from(*d)));
        }
        if DxgiFormat::try_from(code).is_err() {
            oracle.push(format!(
                "DxgiFormat::try_from rejects code {code}, which is a named public constant: a header built with it is written but cannot be read back"
            ));
        }
        let h = Header::Dx10(Dx10Header::new_image(4, 4, *d));
        let _ = roundtrip(&h, &mut oracle);
    }
    Some((out, oracle))
}

fn run_tf(t: &[&str]) -> Option<(String, Vec<String>)> {
    let c = FourCC(p_u32(t.get(1)?)?);
    let h = Header::Dx9(Dx9Header::new_image(1, 1, Dx9PixelFormat::FourCC(c)));
    let out = format!(
        "fmt={} px={} dxgi={} alpha={}",
        Format::from_four_cc(c).map(format_name).unwrap_or("-"),
        fmt_px(px_of(&h)),
        h.to_dx10().map(|x| u32::from(x.dxgi_format).to_string()).unwrap_or("-".into()),
        u32::from(h.alpha_mode()),
    );
    Some((out, vec![]))
}

fn run_tm(t: &[&str]) -> Option<(String, Vec<String>)> {
    let f = format_by_name(t.get(1)?)?;
    let out = format!(
        "dxgi={} fcc={} mask={} px={}",
        DxgiFormat::try_from(f).map(|d| u32::from(d).to_string()).unwrap_or("-".into()),
        FourCC::try_from(f).map(|c| c.0.to_string()).unwrap_or("-".into()),
        MaskPixelFormat::try_from(f).map(|m| fmt_pf(&Dx9PixelFormat::Mask(m))).unwrap_or("-".into()),
        fmt_px(Some(PixelInfo::from(f))),
    );
    Some((out, vec![]))
}

pub fn run(line: &str) -> Option<(String, Vec<String>)> {
    let t = toks(line);
    match *t.first()? {
        "P" => run_p(&t),
        "K" => run_k(&t),
        "KS" => run_ks(&t),
        "X" => run_x(&t),
        "TD" => run_td(&t),
        "TF" => run_tf(&t),
        "TM" => run_tm(&t),
        _ => None,
    }
}

// ---------------------------------------------------------------------------------------------
// generation

pub const W_SIZE: usize = 1;
pub const W_FLAGS: usize = 2;
pub const W_HEIGHT: usize = 3;
pub const W_WIDTH: usize = 4;
pub const W_PITCH: usize = 5;
pub const W_DEPTH: usize = 6;
pub const W_MIPS: usize = 7;
pub const W_PF_SIZE: usize = 19;
pub const W_PF_FLAGS: usize = 20;
pub const W_FOURCC: usize = 21;
pub const W_BITCOUNT: usize = 22;
pub const W_RMASK: usize = 23;
pub const W_CAPS: usize = 27;
pub const W_CAPS2: usize = 28;
pub const W_DXGI: usize = 32;
pub const W_DIM: usize = 33;
pub const W_MISC: usize = 34;
pub const W_ARRAY: usize = 35;
pub const W_MISC2: usize = 36;

pub fn p_line(opt: &str, fl: Option<u64>, ws: &[u32]) -> String {
    let w: Vec<String> = ws.iter().map(|x| x.to_string()).collect();
    format!("P {} {} {}", opt, fl.map(|x| x.to_string()).unwrap_or("-".into()), w.join(" "))
}

/// the true file length of a word image, if it parses strictly and has a layout
pub fn true_len(ws: &[u32]) -> Option<u64> {
    let bytes = words_to_bytes(ws);
    let (r, left) = read_header(&bytes, &ParseOptions::default());
    let h = r.ok()?;
    Some((bytes.len() - left) as u64 + data_len(&h)?)
}

pub fn small_dim(rng: &mut Rng) -> u32 {
    match rng.below(8) {
        0 => 1,
        1 => rng.range(1, 8) as u32,
        2 => 1 << rng.below(10),
        3 => (1 << rng.below(10)) + 1,
        4 => rng.range(1, 70) as u32,
        5 => rng.range(1, 300) as u32,
        6 => rng.range(1, 2100) as u32,
        _ => rng.range(1, 17) as u32,
    }
}

/// the named public constants of `DxgiFormat` (the 162 valid codes of the DDS specification), independent of
/// `DxgiFormat::try_from`: a code that is rejected although it has a constant is a failing input, not a bad case
pub const DXGI_CONSTS: &[(u32, DxgiFormat)] = &[
    (0, DxgiFormat::UNKNOWN),
    (1, DxgiFormat::R32G32B32A32_TYPELESS),
    (2, DxgiFormat::R32G32B32A32_FLOAT),
    (3, DxgiFormat::R32G32B32A32_UINT),
    (4, DxgiFormat::R32G32B32A32_SINT),
    (5, DxgiFormat::R32G32B32_TYPELESS),
    (6, DxgiFormat::R32G32B32_FLOAT),
    (7, DxgiFormat::R32G32B32_UINT),
    (8, DxgiFormat::R32G32B32_SINT),
    (9, DxgiFormat::R16G16B16A16_TYPELESS),
    (10, DxgiFormat::R16G16B16A16_FLOAT),
    (11, DxgiFormat::R16G16B16A16_UNORM),
    (12, DxgiFormat::R16G16B16A16_UINT),
    (13, DxgiFormat::R16G16B16A16_SNORM),
    (14, DxgiFormat::R16G16B16A16_SINT),
    (15, DxgiFormat::R32G32_TYPELESS),
    (16, DxgiFormat::R32G32_FLOAT),
    (17, DxgiFormat::R32G32_UINT),
    (18, DxgiFormat::R32G32_SINT),
    (19, DxgiFormat::R32G8X24_TYPELESS),
    (20, DxgiFormat::D32_FLOAT_S8X24_UINT),
    (21, DxgiFormat::R32_FLOAT_X8X24_TYPELESS),
    (22, DxgiFormat::X32_TYPELESS_G8X24_UINT),
    (23, DxgiFormat::R10G10B10A2_TYPELESS),
    (24, DxgiFormat::R10G10B10A2_UNORM),
    (25, DxgiFormat::R10G10B10A2_UINT),
    (26, DxgiFormat::R11G11B10_FLOAT),
    (27, DxgiFormat::R8G8B8A8_TYPELESS),
    (28, DxgiFormat::R8G8B8A8_UNORM),
    (29, DxgiFormat::R8G8B8A8_UNORM_SRGB),
    (30, DxgiFormat::R8G8B8A8_UINT),
    (31, DxgiFormat::R8G8B8A8_SNORM),
    (32, DxgiFormat::R8G8B8A8_SINT),
    (33, DxgiFormat::R16G16_TYPELESS),
    (34, DxgiFormat::R16G16_FLOAT),
    (35, DxgiFormat::R16G16_UNORM),
    (36, DxgiFormat::R16G16_UINT),
    (37, DxgiFormat::R16G16_SNORM),
    (38, DxgiFormat::R16G16_SINT),
    (39, DxgiFormat::R32_TYPELESS),
    (40, DxgiFormat::D32_FLOAT),
    (41, DxgiFormat::R32_FLOAT),
    (42, DxgiFormat::R32_UINT),
    (43, DxgiFormat::R32_SINT),
    (44, DxgiFormat::R24G8_TYPELESS),
    (45, DxgiFormat::D24_UNORM_S8_UINT),
    (46, DxgiFormat::R24_UNORM_X8_TYPELESS),
    (47, DxgiFormat::X24_TYPELESS_G8_UINT),
    (48, DxgiFormat::R8G8_TYPELESS),
    (49, DxgiFormat::R8G8_UNORM),
    (50, DxgiFormat::R8G8_UINT),
    (51, DxgiFormat::R8G8_SNORM),
    (52, DxgiFormat::R8G8_SINT),
    (53, DxgiFormat::R16_TYPELESS),
    (54, DxgiFormat::R16_FLOAT),
    (55, DxgiFormat::D16_UNORM),
    (56, DxgiFormat::R16_UNORM),
    (57, DxgiFormat::R16_UINT),
    (58, DxgiFormat::R16_SNORM),
    (59, DxgiFormat::R16_SINT),
    (60, DxgiFormat::R8_TYPELESS),
    (61, DxgiFormat::R8_UNORM),
    (62, DxgiFormat::R8_UINT),
    (63, DxgiFormat::R8_SNORM),
    (64, DxgiFormat::R8_SINT),
    (65, DxgiFormat::A8_UNORM),
    (66, DxgiFormat::R1_UNORM),
    (67, DxgiFormat::R9G9B9E5_SHAREDEXP),
    (68, DxgiFormat::R8G8_B8G8_UNORM),
    (69, DxgiFormat::G8R8_G8B8_UNORM),
    (70, DxgiFormat::BC1_TYPELESS),
    (71, DxgiFormat::BC1_UNORM),
    (72, DxgiFormat::BC1_UNORM_SRGB),
    (73, DxgiFormat::BC2_TYPELESS),
    (74, DxgiFormat::BC2_UNORM),
    (75, DxgiFormat::BC2_UNORM_SRGB),
    (76, DxgiFormat::BC3_TYPELESS),
    (77, DxgiFormat::BC3_UNORM),
    (78, DxgiFormat::BC3_UNORM_SRGB),
    (79, DxgiFormat::BC4_TYPELESS),
    (80, DxgiFormat::BC4_UNORM),
    (81, DxgiFormat::BC4_SNORM),
    (82, DxgiFormat::BC5_TYPELESS),
    (83, DxgiFormat::BC5_UNORM),
    (84, DxgiFormat::BC5_SNORM),
    (85, DxgiFormat::B5G6R5_UNORM),
    (86, DxgiFormat::B5G5R5A1_UNORM),
    (87, DxgiFormat::B8G8R8A8_UNORM),
    (88, DxgiFormat::B8G8R8X8_UNORM),
    (89, DxgiFormat::R10G10B10_XR_BIAS_A2_UNORM),
    (90, DxgiFormat::B8G8R8A8_TYPELESS),
    (91, DxgiFormat::B8G8R8A8_UNORM_SRGB),
    (92, DxgiFormat::B8G8R8X8_TYPELESS),
    (93, DxgiFormat::B8G8R8X8_UNORM_SRGB),
    (94, DxgiFormat::BC6H_TYPELESS),
    (95, DxgiFormat::BC6H_UF16),
    (96, DxgiFormat::BC6H_SF16),
    (97, DxgiFormat::BC7_TYPELESS),
    (98, DxgiFormat::BC7_UNORM),
    (99, DxgiFormat::BC7_UNORM_SRGB),
    (100, DxgiFormat::AYUV),
    (101, DxgiFormat::Y410),
    (102, DxgiFormat::Y416),
    (103, DxgiFormat::NV12),
    (104, DxgiFormat::P010),
    (105, DxgiFormat::P016),
    (106, DxgiFormat::OPAQUE_420),
    (107, DxgiFormat::YUY2),
    (108, DxgiFormat::Y210),
    (109, DxgiFormat::Y216),
    (110, DxgiFormat::NV11),
    (111, DxgiFormat::AI44),
    (112, DxgiFormat::IA44),
    (113, DxgiFormat::P8),
    (114, DxgiFormat::A8P8),
    (115, DxgiFormat::B4G4R4A4_UNORM),
    (130, DxgiFormat::P208),
    (131, DxgiFormat::V208),
    (132, DxgiFormat::V408),
    (133, DxgiFormat::ASTC_4X4_TYPELESS),
    (134, DxgiFormat::ASTC_4X4_UNORM),
    (135, DxgiFormat::ASTC_4X4_UNORM_SRGB),
    (137, DxgiFormat::ASTC_5X4_TYPELESS),
    (138, DxgiFormat::ASTC_5X4_UNORM),
    (139, DxgiFormat::ASTC_5X4_UNORM_SRGB),
    (141, DxgiFormat::ASTC_5X5_TYPELESS),
    (142, DxgiFormat::ASTC_5X5_UNORM),
    (143, DxgiFormat::ASTC_5X5_UNORM_SRGB),
    (145, DxgiFormat::ASTC_6X5_TYPELESS),
    (146, DxgiFormat::ASTC_6X5_UNORM),
    (147, DxgiFormat::ASTC_6X5_UNORM_SRGB),
    (149, DxgiFormat::ASTC_6X6_TYPELESS),
    (150, DxgiFormat::ASTC_6X6_UNORM),
    (151, DxgiFormat::ASTC_6X6_UNORM_SRGB),
    (153, DxgiFormat::ASTC_8X5_TYPELESS),
    (154, DxgiFormat::ASTC_8X5_UNORM),
    (155, DxgiFormat::ASTC_8X5_UNORM_SRGB),
    (157, DxgiFormat::ASTC_8X6_TYPELESS),
    (158, DxgiFormat::ASTC_8X6_UNORM),
    (159, DxgiFormat::ASTC_8X6_UNORM_SRGB),
    (161, DxgiFormat::ASTC_8X8_TYPELESS),
    (162, DxgiFormat::ASTC_8X8_UNORM),
    (163, DxgiFormat::ASTC_8X8_UNORM_SRGB),
    (165, DxgiFormat::ASTC_10X5_TYPELESS),
    (166, DxgiFormat::ASTC_10X5_UNORM),
    (167, DxgiFormat::ASTC_10X5_UNORM_SRGB),
    (169, DxgiFormat::ASTC_10X6_TYPELESS),
    (170, DxgiFormat::ASTC_10X6_UNORM),
    (171, DxgiFormat::ASTC_10X6_UNORM_SRGB),
    (173, DxgiFormat::ASTC_10X8_TYPELESS),
    (174, DxgiFormat::ASTC_10X8_UNORM),
    (175, DxgiFormat::ASTC_10X8_UNORM_SRGB),
    (177, DxgiFormat::ASTC_10X10_TYPELESS),
    (178, DxgiFormat::ASTC_10X10_UNORM),
    (179, DxgiFormat::ASTC_10X10_UNORM_SRGB),
    (181, DxgiFormat::ASTC_12X10_TYPELESS),
    (182, DxgiFormat::ASTC_12X10_UNORM),
    (183, DxgiFormat::ASTC_12X10_UNORM_SRGB),
    (185, DxgiFormat::ASTC_12X12_TYPELESS),
    (186, DxgiFormat::ASTC_12X12_UNORM),
    (187, DxgiFormat::ASTC_12X12_UNORM_SRGB),
    (191, DxgiFormat::A4B4G4R4_UNORM),
];

pub fn dxgi_by_code(code: u32) -> Option<DxgiFormat> {
    DXGI_CONSTS.iter().find(|(c, _)| *c == code).map(|(_, d)| *d).or_else(|| DxgiFormat::try_from(code).ok())
}

pub fn valid_dxgi_codes() -> Vec<u32> {
    (0..256).filter(|c| dxgi_by_code(*c).is_some()).collect()
}

/// a random well-formed header with a plausible (small) geometry
pub fn random_header(rng: &mut Rng, dxgi: &[u32]) -> Header {
    let (w, h) = (small_dim(rng), small_dim(rng));
    let full = 32 - w.max(h).leading_zeros();
    let mips = match rng.below(5) {
        0 | 1 => 1,
        2 => full,
        3 => rng.range(1, full as u64) as u32,
        _ => rng.range(1, 14) as u32,
    };
    let depth = if rng.chance(1, 3) { Some(rng.range(1, 9) as u32) } else { None };
    let mipmap_count = NonZeroU32::new(mips.max(1)).unwrap();
    if rng.chance(1, 2) {
        let vol = rng.chance(1, 4);
        let cube = !vol && rng.chance(1, 3);
        Header::Dx10(Dx10Header {
            width: w,
            height: h,
            depth: if vol { Some(depth.unwrap_or(3)) } else { depth.filter(|_| rng.chance(1, 8)) },
            mipmap_count,
            dxgi_format: dxgi_by_code(*rng.pick(dxgi)).unwrap(),
            resource_dimension: if vol {
                ResourceDimension::Texture3D
            } else if rng.chance(1, 8) {
                ResourceDimension::Texture1D
            } else {
                ResourceDimension::Texture2D
            },
            misc_flag: MiscFlags::from_bits_retain(if cube { 4 } else { 0 }),
            array_size: if vol { 1 } else { *rng.pick(&[0, 1, 1, 1, 2, 3, 6, 7]) },
            alpha_mode: AlphaMode::try_from(rng.below(5) as u32).unwrap(),
        })
    } else {
        let pf = if rng.chance(1, 2) {
            Dx9PixelFormat::FourCC(FourCC(*rng.pick(&KNOWN_FOURCC.iter().copied().filter(|c| *c != 0x30315844).collect::<Vec<_>>())))
        } else {
            let r = *rng.pick(MASK_ROWS);
            Dx9PixelFormat::Mask(MaskPixelFormat {
                flags: PixelFormatFlags::from_bits_retain(r.0),
                rgb_bit_count: RgbBitCount::try_from(r.1).unwrap(),
                r_bit_mask: r.2,
                g_bit_mask: r.3,
                b_bit_mask: r.4,
                a_bit_mask: r.5,
            })
        };
        let caps2 = match rng.below(6) {
            0 => 0x200000,
            1 => 0xFE00,
            // a cube map with one of the 63 non-empty face sets (the flag without any face is covered by the raw cases)
            2 => 0x200 | ((rng.range(1, 63) as u32) << 10),
            _ => 0,
        };
        Header::Dx9(Dx9Header {
            width: w,
            height: h,
            depth: if caps2 == 0x200000 { Some(depth.unwrap_or(2)) } else { depth.filter(|_| rng.chance(1, 8)) },
            mipmap_count,
            caps2: Caps2::from_bits_retain(caps2),
            pixel_format: pf,
        })
    }
}

fn field_values(rng: &mut Rng, bset: &[u32]) -> u32 {
    any_u32(rng, bset)
}

const OPTS: &[&str] = &["s", "p"];

pub fn gen(seed: u64, thorough: bool) -> Vec<String> {
    let mut rng = Rng::new(seed ^ 0xC09);
    let bset = boundary_u32();
    let dxgi = valid_dxgi_codes();
    let mut out = vec![];

    // ---- tables: exhaustive
    for c in 0..=300u32 {
        out.push(format!("TD {c}"));
    }
    for c in [u32::MAX, 1 << 8, (1 << 8) + 28, 0x1_0000 + 71, 1 << 31] {
        out.push(format!("TD {c}"));
    }
    for c in KNOWN_FOURCC {
        out.push(format!("TF {c}"));
        out.push(format!("TF {}", c ^ 0x20)); // case flipped in the first byte
        out.push(format!("TF {}", c.wrapping_add(1)));
    }
    for c in 0..130u32 {
        out.push(format!("TF {c}"));
    }
    for _ in 0..100 {
        out.push(format!("TF {}", any_u32(&mut rng, &bset)));
    }
    for (n, _) in FORMATS {
        out.push(format!("TM {n}"));
    }

    // ---- constructors x builder chains
    let dims: &[u32] = &[0, 1, 2, 3, 4, 5, 7, 8, 15, 16, 17, 255, 256, 257, 1023, 1024, 65535, 65536, 0x7FFF_FFFF, 0x8000_0000, u32::MAX];
    for (n, _) in FORMATS {
        for ctor in ["I", "V", "C"] {
            out.push(format!("K {ctor} {n} 16 9 5"));
            out.push(format!("K {ctor} {n} 16 9 5 X"));
            out.push(format!("K {ctor} {n} 1 1 1 M:3 S:7:300"));
            out.push(format!("K {ctor} {n} 4 4 4 D:5:6:7 X"));
            out.push(format!("K {ctor} {n} 4 4 4 D:5:6:- M:4294967295"));
        }
    }
    for &w in dims {
        for &h in &[0u32, 1, 3, 256, u32::MAX] {
            for &d in &[0u32, 1, 4, 100_000, u32::MAX] {
                let f = rng.pick(FORMATS).0;
                let ctor = *rng.pick(&["I", "V", "C"]);
                out.push(format!("K {ctor} {f} {w} {h} {d} X"));
                out.push(format!("K {ctor} {f} 2 2 2 D:{w}:{h}:{d} X"));
            }
        }
    }
    out.push("K I BC1_UNORM 4 4 1 M:0".into());
    out.push("K V R8_UNORM 4 4 1 X M:0 X".into());
    let nk = if thorough { 60_000 } else { 3_000 };
    for _ in 0..nk {
        let f = rng.pick(FORMATS).0;
        let ctor = *rng.pick(&["I", "V", "C"]);
        let mut l = format!(
            "K {ctor} {f} {} {} {}",
            any_u32(&mut rng, &bset),
            any_u32(&mut rng, &bset),
            any_u32(&mut rng, &bset)
        );
        for _ in 0..rng.below(5) {
            let (a, b, c) = (any_u32(&mut rng, &bset), any_u32(&mut rng, &bset), any_u32(&mut rng, &bset));
            l += &match rng.below(5) {
                0 => format!(" S:{a}:{b}"),
                1 => format!(" D:{a}:{b}:{c}"),
                2 => format!(" D:{a}:{b}:-"),
                3 => format!(" M:{}", if rng.chance(1, 30) { 0 } else { c.max(1) }),
                _ => " X".to_string(),
            };
        }
        out.push(l);
    }

    // ---- struct-level constructors x setter chains (Dx9Header / Dx10Header builder methods)
    let masks: Vec<String> = FORMATS
        .iter()
        .filter_map(|(_, f)| match Header::new_image(1, 1, *f) {
            Header::Dx9(x) => match x.pixel_format {
                Dx9PixelFormat::Mask(m) => Some(format!(
                    "M:{}:{}:{}:{}:{}:{}",
                    m.flags.bits(),
                    u32::from(m.rgb_bit_count),
                    m.r_bit_mask,
                    m.g_bit_mask,
                    m.b_bit_mask,
                    m.a_bit_mask
                )),
                _ => None,
            },
            _ => None,
        })
        .collect();
    let any_pf = |rng: &mut Rng| -> String {
        match rng.below(10) {
            0..=3 => format!("F:{}", rng.pick(KNOWN_FOURCC)),
            4 => format!("F:{}", any_u32(rng, &bset)),
            5..=7 if !masks.is_empty() => rng.pick(&masks).clone(),
            _ => format!(
                "M:{}:{}:{}:{}:{}:{}",
                any_u32(rng, &bset) & !if rng.chance(9, 10) { 4 } else { 0 },
                rng.pick(&[8u32, 16, 24, 32]),
                any_u32(rng, &bset),
                any_u32(rng, &bset),
                any_u32(rng, &bset),
                any_u32(rng, &bset)
            ),
        }
    };
    for &c in &dxgi {
        for ctor in ["I", "V", "C"] {
            out.push(format!("KS {ctor} 10:{c} 16 9 5"));
            out.push(format!("KS {ctor} 10:28 16 9 5 G:{c}"));
        }
        out.push(format!("KS I 10:{c} 8 8 1 A:6 Q:4 M:4 L:{}", c % 5));
        out.push(format!("KS V 10:{c} 8 8 4 R:{} A:{}", 2 + c % 3, c % 3));
    }
    for f in 0..256u32 {
        out.push(format!("KS {} 9:F:{} 8 8 2 C:{f}", ["I", "V", "C"][(f % 3) as usize], KNOWN_FOURCC[(f as usize) % KNOWN_FOURCC.len()]));
    }
    for m in &masks {
        out.push(format!("KS I 9:{m} 7 5 1 M:3"));
        out.push(format!("KS C 9:F:{} 7 5 1 P:{m} C:21", KNOWN_FOURCC[0]));
    }
    let nks = if thorough { 60_000 } else { 4_000 };
    for _ in 0..nks {
        let ctor = *rng.pick(&["I", "V", "C"]);
        let dx10 = rng.chance(1, 2);
        let start = if dx10 { format!("10:{}", rng.pick(&dxgi)) } else { format!("9:{}", any_pf(&mut rng)) };
        let mut l = format!(
            "KS {ctor} {start} {} {} {}",
            any_u32(&mut rng, &bset),
            any_u32(&mut rng, &bset),
            any_u32(&mut rng, &bset)
        );
        for _ in 0..rng.below(6) {
            let (a, b, c) = (any_u32(&mut rng, &bset), any_u32(&mut rng, &bset), any_u32(&mut rng, &bset));
            l += &match (rng.below(8), dx10) {
                (0, _) => format!(" S:{a}:{b}"),
                (1, _) => format!(" D:{a}:{b}:{c}"),
                (2, _) => format!(" D:{a}:{b}:-"),
                (3, _) => format!(" M:{}", c.max(1)),
                (4, false) | (5, false) => format!(" C:{}", a % 256),
                (_, false) => format!(" P:{}", any_pf(&mut rng)),
                (4, true) => format!(" G:{}", rng.pick(&dxgi)),
                (5, true) => format!(" R:{}", 2 + a % 3),
                (6, true) => {
                    if rng.chance(1, 2) {
                        format!(" Q:{}", [0u32, 4, 4, 1, 5, b][rng.below(6) as usize])
                    } else {
                        format!(" L:{}", a % 5)
                    }
                }
                (_, true) => format!(" A:{}", [0u32, 1, 1, 2, 6, 12, c][rng.below(7) as usize]),
            };
        }
        out.push(l);
    }

    // ---- raw word images
    let base10 = header_words(&Header::new_image(20, 12, Format::BC1_UNORM).with_mipmap_count(3));
    let base9f = header_words(&Header::new_image(20, 12, Format::BC3_UNORM_RXGB).with_mipmap_count(3));
    let base9m = header_words(&Header::new_image(20, 12, Format::B8G8R8_UNORM).with_mipmap_count(3));
    let basev = header_words(&Header::new_volume(8, 8, 4, Format::R8G8B8A8_UNORM).with_mipmaps());
    let basec = header_words(&Header::new_cube_map(8, 8, Format::BC7_UNORM));
    let bases = [&base10, &base9f, &base9m, &basev, &basec];
    let bvals: Vec<u32> = {
        let mut v = vec![0u32, 1, 2, 3, 4, 5, 6, 7, 8, 16, 24, 31, 32, 33, 124, 125, 255, 256, 257];
        for k in [15u32, 16, 24, 31] {
            v.push((1 << k) - 1);
            v.push(1 << k);
        }
        v.push(u32::MAX);
        v.push(u32::MAX - 1);
        v
    };
    // every word of every base set to every boundary value, all modes
    for b in bases {
        for i in 0..b.len() {
            for &v in &bvals {
                let mut ws = (*b).clone();
                ws[i] = v;
                let tl = true_len(&ws);
                let o = OPTS[(i + v as usize) % 2];
                out.push(p_line(o, None, &ws));
                if (i + v as usize) % 3 == 0 {
                    out.push(p_line("p", tl.or(Some(128 + 4 * v as u64)), &ws));
                }
            }
        }
        // truncation at every word count, with and without magic
        for n in 0..=b.len() {
            out.push(p_line(OPTS[n % 2], None, &b[..n]));
            if n >= 1 {
                out.push(p_line(["S", "P"][n % 2], None, &b[1..n]));
            }
        }
        // trailing data words stay unread
        let mut ws = (*b).clone();
        ws.extend_from_slice(&[1, 2, 3, 4, 5, 6, 7]);
        out.push(p_line("s", None, &ws));
        out.push(p_line("p", Some(4 * ws.len() as u64), &ws));
        // wrong magic
        let mut ws = (*b).clone();
        ws[0] ^= 0x100;
        out.push(p_line("s", None, &ws));
        out.push(p_line("S", None, &ws));
    }
    // all flag combinations that parsing looks at
    for depth in [0u32, 0x800000] {
        for mc in [0u32, 0x20000] {
            for caps in [0u32, 0x8, 0x400000, 0x400008, 0x1000] {
                for mips in [0u32, 1, 5, 300] {
                    for b in [&base10, &base9m, &basev] {
                        let mut ws = (*b).clone();
                        ws[W_FLAGS] = 0x1007 | depth | mc | (rng.below(2) as u32) << 3;
                        ws[W_CAPS] = caps;
                        ws[W_MIPS] = mips;
                        out.push(p_line(OPTS[(mips as usize + caps as usize) % 2], None, &ws));
                    }
                }
            }
        }
    }
    // pixel format flag combinations x sizes x bit counts x four CCs
    let pf_flag_bits = [0x1u32, 0x2, 0x4, 0x20, 0x40, 0x200, 0x20000, 0x40000, 0x80000];
    for m in 0..(1u32 << pf_flag_bits.len()) {
        let mut f = 0;
        for (i, b) in pf_flag_bits.iter().enumerate() {
            if m >> i & 1 == 1 {
                f |= b;
            }
        }
        let mut ws = if m % 2 == 0 { base9m.clone() } else { base9f.clone() };
        ws[W_PF_FLAGS] = f;
        ws[W_BITCOUNT] = *rng.pick(&[0, 0, 8, 16, 24, 32, 1, 64]);
        if m % 5 == 0 {
            ws[W_FOURCC] = *rng.pick(&[0, 0x30315844, 0x31545844, 7]);
        }
        if f & 4 != 0 && ws[W_FOURCC] == 0x30315844 {
            ws.extend_from_slice(&[28, 3, 0, 1, 0]);
        }
        out.push(p_line(OPTS[(m as usize / 2) % 2], None, &ws));
    }
    for size in [124u32, 24, 0, 123, 125, 148] {
        for pfs in [32u32, 0, 24, 31, 8] {
            for b in [&base10, &base9f] {
                for o in OPTS {
                    let mut ws = (*b).clone();
                    ws[W_SIZE] = size;
                    ws[W_PF_SIZE] = pfs;
                    out.push(p_line(o, None, &ws));
                }
            }
        }
    }
    // the four-CC-without-flag repair
    for &cc in KNOWN_FOURCC.iter().chain([0u32, 1, u32::MAX].iter()) {
        for flags in [0u32, 0x40, 0x4, 0x41] {
            for bc in [0u32, 8, 32] {
                let mut ws = base9f.clone();
                ws[W_FOURCC] = cc;
                ws[W_PF_FLAGS] = flags;
                ws[W_BITCOUNT] = bc;
                if flags & 4 != 0 && cc == 0x30315844 {
                    ws.extend_from_slice(&[71, 3, 0, 1, 0]);
                }
                out.push(p_line("s", None, &ws));
                out.push(p_line("p", None, &ws));
            }
        }
    }
    // DX10 extension: every code x dimension x misc x array x alpha (pairwise-ish)
    let mut k = 0usize;
    for code in (0..200u32).chain([255, 256, 257, u32::MAX]) {
        for dim in [2u32, 3, 4, 0, 1, 5] {
            for misc in [0u32, 4, 1, 0xFFFF_FFFF] {
                k += 1;
                let arrays = [0u32, 1, 2, 6, 7, 715_827_883, u32::MAX];
                let array = arrays[k % arrays.len()];
                let alpha = [0u32, 1, 2, 3, 4, 5, 6, 7, 8, 13, 0xFFFF_FFF8, u32::MAX][k % 12];
                let mut ws = if dim == 4 { basev.clone() } else { base10.clone() };
                ws[W_DXGI] = code;
                ws[W_DIM] = dim;
                ws[W_MISC] = misc;
                ws[W_ARRAY] = array;
                ws[W_MISC2] = alpha;
                let tl = true_len(&ws);
                out.push(p_line(OPTS[k % 2], None, &ws));
                if k % 4 == 0 {
                    out.push(p_line("p", tl.or(Some(148 + 96)), &ws));
                }
            }
        }
    }
    for &code in &dxgi {
        for alpha in 0..8u32 {
            let mut ws = base10.clone();
            ws[W_DXGI] = code;
            ws[W_MISC2] = alpha | (rng.next() as u32 & !7) * (alpha % 2);
            out.push(p_line(OPTS[alpha as usize % 2], None, &ws));
        }
    }
    // mask rows and perturbations
    for r in MASK_ROWS {
        let mut ws = base9m.clone();
        ws[W_PF_FLAGS] = r.0;
        ws[W_BITCOUNT] = r.1;
        ws[W_RMASK] = r.2;
        ws[W_RMASK + 1] = r.3;
        ws[W_RMASK + 2] = r.4;
        ws[W_RMASK + 3] = r.5;
        out.push(p_line("s", None, &ws));
        for j in 0..6 {
            let mut p = ws.clone();
            p[W_PF_FLAGS + [0, 2, 3, 4, 5, 6][j]] ^= 1 << rng.below(32);
            out.push(p_line(OPTS[j % 2], None, &p));
        }
    }
    // caps2: all 64 face sets x cube x volume
    for faces in 0..64u32 {
        for hi in [0u32, 0x200, 0x200000, 0x200200] {
            let mut ws = base9f.clone();
            ws[W_CAPS2] = faces << 10 | hi;
            let tl = true_len(&ws);
            out.push(p_line("s", None, &ws));
            out.push(p_line("p", tl, &ws));
        }
    }

    // ---- PRNG: valid headers with perturbed words and file lengths
    let n1 = if thorough { 1_500_000 } else { 22_000 };
    for i in 0..n1 {
        let h = random_header(&mut rng, &dxgi);
        let mut ws = header_words(&h);
        let tl0 = true_len(&ws);
        for _ in 0..rng.below(4) {
            let idx = rng.below(ws.len() as u64) as usize;
            ws[idx] = match rng.below(4) {
                0 => field_values(&mut rng, &bset),
                1 => ws[idx] ^ (1 << rng.below(32)),
                2 => ws[idx].wrapping_add(1),
                _ => ws[idx].wrapping_sub(1),
            };
        }
        if rng.chance(1, 6) {
            let n = rng.below(9);
            for _ in 0..n {
                ws.push(rng.next() as u32);
            }
        }
        let fl = match rng.below(7) {
            0 | 1 => None,
            2 | 3 => tl0,
            4 => tl0.map(|x| x + 1),
            5 => tl0.map(|x| x.saturating_sub(1)),
            _ => Some(match rng.below(3) {
                0 => rng.below(1000),
                1 => rng.next() >> rng.below(64),
                _ => true_len(&ws).unwrap_or(0),
            }),
        };
        let o = if fl.is_some() { "p" } else { OPTS[i % 2] };
        out.push(p_line(o, fl, &ws));
    }
    // ---- PRNG: fully random words
    let n2 = if thorough { 500_000 } else { 8_000 };
    for i in 0..n2 {
        let n = if rng.chance(1, 10) { rng.below(40) as usize } else { 37 };
        let mut ws: Vec<u32> = (0..n).map(|_| any_u32(&mut rng, &bset)).collect();
        if n > 0 && !rng.chance(1, 20) {
            ws[0] = 0x20534444;
        }
        if n > W_PF_SIZE && !rng.chance(1, 5) {
            ws[W_SIZE] = *rng.pick(&[124, 124, 124, 24]);
            ws[W_PF_SIZE] = *rng.pick(&[32, 32, 32, 0, 24]);
        }
        if n > W_BITCOUNT {
            match rng.below(4) {
                0 => {
                    ws[W_PF_FLAGS] |= 4;
                    ws[W_FOURCC] = 0x30315844;
                }
                1 => {
                    ws[W_PF_FLAGS] |= 4;
                    ws[W_FOURCC] = *rng.pick(KNOWN_FOURCC);
                }
                2 => {
                    ws[W_PF_FLAGS] &= !4;
                    ws[W_BITCOUNT] = *rng.pick(&[8, 16, 24, 32, 0]);
                }
                _ => {}
            }
        }
        if n > W_MISC2 && rng.chance(3, 4) {
            ws[W_DXGI] = *rng.pick(&dxgi);
            ws[W_DIM] = rng.range(2, 4) as u32;
            ws[W_MISC2] = rng.below(5) as u32;
        }
        let fl = if rng.chance(1, 3) { Some(rng.next() >> rng.below(64)) } else { None };
        let o = if fl.is_some() { "p" } else { OPTS[i % 2] };
        out.push(p_line(o, fl, &ws));
    }

    // ---- conversions
    for &code in &dxgi {
        for alpha in 0..5u32 {
            for (dim, misc, d) in [(3u32, 0u32, "-"), (3, 4, "-"), (4, 0, "3"), (2, 0, "-")] {
                out.push(format!("X 10:12:10:{d}:3:{code}:{dim}:{misc}:1:{alpha}"));
            }
        }
        out.push(format!("X 10:12:10:-:3:{code}:3:0:2:0"));
        out.push(format!("X 10:12:10:-:3:{code}:4:4:1:0"));
    }
    for &cc in KNOWN_FOURCC.iter().chain([0u32, 1, 35, 37, 117, u32::MAX].iter()) {
        for caps2 in [0u32, 0x200000, 0xFE00, 0x200 | 0x400, 0xFC00, 0x20FE00] {
            out.push(format!("X 9:12:10:-:3:{caps2}:F:{cc}"));
            out.push(format!("X 9:12:10:5:2:{caps2}:F:{cc}"));
        }
    }
    for r in MASK_ROWS {
        for caps2 in [0u32, 0x200000, 0xFE00, 0x7E00] {
            out.push(format!("X 9:12:10:-:3:{caps2}:M:{}:{}:{}:{}:{}:{}", r.0, r.1, r.2, r.3, r.4, r.5));
        }
        out.push(format!("X 9:12:10:4:3:2097152:M:{}:{}:{}:{}:{}:{}", r.0, r.1, r.2, r.3, r.4, r.5));
        // every other bit count and the flag families of the mask table for the same masks (a table entry whose bit
        // count disagrees with the byte size of the format it names changes the layout under to_dx10)
        for bits in [8u32, 16, 24, 32] {
            for flags in [r.0, 0x40, 0x41, 0x2, 0x20000, 0x20001, 0x200, 0x80000, 0x40000] {
                if bits != r.1 || flags != r.0 {
                    out.push(format!("X 9:12:10:-:3:0:M:{}:{}:{}:{}:{}:{}", flags, bits, r.2, r.3, r.4, r.5));
                }
            }
        }
        for j in 0..6 {
            let mut v = [r.0, r.1, r.2, r.3, r.4, r.5];
            if j == 1 {
                v[1] = *rng.pick(&[8, 16, 24, 32]);
            } else {
                v[j] ^= 1 << rng.below(32);
            }
            out.push(format!("X 9:12:10:-:3:0:M:{}:{}:{}:{}:{}:{}", v[0], v[1], v[2], v[3], v[4], v[5]));
        }
    }
    // every DXGI code x resource dimension x cube x array size 0/1/2: conversions exist only for array size 1
    for code in dxgi.iter() {
        for (dim, misc) in [(2u32, 0u32), (3, 0), (4, 0), (3, 4)] {
            for array in [0u32, 1, 2] {
                let d = if dim == 4 { "5" } else { "-" };
                out.push(format!("X 10:20:12:{d}:2:{code}:{dim}:{misc}:{array}:0"));
            }
        }
    }
    let nx = if thorough { 300_000 } else { 6_000 };
    for _ in 0..nx {
        let mut h = random_header(&mut rng, &dxgi);
        if rng.chance(1, 3) {
            let (w, ht, d) = (any_u32(&mut rng, &bset), any_u32(&mut rng, &bset), any_u32(&mut rng, &bset));
            h = h.with_dimensions(w, ht, if rng.chance(1, 2) { Some(d) } else { None });
        }
        if rng.chance(1, 6) {
            h = h.with_mipmap_count(any_u32(&mut rng, &bset).max(1));
        }
        if let Header::Dx10(x) = &mut h {
            if rng.chance(1, 5) {
                x.misc_flag = MiscFlags::from_bits_retain(any_u32(&mut rng, &bset));
            }
            if rng.chance(1, 8) {
                x.array_size = any_u32(&mut rng, &bset);
            }
        }
        if let Header::Dx9(x) = &mut h {
            if rng.chance(1, 5) {
                x.caps2 = Caps2::from_bits_retain(any_u32(&mut rng, &bset));
            }
        }
        out.push(format!("X {}", fmt_header(&h)));
    }
    out
}
