//! C03x: BC7 / BC6H block decoders, differential check against a spec oracle.
//!
//! Case lines:
//!   `b7 <W> <hex>` / `b6u <W> <hex>` / `b6s <W> <hex>`   N = len/32 blocks, W blocks per row
//!   `tbl <name> <i>`                                      table tie (library source text vs pinned spec tables)
//!
//! Result of a block line: `ok <h_0> ... <h_{N-1}>`, h_k = FNV-1a-32 over
//!   [16*C U8 values] ++ [16*C U16 values, 2 bytes LE each] ++ [16*C f32 bit patterns, 4 bytes LE each]
//! of block k (pixel-major, pixel j = 4*y+x inside the block), C = 4 (BC7, RGBA) or 3 (BC6H, RGB).
//!
//! The oracle in this file is written from the format specification (D3D11.3 functional spec
//! 19.5.13 / 19.5.14, Khronos Data Format spec "BPTC"), not from the library.
use crate::common::*;
use dds::*;
use std::sync::OnceLock;

// ---------------------------------------------------------------------------------------------
// Pinned spec tables (DirectXTex / Khronos form)
// ---------------------------------------------------------------------------------------------

/// 2-subset partitions (first 32 are shared with BC6H)
const P2: [[u8; 16]; 64] = [
    [0, 0, 1, 1, 0, 0, 1, 1, 0, 0, 1, 1, 0, 0, 1, 1],
    [0, 0, 0, 1, 0, 0, 0, 1, 0, 0, 0, 1, 0, 0, 0, 1],
    [0, 1, 1, 1, 0, 1, 1, 1, 0, 1, 1, 1, 0, 1, 1, 1],
    [0, 0, 0, 1, 0, 0, 1, 1, 0, 0, 1, 1, 0, 1, 1, 1],
    [0, 0, 0, 0, 0, 0, 0, 1, 0, 0, 0, 1, 0, 0, 1, 1],
    [0, 0, 1, 1, 0, 1, 1, 1, 0, 1, 1, 1, 1, 1, 1, 1],
    [0, 0, 0, 1, 0, 0, 1, 1, 0, 1, 1, 1, 1, 1, 1, 1],
    [0, 0, 0, 0, 0, 0, 0, 1, 0, 0, 1, 1, 0, 1, 1, 1],
    [0, 0, 0, 0, 0, 0, 0, 0, 0, 0, 0, 1, 0, 0, 1, 1],
    [0, 0, 1, 1, 0, 1, 1, 1, 1, 1, 1, 1, 1, 1, 1, 1],
    [0, 0, 0, 0, 0, 0, 0, 1, 0, 1, 1, 1, 1, 1, 1, 1],
    [0, 0, 0, 0, 0, 0, 0, 0, 0, 0, 0, 1, 0, 1, 1, 1],
    [0, 0, 0, 1, 0, 1, 1, 1, 1, 1, 1, 1, 1, 1, 1, 1],
    [0, 0, 0, 0, 0, 0, 0, 0, 1, 1, 1, 1, 1, 1, 1, 1],
    [0, 0, 0, 0, 1, 1, 1, 1, 1, 1, 1, 1, 1, 1, 1, 1],
    [0, 0, 0, 0, 0, 0, 0, 0, 0, 0, 0, 0, 1, 1, 1, 1],
    [0, 0, 0, 0, 1, 0, 0, 0, 1, 1, 1, 0, 1, 1, 1, 1],
    [0, 1, 1, 1, 0, 0, 0, 1, 0, 0, 0, 0, 0, 0, 0, 0],
    [0, 0, 0, 0, 0, 0, 0, 0, 1, 0, 0, 0, 1, 1, 1, 0],
    [0, 1, 1, 1, 0, 0, 1, 1, 0, 0, 0, 1, 0, 0, 0, 0],
    [0, 0, 1, 1, 0, 0, 0, 1, 0, 0, 0, 0, 0, 0, 0, 0],
    [0, 0, 0, 0, 1, 0, 0, 0, 1, 1, 0, 0, 1, 1, 1, 0],
    [0, 0, 0, 0, 0, 0, 0, 0, 1, 0, 0, 0, 1, 1, 0, 0],
    [0, 1, 1, 1, 0, 0, 1, 1, 0, 0, 1, 1, 0, 0, 0, 1],
    [0, 0, 1, 1, 0, 0, 0, 1, 0, 0, 0, 1, 0, 0, 0, 0],
    [0, 0, 0, 0, 1, 0, 0, 0, 1, 0, 0, 0, 1, 1, 0, 0],
    [0, 1, 1, 0, 0, 1, 1, 0, 0, 1, 1, 0, 0, 1, 1, 0],
    [0, 0, 1, 1, 0, 1, 1, 0, 0, 1, 1, 0, 1, 1, 0, 0],
    [0, 0, 0, 1, 0, 1, 1, 1, 1, 1, 1, 0, 1, 0, 0, 0],
    [0, 0, 0, 0, 1, 1, 1, 1, 1, 1, 1, 1, 0, 0, 0, 0],
    [0, 1, 1, 1, 0, 0, 0, 1, 1, 0, 0, 0, 1, 1, 1, 0],
    [0, 0, 1, 1, 1, 0, 0, 1, 1, 0, 0, 1, 1, 1, 0, 0],
    [0, 1, 0, 1, 0, 1, 0, 1, 0, 1, 0, 1, 0, 1, 0, 1],
    [0, 0, 0, 0, 1, 1, 1, 1, 0, 0, 0, 0, 1, 1, 1, 1],
    [0, 1, 0, 1, 1, 0, 1, 0, 0, 1, 0, 1, 1, 0, 1, 0],
    [0, 0, 1, 1, 0, 0, 1, 1, 1, 1, 0, 0, 1, 1, 0, 0],
    [0, 0, 1, 1, 1, 1, 0, 0, 0, 0, 1, 1, 1, 1, 0, 0],
    [0, 1, 0, 1, 0, 1, 0, 1, 1, 0, 1, 0, 1, 0, 1, 0],
    [0, 1, 1, 0, 1, 0, 0, 1, 0, 1, 1, 0, 1, 0, 0, 1],
    [0, 1, 0, 1, 1, 0, 1, 0, 1, 0, 1, 0, 0, 1, 0, 1],
    [0, 1, 1, 1, 0, 0, 1, 1, 1, 1, 0, 0, 1, 1, 1, 0],
    [0, 0, 0, 1, 0, 0, 1, 1, 1, 1, 0, 0, 1, 0, 0, 0],
    [0, 0, 1, 1, 0, 0, 1, 0, 0, 1, 0, 0, 1, 1, 0, 0],
    [0, 0, 1, 1, 1, 0, 1, 1, 1, 1, 0, 1, 1, 1, 0, 0],
    [0, 1, 1, 0, 1, 0, 0, 1, 1, 0, 0, 1, 0, 1, 1, 0],
    [0, 0, 1, 1, 1, 1, 0, 0, 1, 1, 0, 0, 0, 0, 1, 1],
    [0, 1, 1, 0, 0, 1, 1, 0, 1, 0, 0, 1, 1, 0, 0, 1],
    [0, 0, 0, 0, 0, 1, 1, 0, 0, 1, 1, 0, 0, 0, 0, 0],
    [0, 1, 0, 0, 1, 1, 1, 0, 0, 1, 0, 0, 0, 0, 0, 0],
    [0, 0, 1, 0, 0, 1, 1, 1, 0, 0, 1, 0, 0, 0, 0, 0],
    [0, 0, 0, 0, 0, 0, 1, 0, 0, 1, 1, 1, 0, 0, 1, 0],
    [0, 0, 0, 0, 0, 1, 0, 0, 1, 1, 1, 0, 0, 1, 0, 0],
    [0, 1, 1, 0, 1, 1, 0, 0, 1, 0, 0, 1, 0, 0, 1, 1],
    [0, 0, 1, 1, 0, 1, 1, 0, 1, 1, 0, 0, 1, 0, 0, 1],
    [0, 1, 1, 0, 0, 0, 1, 1, 1, 0, 0, 1, 1, 1, 0, 0],
    [0, 0, 1, 1, 1, 0, 0, 1, 1, 1, 0, 0, 0, 1, 1, 0],
    [0, 1, 1, 0, 1, 1, 0, 0, 1, 1, 0, 0, 1, 0, 0, 1],
    [0, 1, 1, 0, 0, 0, 1, 1, 0, 0, 1, 1, 1, 0, 0, 1],
    [0, 1, 1, 1, 1, 1, 1, 0, 1, 0, 0, 0, 0, 0, 0, 1],
    [0, 0, 0, 1, 1, 0, 0, 0, 1, 1, 1, 0, 0, 1, 1, 1],
    [0, 0, 0, 0, 1, 1, 1, 1, 0, 0, 1, 1, 0, 0, 1, 1],
    [0, 0, 1, 1, 0, 0, 1, 1, 1, 1, 1, 1, 0, 0, 0, 0],
    [0, 0, 1, 0, 0, 0, 1, 0, 1, 1, 1, 0, 1, 1, 1, 0],
    [0, 1, 0, 0, 0, 1, 0, 0, 0, 1, 1, 1, 0, 1, 1, 1],
];

/// 3-subset partitions (BC7 modes 0 and 2)
const P3: [[u8; 16]; 64] = [
    [0, 0, 1, 1, 0, 0, 1, 1, 0, 2, 2, 1, 2, 2, 2, 2],
    [0, 0, 0, 1, 0, 0, 1, 1, 2, 2, 1, 1, 2, 2, 2, 1],
    [0, 0, 0, 0, 2, 0, 0, 1, 2, 2, 1, 1, 2, 2, 1, 1],
    [0, 2, 2, 2, 0, 0, 2, 2, 0, 0, 1, 1, 0, 1, 1, 1],
    [0, 0, 0, 0, 0, 0, 0, 0, 1, 1, 2, 2, 1, 1, 2, 2],
    [0, 0, 1, 1, 0, 0, 1, 1, 0, 0, 2, 2, 0, 0, 2, 2],
    [0, 0, 2, 2, 0, 0, 2, 2, 1, 1, 1, 1, 1, 1, 1, 1],
    [0, 0, 1, 1, 0, 0, 1, 1, 2, 2, 1, 1, 2, 2, 1, 1],
    [0, 0, 0, 0, 0, 0, 0, 0, 1, 1, 1, 1, 2, 2, 2, 2],
    [0, 0, 0, 0, 1, 1, 1, 1, 1, 1, 1, 1, 2, 2, 2, 2],
    [0, 0, 0, 0, 1, 1, 1, 1, 2, 2, 2, 2, 2, 2, 2, 2],
    [0, 0, 1, 2, 0, 0, 1, 2, 0, 0, 1, 2, 0, 0, 1, 2],
    [0, 1, 1, 2, 0, 1, 1, 2, 0, 1, 1, 2, 0, 1, 1, 2],
    [0, 1, 2, 2, 0, 1, 2, 2, 0, 1, 2, 2, 0, 1, 2, 2],
    [0, 0, 1, 1, 0, 1, 1, 2, 1, 1, 2, 2, 1, 2, 2, 2],
    [0, 0, 1, 1, 2, 0, 0, 1, 2, 2, 0, 0, 2, 2, 2, 0],
    [0, 0, 0, 1, 0, 0, 1, 1, 0, 1, 1, 2, 1, 1, 2, 2],
    [0, 1, 1, 1, 0, 0, 1, 1, 2, 0, 0, 1, 2, 2, 0, 0],
    [0, 0, 0, 0, 1, 1, 2, 2, 1, 1, 2, 2, 1, 1, 2, 2],
    [0, 0, 2, 2, 0, 0, 2, 2, 0, 0, 2, 2, 1, 1, 1, 1],
    [0, 1, 1, 1, 0, 1, 1, 1, 0, 2, 2, 2, 0, 2, 2, 2],
    [0, 0, 0, 1, 0, 0, 0, 1, 2, 2, 2, 1, 2, 2, 2, 1],
    [0, 0, 0, 0, 0, 0, 1, 1, 0, 1, 2, 2, 0, 1, 2, 2],
    [0, 0, 0, 0, 1, 1, 0, 0, 2, 2, 1, 0, 2, 2, 1, 0],
    [0, 1, 2, 2, 0, 1, 2, 2, 0, 0, 1, 1, 0, 0, 0, 0],
    [0, 0, 1, 2, 0, 0, 1, 2, 1, 1, 2, 2, 2, 2, 2, 2],
    [0, 1, 1, 0, 1, 2, 2, 1, 1, 2, 2, 1, 0, 1, 1, 0],
    [0, 0, 0, 0, 0, 1, 1, 0, 1, 2, 2, 1, 1, 2, 2, 1],
    [0, 0, 2, 2, 1, 1, 0, 2, 1, 1, 0, 2, 0, 0, 2, 2],
    [0, 1, 1, 0, 0, 1, 1, 0, 2, 0, 0, 2, 2, 2, 2, 2],
    [0, 0, 1, 1, 0, 1, 2, 2, 0, 1, 2, 2, 0, 0, 1, 1],
    [0, 0, 0, 0, 2, 0, 0, 0, 2, 2, 1, 1, 2, 2, 2, 1],
    [0, 0, 0, 0, 0, 0, 0, 2, 1, 1, 2, 2, 1, 2, 2, 2],
    [0, 2, 2, 2, 0, 0, 2, 2, 0, 0, 1, 2, 0, 0, 1, 1],
    [0, 0, 1, 1, 0, 0, 1, 2, 0, 0, 2, 2, 0, 2, 2, 2],
    [0, 1, 2, 0, 0, 1, 2, 0, 0, 1, 2, 0, 0, 1, 2, 0],
    [0, 0, 0, 0, 1, 1, 1, 1, 2, 2, 2, 2, 0, 0, 0, 0],
    [0, 1, 2, 0, 1, 2, 0, 1, 2, 0, 1, 2, 0, 1, 2, 0],
    [0, 1, 2, 0, 2, 0, 1, 2, 1, 2, 0, 1, 0, 1, 2, 0],
    [0, 0, 1, 1, 2, 2, 0, 0, 1, 1, 2, 2, 0, 0, 1, 1],
    [0, 0, 1, 1, 1, 1, 2, 2, 2, 2, 0, 0, 0, 0, 1, 1],
    [0, 1, 0, 1, 0, 1, 0, 1, 2, 2, 2, 2, 2, 2, 2, 2],
    [0, 0, 0, 0, 0, 0, 0, 0, 2, 1, 2, 1, 2, 1, 2, 1],
    [0, 0, 2, 2, 1, 1, 2, 2, 0, 0, 2, 2, 1, 1, 2, 2],
    [0, 0, 2, 2, 0, 0, 1, 1, 0, 0, 2, 2, 0, 0, 1, 1],
    [0, 2, 2, 0, 1, 2, 2, 1, 0, 2, 2, 0, 1, 2, 2, 1],
    [0, 1, 0, 1, 2, 2, 2, 2, 2, 2, 2, 2, 0, 1, 0, 1],
    [0, 0, 0, 0, 2, 1, 2, 1, 2, 1, 2, 1, 2, 1, 2, 1],
    [0, 1, 0, 1, 0, 1, 0, 1, 0, 1, 0, 1, 2, 2, 2, 2],
    [0, 2, 2, 2, 0, 1, 1, 1, 0, 2, 2, 2, 0, 1, 1, 1],
    [0, 0, 0, 2, 1, 1, 1, 2, 0, 0, 0, 2, 1, 1, 1, 2],
    [0, 0, 0, 0, 2, 1, 1, 2, 2, 1, 1, 2, 2, 1, 1, 2],
    [0, 2, 2, 2, 0, 1, 1, 1, 0, 1, 1, 1, 0, 2, 2, 2],
    [0, 0, 0, 2, 1, 1, 1, 2, 1, 1, 1, 2, 0, 0, 0, 2],
    [0, 1, 1, 0, 0, 1, 1, 0, 0, 1, 1, 0, 2, 2, 2, 2],
    [0, 0, 0, 0, 0, 0, 0, 0, 2, 1, 1, 2, 2, 1, 1, 2],
    [0, 1, 1, 0, 0, 1, 1, 0, 2, 2, 2, 2, 2, 2, 2, 2],
    [0, 0, 2, 2, 0, 0, 1, 1, 0, 0, 1, 1, 0, 0, 2, 2],
    [0, 0, 2, 2, 1, 1, 2, 2, 1, 1, 2, 2, 0, 0, 2, 2],
    [0, 0, 0, 0, 0, 0, 0, 0, 0, 0, 0, 0, 2, 1, 1, 2],
    [0, 0, 0, 2, 0, 0, 0, 1, 0, 0, 0, 2, 0, 0, 0, 1],
    [0, 2, 2, 2, 1, 2, 2, 2, 0, 2, 2, 2, 1, 2, 2, 2],
    [0, 1, 0, 1, 2, 2, 2, 2, 2, 2, 2, 2, 2, 2, 2, 2],
    [0, 1, 1, 1, 2, 0, 1, 1, 2, 2, 0, 1, 2, 2, 2, 0],
];

/// anchor (fix-up) index of subset 1, 2-subset partitions
const A2: [u8; 64] = [
    15, 15, 15, 15, 15, 15, 15, 15, 15, 15, 15, 15, 15, 15, 15, 15, //
    15, 2, 8, 2, 2, 8, 8, 15, 2, 8, 2, 2, 8, 8, 2, 2, //
    15, 15, 6, 8, 2, 8, 15, 15, 2, 8, 2, 2, 2, 15, 15, 6, //
    6, 2, 6, 8, 15, 15, 2, 2, 15, 15, 15, 15, 15, 2, 2, 15,
];
/// anchor index of subset 1, 3-subset partitions
const A3A: [u8; 64] = [
    3, 3, 15, 15, 8, 3, 15, 15, 8, 8, 6, 6, 6, 5, 3, 3, //
    3, 3, 8, 15, 3, 3, 6, 10, 5, 8, 8, 6, 8, 5, 15, 15, //
    8, 15, 3, 5, 6, 10, 8, 15, 15, 3, 15, 5, 15, 15, 15, 15, //
    3, 15, 5, 5, 5, 8, 5, 10, 5, 10, 8, 13, 15, 12, 3, 3,
];
/// anchor index of subset 2, 3-subset partitions
const A3B: [u8; 64] = [
    15, 8, 8, 3, 15, 15, 3, 8, 15, 15, 15, 15, 15, 15, 15, 8, //
    15, 8, 15, 3, 15, 8, 15, 8, 3, 15, 6, 10, 15, 15, 10, 8, //
    15, 3, 15, 10, 10, 8, 9, 10, 6, 15, 8, 15, 3, 6, 6, 8, //
    15, 3, 15, 15, 15, 15, 15, 15, 15, 15, 15, 15, 3, 15, 15, 8,
];

const W2: [u32; 4] = [0, 21, 43, 64];
const W3: [u32; 8] = [0, 9, 18, 27, 37, 46, 55, 64];
const W4: [u32; 16] = [0, 4, 9, 13, 17, 21, 26, 30, 34, 38, 43, 47, 51, 55, 60, 64];

fn weights(bits: u32) -> &'static [u32] {
    match bits {
        2 => &W2,
        3 => &W3,
        _ => &W4,
    }
}

/// sequential LSB-first field reader over the 128-bit block
struct Bits {
    v: u128,
    pos: u32,
}
impl Bits {
    fn new(v: u128) -> Self {
        Bits { v, pos: 0 }
    }
    fn get(&mut self, n: u32) -> u32 {
        if n == 0 {
            return 0;
        }
        let r = ((self.v >> self.pos) & ((1u128 << n) - 1)) as u32;
        self.pos += n;
        r
    }
}

// ---------------------------------------------------------------------------------------------
// BC7 spec oracle
// ---------------------------------------------------------------------------------------------

/// One row of the spec's BC7 mode table.
#[derive(Clone, Copy)]
struct M7 {
    ns: u32,  // number of subsets
    pb: u32,  // partition bits
    rb: u32,  // rotation bits
    isb: u32, // index selection bits
    cb: u32,  // colour bits per channel
    ab: u32,  // alpha bits
    epb: u32, // per-endpoint p-bit
    spb: u32, // shared (per-subset) p-bit
    ib: u32,  // primary index bits
    ib2: u32, // secondary index bits
}
const fn m7(ns: u32, pb: u32, rb: u32, isb: u32, cb: u32, ab: u32, epb: u32, spb: u32, ib: u32, ib2: u32) -> M7 {
    M7 { ns, pb, rb, isb, cb, ab, epb, spb, ib, ib2 }
}
const MODES7: [M7; 8] = [
    m7(3, 4, 0, 0, 4, 0, 1, 0, 3, 0),
    m7(2, 6, 0, 0, 6, 0, 0, 1, 3, 0),
    m7(3, 6, 0, 0, 5, 0, 0, 0, 2, 0),
    m7(2, 6, 0, 0, 7, 0, 1, 0, 2, 0),
    m7(1, 0, 2, 1, 5, 6, 0, 0, 2, 3),
    m7(1, 0, 2, 0, 7, 8, 0, 0, 2, 2),
    m7(1, 0, 0, 0, 7, 7, 1, 0, 4, 0),
    m7(2, 6, 0, 0, 5, 5, 1, 0, 2, 0),
];

pub(crate) fn subset_of(ns: u32, part: usize, px: usize) -> usize {
    match ns {
        1 => 0,
        2 => P2[part][px] as usize,
        _ => P3[part][px] as usize,
    }
}
fn is_anchor(ns: u32, part: usize, px: usize) -> bool {
    if px == 0 {
        return true;
    }
    match ns {
        1 => false,
        2 => A2[part] as usize == px,
        _ => A3A[part] as usize == px || A3B[part] as usize == px,
    }
}

/// left-align `v` (of `bits` bits) to 8 bits, replicating the top bits into the low bits
fn expand8(v: u32, bits: u32) -> u32 {
    let x = v << (8 - bits);
    x | (x >> bits)
}
fn interp7(e0: u32, e1: u32, w: u32) -> u32 {
    ((64 - w) * e0 + w * e1 + 32) >> 6
}

/// spec decode of one BC7 block: 16 pixels RGBA 8 bit
fn bc7_spec(block: u128) -> [[u8; 4]; 16] {
    let mut out = [[0u8; 4]; 16];
    let mut mode = 0usize;
    while mode < 8 && (block >> mode) & 1 == 0 {
        mode += 1;
    }
    if mode >= 8 {
        return out; // reserved: all zero incl. alpha
    }
    let m = MODES7[mode];
    let mut b = Bits::new(block);
    b.get(mode as u32 + 1);
    let part = b.get(m.pb) as usize;
    let rot = b.get(m.rb);
    let isel = b.get(m.isb);
    let ne = (m.ns * 2) as usize;
    // endpoints: channel-major (all R, all G, all B, all A)
    let mut ep = [[0u32; 4]; 6];
    for c in 0..3 {
        for e in 0..ne {
            ep[e][c] = b.get(m.cb);
        }
    }
    if m.ab > 0 {
        for e in 0..ne {
            ep[e][3] = b.get(m.ab);
        }
    }
    // p-bits
    let mut cbits = m.cb;
    let mut abits = m.ab;
    if m.epb > 0 {
        for e in 0..ne {
            let p = b.get(1);
            for c in 0..4 {
                ep[e][c] = (ep[e][c] << 1) | p;
            }
        }
        cbits += 1;
        if abits > 0 {
            abits += 1;
        }
    } else if m.spb > 0 {
        for s in 0..m.ns as usize {
            let p = b.get(1);
            for e in 0..2 {
                for c in 0..4 {
                    ep[2 * s + e][c] = (ep[2 * s + e][c] << 1) | p;
                }
            }
        }
        cbits += 1;
        if abits > 0 {
            abits += 1;
        }
    }
    for e in 0..ne {
        for c in 0..3 {
            ep[e][c] = expand8(ep[e][c], cbits);
        }
        ep[e][3] = if m.ab > 0 { expand8(ep[e][3], abits) } else { 255 };
    }
    // indices
    let mut i1 = [0u32; 16];
    let mut i2 = [0u32; 16];
    for px in 0..16 {
        let n = if is_anchor(m.ns, part, px) { m.ib - 1 } else { m.ib };
        i1[px] = b.get(n);
    }
    if m.ib2 > 0 {
        for px in 0..16 {
            let n = if px == 0 { m.ib2 - 1 } else { m.ib2 };
            i2[px] = b.get(n);
        }
    }
    debug_assert_eq!(b.pos, 128);
    for px in 0..16 {
        let s = subset_of(m.ns, part, px);
        let e0 = ep[2 * s];
        let e1 = ep[2 * s + 1];
        let (cw, aw) = if m.ib2 == 0 {
            let w = weights(m.ib)[i1[px] as usize];
            (w, w)
        } else if isel == 0 {
            (weights(m.ib)[i1[px] as usize], weights(m.ib2)[i2[px] as usize])
        } else {
            (weights(m.ib2)[i2[px] as usize], weights(m.ib)[i1[px] as usize])
        };
        let mut p = [
            interp7(e0[0], e1[0], cw),
            interp7(e0[1], e1[1], cw),
            interp7(e0[2], e1[2], cw),
            interp7(e0[3], e1[3], aw),
        ];
        match rot {
            1 => p.swap(3, 0),
            2 => p.swap(3, 1),
            3 => p.swap(3, 2),
            _ => {}
        }
        for c in 0..4 {
            out[px][c] = p[c] as u8;
        }
    }
    out
}

// ---------------------------------------------------------------------------------------------
// BC6H spec oracle
// ---------------------------------------------------------------------------------------------

/// One row of the spec's BC6H mode table. `header` lists the fields after the mode bits in stream
/// order, in the spec's notation: channel letter (r,g,b) + endpoint letter (w,x,y,z = endpoints
/// 0..3) + bit or bit range `hi:lo` (the stream's least significant bit goes to the right-hand
/// number, so `rw10:11` is a reversed range); `d4:0` = partition.
struct M6 {
    name: &'static str,
    code: u32,
    code_bits: u32,
    regions: u32,
    transformed: bool,
    prec: u32,
    delta: [u32; 3],
    header: &'static str,
}
const MODES6: [M6; 14] = [
    M6 { name: "M10_555", code: 0b00, code_bits: 2, regions: 2, transformed: true, prec: 10, delta: [5, 5, 5],
        header: "gy4 by4 bz4 rw9:0 gw9:0 bw9:0 rx4:0 gz4 gy3:0 gx4:0 bz0 gz3:0 bx4:0 bz1 by3:0 ry4:0 bz2 rz4:0 bz3 d4:0" },
    M6 { name: "M7_666", code: 0b01, code_bits: 2, regions: 2, transformed: true, prec: 7, delta: [6, 6, 6],
        header: "gy5 gz4 gz5 rw6:0 bz0 bz1 by4 gw6:0 by5 bz2 gy4 bw6:0 bz3 bz5 bz4 rx5:0 gy3:0 gx5:0 gz3:0 bx5:0 by3:0 ry5:0 rz5:0 d4:0" },
    M6 { name: "M11_544", code: 0b00010, code_bits: 5, regions: 2, transformed: true, prec: 11, delta: [5, 4, 4],
        header: "rw9:0 gw9:0 bw9:0 rx4:0 rw10 gy3:0 gx3:0 gw10 bz0 gz3:0 bx3:0 bw10 bz1 by3:0 ry4:0 bz2 rz4:0 bz3 d4:0" },
    M6 { name: "M11_454", code: 0b00110, code_bits: 5, regions: 2, transformed: true, prec: 11, delta: [4, 5, 4],
        header: "rw9:0 gw9:0 bw9:0 rx3:0 rw10 gz4 gy3:0 gx4:0 gw10 gz3:0 bx3:0 bw10 bz1 by3:0 ry3:0 bz0 bz2 rz3:0 gy4 bz3 d4:0" },
    M6 { name: "M11_445", code: 0b01010, code_bits: 5, regions: 2, transformed: true, prec: 11, delta: [4, 4, 5],
        header: "rw9:0 gw9:0 bw9:0 rx3:0 rw10 by4 gy3:0 gx3:0 gw10 bz0 gz3:0 bx4:0 bw10 by3:0 ry3:0 bz1 bz2 rz3:0 bz4 bz3 d4:0" },
    M6 { name: "M9_555", code: 0b01110, code_bits: 5, regions: 2, transformed: true, prec: 9, delta: [5, 5, 5],
        header: "rw8:0 by4 gw8:0 gy4 bw8:0 bz4 rx4:0 gz4 gy3:0 gx4:0 bz0 gz3:0 bx4:0 bz1 by3:0 ry4:0 bz2 rz4:0 bz3 d4:0" },
    M6 { name: "M8_655", code: 0b10010, code_bits: 5, regions: 2, transformed: true, prec: 8, delta: [6, 5, 5],
        header: "rw7:0 gz4 by4 gw7:0 bz2 gy4 bw7:0 bz3 bz4 rx5:0 gy3:0 gx4:0 bz0 gz3:0 bx4:0 bz1 by3:0 ry5:0 rz5:0 d4:0" },
    M6 { name: "M8_565", code: 0b10110, code_bits: 5, regions: 2, transformed: true, prec: 8, delta: [5, 6, 5],
        header: "rw7:0 bz0 by4 gw7:0 gy5 gy4 bw7:0 gz5 bz4 rx4:0 gz4 gy3:0 gx5:0 gz3:0 bx4:0 bz1 by3:0 ry4:0 bz2 rz4:0 bz3 d4:0" },
    M6 { name: "M8_556", code: 0b11010, code_bits: 5, regions: 2, transformed: true, prec: 8, delta: [5, 5, 6],
        header: "rw7:0 bz1 by4 gw7:0 by5 gy4 bw7:0 bz5 bz4 rx4:0 gz4 gy3:0 gx4:0 bz0 gz3:0 bx5:0 by3:0 ry4:0 bz2 rz4:0 bz3 d4:0" },
    M6 { name: "M6_666", code: 0b11110, code_bits: 5, regions: 2, transformed: false, prec: 6, delta: [6, 6, 6],
        header: "rw5:0 gz4 bz0 bz1 by4 gw5:0 gy5 by5 bz2 gy4 bw5:0 gz5 bz3 bz5 bz4 rx5:0 gy3:0 gx5:0 gz3:0 bx5:0 by3:0 ry5:0 rz5:0 d4:0" },
    M6 { name: "M10_10", code: 0b00011, code_bits: 5, regions: 1, transformed: false, prec: 10, delta: [10, 10, 10],
        header: "rw9:0 gw9:0 bw9:0 rx9:0 gx9:0 bx9:0" },
    M6 { name: "M11_9", code: 0b00111, code_bits: 5, regions: 1, transformed: true, prec: 11, delta: [9, 9, 9],
        header: "rw9:0 gw9:0 bw9:0 rx8:0 rw10 gx8:0 gw10 bx8:0 bw10" },
    M6 { name: "M12_8", code: 0b01011, code_bits: 5, regions: 1, transformed: true, prec: 12, delta: [8, 8, 8],
        header: "rw9:0 gw9:0 bw9:0 rx7:0 rw10:11 gx7:0 gw10:11 bx7:0 bw10:11" },
    M6 { name: "M16_4", code: 0b01111, code_bits: 5, regions: 1, transformed: true, prec: 16, delta: [4, 4, 4],
        header: "rw9:0 gw9:0 bw9:0 rx3:0 rw10:15 gx3:0 gw10:15 bx3:0 bw10:15" },
];

/// header entry: (channel 0..2 or 3 = partition, endpoint 0..3, left number, right number)
#[derive(Clone, Copy, Debug, PartialEq)]
struct HF {
    ch: u8,
    ep: u8,
    left: u8,
    right: u8,
}
fn parse_header(h: &str) -> Vec<HF> {
    h.split_whitespace()
        .map(|t| {
            let b = t.as_bytes();
            let (ch, ep, rest) = if b[0] == b'd' {
                (3u8, 0u8, &t[1..])
            } else {
                let ch = match b[0] {
                    b'r' => 0,
                    b'g' => 1,
                    _ => 2,
                };
                let ep = match b[1] {
                    b'w' => 0,
                    b'x' => 1,
                    b'y' => 2,
                    _ => 3,
                };
                (ch, ep, &t[2..])
            };
            let (l, r) = match rest.split_once(':') {
                Some((l, r)) => (l.parse().unwrap(), r.parse().unwrap()),
                None => {
                    let k: u8 = rest.parse().unwrap();
                    (k, k)
                }
            };
            HF { ch, ep, left: l, right: r }
        })
        .collect()
}
fn headers6() -> &'static Vec<Vec<HF>> {
    static H: OnceLock<Vec<Vec<HF>>> = OnceLock::new();
    H.get_or_init(|| MODES6.iter().map(|m| parse_header(m.header)).collect())
}
/// field bit numbers of a header entry in stream order (first = least significant stream bit)
fn hf_bits(f: HF) -> Vec<u8> {
    if f.left >= f.right {
        (f.right..=f.left).collect()
    } else {
        (f.left..=f.right).rev().collect()
    }
}

fn mode6_of(block: u128) -> Option<usize> {
    let low2 = (block & 3) as u32;
    let code = if low2 < 2 { low2 } else { (block & 31) as u32 };
    MODES6.iter().position(|m| m.code == code)
}

fn sext(v: i32, bits: u32) -> i32 {
    let sh = 32 - bits;
    (v << sh) >> sh
}

fn unquantize6(comp: i32, bits: u32, signed: bool) -> i32 {
    if !signed {
        if bits >= 15 {
            comp
        } else if comp == 0 {
            0
        } else if comp == (1 << bits) - 1 {
            0xFFFF
        } else {
            ((comp << 16) + 0x8000) >> bits
        }
    } else if bits >= 16 {
        comp
    } else {
        let (s, c) = if comp < 0 { (true, -comp) } else { (false, comp) };
        let unq = if c == 0 {
            0
        } else if c >= (1 << (bits - 1)) - 1 {
            0x7FFF
        } else {
            ((c << 15) + 0x4000) >> (bits - 1)
        };
        if s {
            -unq
        } else {
            unq
        }
    }
}
fn finish_unquantize6(comp: i32, signed: bool) -> u16 {
    if !signed {
        ((comp * 31) >> 6) as u16
    } else {
        let c = if comp < 0 { -(((-comp) * 31) >> 5) } else { (comp * 31) >> 5 };
        if c < 0 {
            (0x8000 | (-c)) as u16
        } else {
            c as u16
        }
    }
}

/// spec decode of one BC6H block: 16 pixels RGB, half bit patterns
fn bc6_spec(block: u128, signed: bool) -> [[u16; 3]; 16] {
    let mut out = [[0u16; 3]; 16];
    let mi = match mode6_of(block) {
        Some(i) => i,
        None => return out, // reserved mode: zero
    };
    let m = &MODES6[mi];
    let hdr = &headers6()[mi];
    let mut b = Bits::new(block);
    b.get(m.code_bits);
    let mut raw = [[0i32; 3]; 4];
    let mut part = 0usize;
    for &f in hdr {
        for k in hf_bits(f) {
            let bit = b.get(1);
            if f.ch == 3 {
                part |= (bit as usize) << k;
            } else {
                raw[f.ep as usize][f.ch as usize] |= (bit as i32) << k;
            }
        }
    }
    debug_assert_eq!(b.pos, if m.regions == 2 { 82 } else { 65 });
    let ne = (m.regions * 2) as usize;
    let mask = ((1i64 << m.prec) - 1) as i32;
    let mut ep = [[0i32; 3]; 4];
    for c in 0..3 {
        let mut w = raw[0][c];
        if signed {
            w = sext(w, m.prec);
        }
        ep[0][c] = w;
        for e in 1..ne {
            let mut v = raw[e][c];
            if m.transformed || signed {
                v = sext(v, m.delta[c]);
            }
            if m.transformed {
                v = w.wrapping_add(v) & mask;
                if signed {
                    v = sext(v, m.prec);
                }
            }
            ep[e][c] = v;
        }
    }
    // indices
    let ib = if m.regions == 2 { 3 } else { 4 };
    let mut idx = [0u32; 16];
    for px in 0..16 {
        let anchor = px == 0 || (m.regions == 2 && A2[part] as usize == px);
        idx[px] = b.get(if anchor { ib - 1 } else { ib });
    }
    debug_assert_eq!(b.pos, 128);
    for px in 0..16 {
        let s = if m.regions == 2 { P2[part][px] as usize } else { 0 };
        let w = weights(ib)[idx[px] as usize] as i32;
        for c in 0..3 {
            let a = unquantize6(ep[2 * s][c], m.prec, signed);
            let bq = unquantize6(ep[2 * s + 1][c], m.prec, signed);
            let v = (a * (64 - w) + bq * w + 32) >> 6;
            out[px][c] = finish_unquantize6(v, signed);
        }
    }
    out
}

// ---------------------------------------------------------------------------------------------
// demanded output precisions
// ---------------------------------------------------------------------------------------------

fn half_to_f32_bits(h: u16) -> u32 {
    let s = ((h as u32) >> 15) << 31;
    let e = ((h as u32) >> 10) & 31;
    let m = (h as u32) & 0x3ff;
    if e == 0 {
        if m == 0 {
            return s;
        }
        // subnormal: m * 2^-24
        let mut mm = m;
        let mut ex: i32 = -14;
        while mm & 0x400 == 0 {
            mm <<= 1;
            ex -= 1;
        }
        s | (((ex + 127) as u32) << 23) | ((mm & 0x3ff) << 13)
    } else if e == 31 {
        s | 0x7f80_0000 | (m << 13)
    } else {
        s | ((e + 112) << 23) | (m << 13)
    }
}
/// clamp(half, 0, 1) * k rounded to nearest, exact integer arithmetic
fn half_to_unorm(h: u16, k: u64) -> u64 {
    let e = ((h as u32) >> 10) & 31;
    let m = (h as u64) & 0x3ff;
    if e == 31 && m != 0 {
        return 0; // NaN
    }
    if h & 0x8000 != 0 {
        return 0; // negative, -0, -inf
    }
    if e >= 15 {
        return k; // >= 1, +inf
    }
    // value = mm / 2^sh, < 1
    let (mm, sh) = if e == 0 { (m, 24u32) } else { (1024 + m, 25 - e) };
    (2 * mm * k + (1u64 << sh)) >> (sh + 1)
}
fn unorm8_to_f32_bits(v: u8) -> u32 {
    ((v as f64 / 255.0) as f32).to_bits()
}

// ---------------------------------------------------------------------------------------------
// run: block lines
// ---------------------------------------------------------------------------------------------

#[derive(Clone, Copy, PartialEq)]
enum Fmt {
    B7,
    B6U,
    B6S,
}
impl Fmt {
    fn tag(self) -> &'static str {
        match self {
            Fmt::B7 => "b7",
            Fmt::B6U => "b6u",
            Fmt::B6S => "b6s",
        }
    }
    fn channels(self) -> usize {
        if self == Fmt::B7 {
            4
        } else {
            3
        }
    }
}

fn parse_hex(s: &str) -> Option<Vec<u8>> {
    let b = s.as_bytes();
    if b.len() % 2 != 0 {
        return None;
    }
    let d = |c: u8| -> Option<u8> {
        match c {
            b'0'..=b'9' => Some(c - b'0'),
            b'a'..=b'f' => Some(c - b'a' + 10),
            _ => None,
        }
    };
    let mut v = Vec::with_capacity(b.len() / 2);
    for p in b.chunks(2) {
        v.push(d(p[0])? * 16 + d(p[1])?);
    }
    Some(v)
}
fn to_hex(b: &[u8]) -> String {
    const H: &[u8; 16] = b"0123456789abcdef";
    let mut s = String::with_capacity(b.len() * 2);
    for &x in b {
        s.push(H[(x >> 4) as usize] as char);
        s.push(H[(x & 15) as usize] as char);
    }
    s
}

fn fnv(h: &mut u32, byte: u8) {
    *h ^= byte as u32;
    *h = h.wrapping_mul(0x0100_0193);
}

/// decode the whole surface at one precision; Err(()) if the library returns an error
fn lib_decode(data: &[u8], w: u32, h: u32, fmt: Fmt, prec: Precision) -> Result<Vec<u8>, ()> {
    let c = fmt.channels();
    let bytes = match prec {
        Precision::U8 => 1,
        Precision::U16 => 2,
        Precision::F32 => 4,
    };
    let mut buf = vec![0u8; w as usize * h as usize * c * bytes];
    let channels = if fmt == Fmt::B7 { Channels::Rgba } else { Channels::Rgb };
    let format = match fmt {
        Fmt::B7 => Format::BC7_UNORM,
        Fmt::B6U => Format::BC6H_UF16,
        Fmt::B6S => Format::BC6H_SF16,
    };
    let view = ImageViewMut::new(&mut buf, Size::new(w, h), ColorFormat::new(channels, prec)).ok_or(())?;
    let mut reader: &[u8] = data;
    match dds::decode(&mut reader, view, format, &DecodeOptions::default()) {
        Ok(()) => Ok(buf),
        Err(_) => Err(()),
    }
}

fn run_blocks(fmt: Fmt, t: &[&str]) -> Option<(String, Vec<String>)> {
    if t.len() != 3 {
        return None;
    }
    let wb = p_usize(t[1])?;
    let data = parse_hex(t[2])?;
    if data.is_empty() || data.len() % 16 != 0 || wb == 0 {
        return None;
    }
    let n = data.len() / 16;
    if n % wb != 0 {
        return None;
    }
    let hb = n / wb;
    let (w, h) = (4 * wb, 4 * hb);
    let c = fmt.channels();

    let o8 = lib_decode(&data, w as u32, h as u32, fmt, Precision::U8);
    let o16 = lib_decode(&data, w as u32, h as u32, fmt, Precision::U16);
    let o32 = lib_decode(&data, w as u32, h as u32, fmt, Precision::F32);
    let (o8, o16, o32) = match (o8, o16, o32) {
        (Ok(a), Ok(b), Ok(c)) => (a, b, c),
        _ => return Some(("err".to_string(), vec![])),
    };

    let mut res = String::with_capacity(3 + 9 * n);
    res.push_str("ok");
    let mut oracle = vec![];
    let mut per_kind = [0usize; 3];
    let mut v8 = vec![0u8; 16 * c];
    let mut v16 = vec![0u16; 16 * c];
    let mut v32 = vec![0u32; 16 * c];
    for k in 0..n {
        let (bx, by) = (k % wb, k / wb);
        for j in 0..16 {
            let (x, y) = (4 * bx + (j & 3), 4 * by + (j >> 2));
            let p = (y * w + x) * c;
            for ch in 0..c {
                let i = p + ch;
                v8[j * c + ch] = o8[i];
                v16[j * c + ch] = u16::from_ne_bytes([o16[2 * i], o16[2 * i + 1]]);
                v32[j * c + ch] =
                    f32::from_ne_bytes([o32[4 * i], o32[4 * i + 1], o32[4 * i + 2], o32[4 * i + 3]]).to_bits();
            }
        }
        let mut hsh = 0x811c_9dc5u32;
        for &v in &v8 {
            fnv(&mut hsh, v);
        }
        for &v in &v16 {
            for b in v.to_le_bytes() {
                fnv(&mut hsh, b);
            }
        }
        for &v in &v32 {
            for b in v.to_le_bytes() {
                fnv(&mut hsh, b);
            }
        }
        res.push_str(&format!(" {hsh:08x}"));

        // oracle: per block at most one message per precision; per case at most 2 per precision, 5 total
        if oracle.len() < 5 {
            let blk = &data[16 * k..16 * k + 16];
            let bits = u128::from_le_bytes(blk.try_into().unwrap());
            let mut s8 = vec![0u8; 16 * c];
            let mut s16 = vec![0u16; 16 * c];
            let mut s32 = vec![0u32; 16 * c];
            match fmt {
                Fmt::B7 => {
                    let px = bc7_spec(bits);
                    for j in 0..16 {
                        for ch in 0..4 {
                            let v = px[j][ch];
                            s8[j * 4 + ch] = v;
                            s16[j * 4 + ch] = v as u16 * 257;
                            s32[j * 4 + ch] = unorm8_to_f32_bits(v);
                        }
                    }
                }
                Fmt::B6U | Fmt::B6S => {
                    let px = bc6_spec(bits, fmt == Fmt::B6S);
                    for j in 0..16 {
                        for ch in 0..3 {
                            let hv = px[j][ch];
                            s8[j * 3 + ch] = half_to_unorm(hv, 255) as u8;
                            s16[j * 3 + ch] = half_to_unorm(hv, 65535) as u16;
                            s32[j * 3 + ch] = half_to_f32_bits(hv);
                        }
                    }
                }
            }
            let pre = format!("{} block {} {}", fmt.tag(), k, to_hex(blk));
            for which in 0..3usize {
                if per_kind[which] >= 2 || oracle.len() >= 5 {
                    continue;
                }
                for i in 0..16 * c {
                    let (j, ch) = (i / c, i % c);
                    let m = match which {
                        0 if v8[i] != s8[i] => {
                            Some(format!("{pre} U8 pixel {j} ch {ch}: impl {} spec {}", v8[i], s8[i]))
                        }
                        1 if v16[i] != s16[i] => {
                            Some(format!("{pre} U16 pixel {j} ch {ch}: impl {} spec {}", v16[i], s16[i]))
                        }
                        2 if v32[i] != s32[i] => Some(format!(
                            "{pre} F32 pixel {j} ch {ch}: impl 0x{:08x} spec 0x{:08x}",
                            v32[i], s32[i]
                        )),
                        _ => None,
                    };
                    if let Some(m) = m {
                        oracle.push(m);
                        per_kind[which] += 1;
                        break;
                    }
                }
            }
        }
    }
    Some((res, oracle))
}

// ---------------------------------------------------------------------------------------------
// run: table tie (library SOURCE TEXT vs the pinned spec tables above)
// ---------------------------------------------------------------------------------------------

struct Src {
    bcn_data: String,
    bc7: String,
    bc6: String,
}
fn dds_src_dir() -> Option<String> {
    let toml = std::fs::read_to_string(concat!(env!("CARGO_MANIFEST_DIR"), "/Cargo.toml")).ok()?;
    for l in toml.lines() {
        let l = l.trim();
        if l.starts_with("dds") && l[3..].trim_start().starts_with('=') {
            let i = l.find("path")?;
            let rest = &l[i..];
            let q1 = rest.find('"')?;
            let q2 = rest[q1 + 1..].find('"')?;
            return Some(rest[q1 + 1..q1 + 1 + q2].to_string());
        }
    }
    None
}
fn sources() -> &'static Src {
    static S: OnceLock<Src> = OnceLock::new();
    S.get_or_init(|| {
        let dir = dds_src_dir().unwrap_or_default();
        let rd = |p: &str| std::fs::read_to_string(format!("{dir}/{p}")).unwrap_or_default();
        Src { bcn_data: rd("src/bcn_data.rs"), bc7: rd("src/decode/bc7.rs"), bc6: rd("src/decode/bc6.rs") }
    })
}

/// the text between the `{`/`[` at or after `from` and its matching closer
fn balanced(s: &str, from: usize, open: u8, close: u8) -> Option<&str> {
    let b = s.as_bytes();
    let start = from + s[from..].find(open as char)?;
    let mut depth = 0usize;
    for i in start..b.len() {
        if b[i] == open {
            depth += 1;
        } else if b[i] == close {
            depth -= 1;
            if depth == 0 {
                return Some(&s[start + 1..i]);
            }
        }
    }
    None
}

/// i-th `<func>(*b"...")` literal inside `<NAME>: [...; 64] = [ ... ];`
fn subset_literal(src: &str, table: &str, func: &str, i: usize) -> Option<String> {
    let at = src.find(&format!("{table}:"))?;
    let eq = at + src[at..].find('=')?;
    let body = balanced(src, eq, b'[', b']')?;
    let pat = format!("{func}(*b\"");
    let mut pos = 0usize;
    let mut n = 0usize;
    while let Some(p) = body[pos..].find(&pat) {
        let s = pos + p + pat.len();
        let e = s + body[s..].find('"')?;
        if n == i {
            return Some(body[s..e].to_string());
        }
        n += 1;
        pos = e;
    }
    None
}

/// `const NAME: [..] = [a, b, c];` -> "a,b,c" (decimal)
fn const_array(src: &str, name: &str) -> Option<String> {
    let at = src.find(&format!("const {name}:"))?;
    let eq = at + src[at..].find('=')?;
    let body = balanced(src, eq, b'[', b']')?;
    let mut v = vec![];
    for e in body.split(',') {
        let e = e.trim();
        if e.is_empty() {
            continue;
        }
        let x: u64 = e.parse().ok()?;
        v.push(x.to_string());
    }
    Some(v.join(","))
}

/// consume! sequence of arm `ModeTwo::<name>` in fn extract_compressed_endpoints_two
fn mode_two_fields(src: &str, name: &str) -> Option<String> {
    let at = src.find("fn extract_compressed_endpoints_two")?;
    let func = balanced(src, at, b'{', b'}')?;
    let arm_pat = format!("ModeTwo::{name} =>");
    let a = func.find(&arm_pat)?;
    let arm = balanced(func, a + arm_pat.len(), b'{', b'}')?;
    let mut toks = vec![];
    let mut pos = 0usize;
    while let Some(p) = arm[pos..].find("consume!(") {
        let s = pos + p + "consume!(".len();
        let e = s + arm[s..].find(')')?;
        let args: Vec<String> =
            arm[s..e].split(',').map(|a| a.chars().filter(|c| !c.is_whitespace()).collect()).collect();
        if args.len() != 3 {
            return None;
        }
        toks.push(format!("{}{}{}", args[0], args[1], args[2]));
        pos = e;
    }
    if toks.is_empty() {
        return None;
    }
    Some(toks.join(","))
}

/// expand `gy4,rw9..0,...` to per-bit (channel, endpoint, bit) in stream order
fn expand_tokens(s: &str) -> Option<Vec<(u8, u8, u8)>> {
    let mut v = vec![];
    for t in s.split(',') {
        let b = t.as_bytes();
        if b.len() < 3 {
            return None;
        }
        let (ch, ep) = (b[0], b[1]);
        let rest = &t[2..];
        let (l, r): (u8, u8) = match rest.split_once("..") {
            Some((l, r)) => (l.parse().ok()?, r.parse().ok()?),
            None => {
                let k = rest.parse().ok()?;
                (k, k)
            }
        };
        for k in hf_bits(HF { ch: 0, ep: 0, left: l, right: r }) {
            v.push((ch, ep, k));
        }
    }
    Some(v)
}
/// spec header of a two-region mode in the tie's notation (without mode and partition bits)
fn spec_mode_two(name: &str) -> Option<String> {
    let mi = MODES6.iter().position(|m| m.name == name && m.regions == 2)?;
    let mut toks = vec![];
    for f in &headers6()[mi] {
        if f.ch == 3 {
            continue;
        }
        let ch = [b'r', b'g', b'b'][f.ch as usize] as char;
        let ep = [b'w', b'x', b'y', b'z'][f.ep as usize] as char;
        if f.left == f.right {
            toks.push(format!("{ch}{ep}{}", f.left));
        } else {
            toks.push(format!("{ch}{ep}{}..{}", f.left, f.right));
        }
    }
    Some(toks.join(","))
}

fn spec_p2(i: usize) -> String {
    let mut s = String::new();
    for px in 0..16 {
        if px == A2[i] as usize {
            s.push('-');
        }
        s.push((b'0' + P2[i][px]) as char);
    }
    s
}
fn spec_p3(i: usize) -> String {
    let mut s = String::new();
    for px in 0..16 {
        if px == A3A[i] as usize || px == A3B[i] as usize {
            s.push('-');
        }
        s.push((b'0' + P3[i][px]) as char);
    }
    s
}

fn run_tbl(t: &[&str]) -> Option<(String, Vec<String>)> {
    if t.len() != 3 {
        return None;
    }
    let src = sources();
    let name = t[1];
    let csv = |w: &[u32], mul: u32| w.iter().map(|x| (x * mul).to_string()).collect::<Vec<_>>().join(",");
    let (found, expected, prefix): (Option<String>, String, &str) = match name {
        "p2" | "p3" => {
            let i = p_usize(t[2])?;
            if i >= 64 {
                return None;
            }
            if name == "p2" {
                (subset_literal(&src.bcn_data, "PARTITION_SET_2", "subset2", i), spec_p2(i), "s")
            } else {
                (subset_literal(&src.bcn_data, "PARTITION_SET_3", "subset3", i), spec_p3(i), "s")
            }
        }
        "w7_2" | "w7_3" | "w7_4" | "w6_3" | "w6_4" => {
            if t[2] != "0" {
                return None;
            }
            match name {
                "w7_2" => (const_array(&src.bc7, "WEIGHTS_2"), csv(&W2, 4), "w"),
                "w7_3" => (const_array(&src.bc7, "WEIGHTS_3"), csv(&W3, 4), "w"),
                "w7_4" => (const_array(&src.bc7, "WEIGHTS_4"), csv(&W4, 4), "w"),
                "w6_3" => (const_array(&src.bc6, "WEIGHT_3"), csv(&W3, 1), "w"),
                _ => (const_array(&src.bc6, "WEIGHT_4"), csv(&W4, 1), "w"),
            }
        }
        "m6" => {
            let exp = spec_mode_two(t[2])?;
            (mode_two_fields(&src.bc6, t[2]), exp, "m")
        }
        _ => return None,
    };
    let mut oracle = vec![];
    let res = match &found {
        None => {
            oracle.push(format!("table {name} {}: found missing expected {expected}", t[2]));
            "missing".to_string()
        }
        Some(f) => {
            let same = if name == "m6" {
                // same field bits in the same stream order (ranges may be split differently)
                expand_tokens(f).is_some() && expand_tokens(f) == expand_tokens(&expected)
            } else {
                *f == expected
            };
            if !same {
                oracle.push(format!("table {name} {}: found {f} expected {expected}", t[2]));
            }
            format!("{prefix} {f}")
        }
    };
    Some((res, oracle))
}

pub fn run(line: &str) -> Option<(String, Vec<String>)> {
    let t = toks(line);
    match *t.first()? {
        "b7" => run_blocks(Fmt::B7, &t),
        "b6u" => run_blocks(Fmt::B6U, &t),
        "b6s" => run_blocks(Fmt::B6S, &t),
        "tbl" => run_tbl(&t),
        _ => None,
    }
}

// ---------------------------------------------------------------------------------------------
// gen
// ---------------------------------------------------------------------------------------------

/// LSB-first field writer
struct Wr {
    v: u128,
    pos: u32,
}
impl Wr {
    fn new() -> Self {
        Wr { v: 0, pos: 0 }
    }
    fn put(&mut self, val: u128, n: u32) {
        if n == 0 {
            return;
        }
        let mask = if n >= 128 { u128::MAX } else { (1u128 << n) - 1 };
        self.v |= (val & mask) << self.pos;
        self.pos += n;
    }
}
#[derive(Clone, Copy, PartialEq)]
enum Fill {
    Zero,
    One,
    Rand,
    /// BC7 endpoints only: every channel holds one random value in all of its endpoint fields (both endpoints of
    /// every subset are the same colour — the blocks an encoder emits for flat areas, and the ones "solid block"
    /// shortcuts in a decoder would take)
    Solid,
}
fn rand128(rng: &mut Rng) -> u128 {
    ((rng.next() as u128) << 64) | rng.next() as u128
}
fn fill_bits(f: Fill, n: u32, rng: &mut Rng) -> u128 {
    let mask = if n >= 128 { u128::MAX } else { (1u128 << n) - 1 };
    match f {
        Fill::Zero => 0,
        Fill::One => mask,
        Fill::Rand | Fill::Solid => rand128(rng) & mask,
    }
}

/// BC7 block of `mode` with selector fields `sel` (partition | rotation + 4*index selection),
/// p-bit pattern `pbits`, endpoint bits / index bits filled as told
fn bc7_build(mode: usize, sel: u32, pbits: u32, epf: Fill, ixf: Fill, rng: &mut Rng) -> u128 {
    let m = MODES7[mode];
    let mut w = Wr::new();
    w.put(1u128 << mode, mode as u32 + 1);
    w.put(sel as u128, m.pb);
    w.put((sel & 3) as u128, m.rb);
    w.put((sel >> 2) as u128, m.isb);
    let ne = m.ns * 2;
    let epbits = ne * m.cb * 3 + ne * m.ab;
    if let Fill::Solid = epf {
        for (chans, bits) in [(3, m.cb), (1, m.ab)] {
            for _ in 0..chans {
                let val = rng.next() as u128 & ((1u128 << bits) - 1);
                for _ in 0..ne {
                    w.put(val, bits);
                }
            }
        }
    } else {
        let v = fill_bits(epf, epbits, rng);
        w.put(v, epbits);
    }
    let npb = ne * m.epb + m.ns * m.spb;
    w.put(pbits as u128, npb);
    let rest = 128 - w.pos;
    let v = fill_bits(ixf, rest, rng);
    w.put(v, rest);
    w.v
}

#[derive(Clone, Copy, PartialEq)]
enum Ep6 {
    Zeros,
    Ones,
    BaseOnesDeltaMaxPos,
    BaseOnesDeltaMaxNeg,
    BaseZeroDeltaMaxNeg,
    BaseZeroDeltaMinusOne,
    BaseMinDeltaZero,
    BaseMinDeltaMaxNeg,
    Rand,
}
const EP6_FIXED: [Ep6; 8] = [
    Ep6::Zeros,
    Ep6::Ones,
    Ep6::BaseOnesDeltaMaxPos,
    Ep6::BaseOnesDeltaMaxNeg,
    Ep6::BaseZeroDeltaMaxNeg,
    Ep6::BaseZeroDeltaMinusOne,
    Ep6::BaseMinDeltaZero,
    Ep6::BaseMinDeltaMaxNeg,
];

/// BC6H block: low 5 bits forced to `code`, bits 77..81 forced to `part`
fn bc6_build(code: u32, part: u32, ep: Ep6, ixf: Fill, rng: &mut Rng) -> u128 {
    let low2 = code & 3;
    let mi = MODES6.iter().position(|m| m.code == if low2 < 2 { low2 } else { code });
    let mut v = match mi {
        None => match ep {
            Ep6::Zeros => 0,
            Ep6::Ones => u128::MAX,
            _ => rand128(rng),
        },
        Some(mi) => {
            let m = &MODES6[mi];
            let mut raw = [[0u32; 3]; 4];
            for c in 0..3 {
                let bm = ((1u64 << m.prec) - 1) as u32;
                let dm = (1u32 << m.delta[c]) - 1;
                let (base, delta) = match ep {
                    Ep6::Zeros => (0, 0),
                    Ep6::Ones => (bm, dm),
                    Ep6::BaseOnesDeltaMaxPos => (bm, dm >> 1),
                    Ep6::BaseOnesDeltaMaxNeg => (bm, (dm >> 1) + 1),
                    Ep6::BaseZeroDeltaMaxNeg => (0, (dm >> 1) + 1),
                    Ep6::BaseZeroDeltaMinusOne => (0, dm),
                    Ep6::BaseMinDeltaZero => ((bm >> 1) + 1, 0),
                    Ep6::BaseMinDeltaMaxNeg => ((bm >> 1) + 1, (dm >> 1) + 1),
                    Ep6::Rand => (0, 0),
                };
                raw[0][c] = base;
                for e in 1..4 {
                    raw[e][c] = delta;
                }
                if ep == Ep6::Rand {
                    raw[0][c] = rng.next() as u32 & bm;
                    for e in 1..4 {
                        raw[e][c] = rng.next() as u32 & dm;
                    }
                }
            }
            let mut w = Wr::new();
            w.put(m.code as u128, m.code_bits);
            for &f in &headers6()[mi] {
                for k in hf_bits(f) {
                    let bit = if f.ch == 3 { (part >> k) & 1 } else { (raw[f.ep as usize][f.ch as usize] >> k) & 1 };
                    w.put(bit as u128, 1);
                }
            }
            let rest = 128 - w.pos;
            let ix = fill_bits(ixf, rest, rng);
            w.put(ix, rest);
            w.v
        }
    };
    v = (v & !(31u128 << 77)) | (((part & 31) as u128) << 77);
    v = (v & !31u128) | (code & 31) as u128;
    v
}

/// half-value sweep block: mode 01111, endpoint 0 = (r,g,b) direct 16 bit, all index bits 0
fn bc6_sweep(r: u32, g: u32, b: u32, rng: &mut Rng) -> u128 {
    let mi = MODES6.iter().position(|m| m.code == 0b01111).unwrap();
    let m = &MODES6[mi];
    let base = [r & 0xffff, g & 0xffff, b & 0xffff];
    let delta = [rng.next() as u32 & 15, rng.next() as u32 & 15, rng.next() as u32 & 15];
    let mut w = Wr::new();
    w.put(m.code as u128, m.code_bits);
    for &f in &headers6()[mi] {
        for k in hf_bits(f) {
            let src = if f.ep == 0 { base[f.ch as usize] } else { delta[f.ch as usize] };
            w.put(((src >> k) & 1) as u128, 1);
        }
    }
    w.v // index bits 65..127 stay 0
}

fn flush(out: &mut Vec<String>, tag: &str, blocks: &mut Vec<u128>) {
    for chunk in blocks.chunks(64) {
        let n = chunk.len();
        let w = if n % 8 == 0 { 8 } else { n };
        let mut bytes = Vec::with_capacity(16 * n);
        for b in chunk {
            bytes.extend_from_slice(&b.to_le_bytes());
        }
        out.push(format!("{tag} {w} {}", to_hex(&bytes)));
    }
    blocks.clear();
}

pub fn gen(seed: u64, thorough: bool) -> Vec<String> {
    let mut rng = Rng::new(seed);
    let mut out = vec![];
    let mult: usize = if thorough { 20 } else { 1 };

    // ---- table tie
    for i in 0..64 {
        out.push(format!("tbl p2 {i}"));
    }
    for i in 0..64 {
        out.push(format!("tbl p3 {i}"));
    }
    for n in ["w7_2", "w7_3", "w7_4", "w6_3", "w6_4"] {
        out.push(format!("tbl {n} 0"));
    }
    for m in MODES6.iter().filter(|m| m.regions == 2) {
        out.push(format!("tbl m6 {}", m.name));
    }

    // ---- BC7 structured
    let mut blocks: Vec<u128> = vec![];
    let fixed7 = [
        (Fill::Zero, Fill::Zero),
        (Fill::One, Fill::One),
        (Fill::Zero, Fill::One),
        (Fill::One, Fill::Zero),
    ];
    for mode in 0..8usize {
        let m = MODES7[mode];
        let nsel = 1u32 << (m.pb + m.rb + m.isb);
        let npb = m.ns * 2 * m.epb + m.ns * m.spb;
        let combos = (nsel as usize) << npb;
        // at least 4 random payloads per combination, and at least ~2048 blocks per mode
        let nrand = (4 * mult).max(((2048 * mult + combos - 1) / combos).saturating_sub(4));
        for sel in 0..nsel {
            for pb in 0..(1u32 << npb) {
                for &(e, i) in &fixed7 {
                    blocks.push(bc7_build(mode, sel, pb, e, i, &mut rng));
                }
                // flat-colour blocks: equal endpoints in every channel, for every partition / rotation / selector / p-bits
                for i in [Fill::Rand, Fill::Zero, Fill::One] {
                    blocks.push(bc7_build(mode, sel, pb, Fill::Solid, i, &mut rng));
                }
                for r in 0..nrand {
                    // a few with one side pinned
                    let (e, i) = match r % 8 {
                        5 => (Fill::Rand, Fill::Zero),
                        6 => (Fill::Rand, Fill::One),
                        7 => (Fill::One, Fill::Rand),
                        _ => (Fill::Rand, Fill::Rand),
                    };
                    blocks.push(bc7_build(mode, sel, pb, e, i, &mut rng));
                }
            }
        }
    }
    // reserved "mode 8": low byte zero
    blocks.push(0);
    blocks.push(u128::MAX << 8);
    for _ in 0..254 * mult {
        blocks.push(rand128(&mut rng) << 8);
    }
    flush(&mut out, "b7", &mut blocks);

    // ---- BC6H structured (both formats)
    for tag in ["b6u", "b6s"] {
        for code in 0..32u32 {
            for part in 0..32u32 {
                for &ep in &EP6_FIXED {
                    for ixf in [Fill::Zero, Fill::One, Fill::Rand] {
                        blocks.push(bc6_build(code, part, ep, ixf, &mut rng));
                    }
                }
                for _ in 0..4 * mult {
                    blocks.push(bc6_build(code, part, Ep6::Rand, Fill::Rand, &mut rng));
                }
            }
        }
        // exhaustive half sweep: every 16-bit endpoint value appears in some channel
        for k in 0..21846u32 {
            blocks.push(bc6_sweep(3 * k, 3 * k + 1, 3 * k + 2, &mut rng));
        }
        flush(&mut out, tag, &mut blocks);
    }

    // ---- PRNG
    for tag in ["b7", "b6u", "b6s"] {
        for _ in 0..4096 * mult {
            blocks.push(rand128(&mut rng));
        }
        flush(&mut out, tag, &mut blocks);
    }
    out
}
