pub fn gen(_seed: u64, _thorough: bool) -> Vec<String> {
    vec![]
}
pub fn run(_line: &str) -> Option<(String, Vec<String>)> {
    None
}
