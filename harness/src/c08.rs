//! C08: any sequence of decoder operations stays in step with the layout.
//!
//! `D <kind> <w> <h> <d|-> <mips> <px> <format> <op>...`
//! ops: r:w:h  x:ox:oy:w:h  s  m  p  0  c:w:h
use crate::c02::{kind_parse, make_header, Kind, Px};
use crate::common::*;
use dds::*;
use std::cell::RefCell;
use std::io::{Cursor, Read, Seek, SeekFrom};
use std::rc::Rc;

#[derive(Clone)]
struct Shared(Rc<RefCell<Cursor<Vec<u8>>>>);
impl Read for Shared {
    fn read(&mut self, buf: &mut [u8]) -> std::io::Result<usize> {
        self.0.borrow_mut().read(buf)
    }
}
impl Seek for Shared {
    fn seek(&mut self, pos: SeekFrom) -> std::io::Result<u64> {
        self.0.borrow_mut().seek(pos)
    }
}

const FORMATS: &[(&str, Format, Px)] = &[
    ("R8_UNORM", Format::R8_UNORM, Px::F(1)),
    ("BC1_UNORM", Format::BC1_UNORM, Px::B(8, 4, 4)),
    ("NV12", Format::NV12, Px::P(1, 2, 2, 2)),
    ("R8G8_B8G8_UNORM", Format::R8G8_B8G8_UNORM, Px::B(4, 2, 1)),
    ("R8G8B8A8_UNORM", Format::R8G8B8A8_UNORM, Px::F(4)),
    ("BC3_UNORM", Format::BC3_UNORM, Px::B(16, 4, 4)),
    // in-place converting copy paths (signed bytes into U8)
    ("R8G8B8A8_SNORM", Format::R8G8B8A8_SNORM, Px::F(4)),
    ("R8_SNORM", Format::R8_SNORM, Px::F(1)),
];

fn format_by_name(n: &str) -> Option<(Format, Px)> {
    FORMATS.iter().find(|f| f.0 == n).map(|f| (f.1, f.2))
}

// ---------------------------------------------------------------------------
// the specification: a simple cursor over the flattened surface list
#[derive(Clone, Debug)]
pub struct SpecSurf {
    pub w: u32,
    pub h: u32,
    pub len: u64,
    pub off: u64,
    pub elem: u64,
    pub level: u32,
    pub slice: u32,
}
pub struct Spec {
    pub flat: Vec<SpecSurf>,
    pub total: u64,
    pub is_volume: bool,
    pub mips: u32,
    pub faces: Option<u32>,
    pub face_size: (u32, u32),
}
fn mip(d: u32, l: u32) -> u32 {
    if l >= 32 {
        1
    } else {
        (d >> l).max(1)
    }
}
pub fn build_spec(kind: &Kind, w: u32, h: u32, d: Option<u32>, mips: u32, px: Px) -> Spec {
    let (n_elem, is_volume, faces, h): (u64, bool, Option<u32>, u32) = match kind {
        Kind::Dx10 { cube: true, array, .. } => (*array as u64 * 6, false, Some(63), h),
        Kind::Dx10 { dim: 3, .. } => (1, true, None, h),
        Kind::Dx10 { dim: 1, array, .. } => (*array as u64, false, None, 1),
        Kind::Dx10 { array, .. } => (*array as u64, false, None, h),
        Kind::Dx9 { caps2 } => {
            if caps2 & 0x200 != 0 {
                let f = (caps2 >> 10) & 63;
                (f.count_ones() as u64, false, Some(f), h)
            } else if caps2 & 0x200000 != 0 {
                (1, true, None, h)
            } else {
                (1, false, None, h)
            }
        }
    };
    let mut flat = vec![];
    let mut off = 0u64;
    if is_volume {
        let d0 = d.unwrap_or(1);
        for l in 0..mips {
            let (mw, mh, md) = (mip(w, l), mip(h, l), mip(d0, l));
            let len = px.ideal(mw as u128, mh as u128) as u64;
            for k in 0..md {
                flat.push(SpecSurf { w: mw, h: mh, len, off, elem: 0, level: l, slice: k });
                off += len;
            }
        }
    } else {
        for e in 0..n_elem {
            for l in 0..mips {
                let (mw, mh) = (mip(w, l), mip(h, l));
                let len = px.ideal(mw as u128, mh as u128) as u64;
                flat.push(SpecSurf { w: mw, h: mh, len, off, elem: e, level: l, slice: 0 });
                off += len;
            }
        }
    }
    // a plain (non-cube) texture array is not a cube map; a single texture neither
    let faces = match kind {
        Kind::Dx10 { cube: true, .. } => faces,
        Kind::Dx9 { caps2 } if caps2 & 0x200 != 0 => faces,
        _ => None,
    };
    Spec { flat, total: off, is_volume, mips, faces, face_size: (w, h) }
}

const FACE_CELLS: [(u32, u32, u32); 6] = [(1, 2, 1), (2, 0, 1), (4, 1, 0), (8, 1, 2), (16, 1, 1), (32, 3, 1)];

impl Spec {
    fn pos(&self, k: usize) -> u64 {
        if k < self.flat.len() {
            self.flat[k].off
        } else {
            self.total
        }
    }
    /// (result name, new cursor, cells)
    fn step(&self, k: usize, op: &Op) -> (String, usize, Vec<(u32, u32)>) {
        let n = self.flat.len();
        let norm = |w: u32, h: u32| if w == 0 || h == 0 { (0, 0) } else { (w, h) };
        match op {
            Op::Read(w, h) => {
                if k >= n {
                    return ("NoMoreSurfaces".into(), k, vec![]);
                }
                if norm(*w, *h) != (self.flat[k].w, self.flat[k].h) {
                    return ("UnexpectedSurfaceSize".into(), k, vec![]);
                }
                ("ok".into(), k + 1, vec![])
            }
            Op::Rect(ox, oy, w, h) => {
                if k >= n {
                    return ("NoMoreSurfaces".into(), k, vec![]);
                }
                let (w, h) = norm(*w, *h);
                let s = &self.flat[k];
                if *ox as u64 + w as u64 > s.w as u64 || *oy as u64 + h as u64 > s.h as u64 {
                    return ("RectOutOfBounds".into(), k, vec![]);
                }
                ("ok".into(), k + 1, vec![])
            }
            Op::Skip => {
                if k >= n {
                    ("NoMoreSurfaces".into(), k, vec![])
                } else {
                    ("ok".into(), k + 1, vec![])
                }
            }
            Op::SkipMips => {
                if k >= n {
                    return ("ok".into(), k, vec![]);
                }
                let s = &self.flat[k];
                if self.is_volume {
                    if s.slice != 0 {
                        return ("CannotSkipMipmapsInVolume".into(), k, vec![]);
                    }
                    if s.level == 0 {
                        return ("ok".into(), k, vec![]);
                    }
                    ("ok".into(), n, vec![])
                } else if s.level == 0 {
                    ("ok".into(), k, vec![])
                } else {
                    ("ok".into(), ((s.elem + 1) * self.mips as u64) as usize, vec![])
                }
            }
            Op::Prev => ("ok".into(), k.saturating_sub(1), vec![]),
            Op::Start => ("ok".into(), 0, vec![]),
            Op::Cube(w, h) => {
                let faces = match self.faces {
                    None => return ("NotACubeMap".into(), k, vec![]),
                    Some(f) => f,
                };
                let (fw, fh) = self.face_size;
                let iw = (fw as u64) * 4;
                let ih = (fh as u64) * 3;
                let (w, h) = norm(*w, *h);
                if iw != w as u64 || ih != h as u64 || iw > u32::MAX as u64 || ih > u32::MAX as u64 {
                    return ("UnexpectedSurfaceSize".into(), k, vec![]);
                }
                let mut k = k;
                let mut cells = vec![];
                for (bit, x, y) in FACE_CELLS {
                    if faces & bit == 0 {
                        continue;
                    }
                    if k >= n {
                        return ("NoMoreSurfaces".into(), k, cells);
                    }
                    if (self.flat[k].w, self.flat[k].h) != (fw, fh) {
                        return ("UnexpectedSurfaceSize".into(), k, cells);
                    }
                    cells.push((x, y));
                    // read one surface, then skip the remaining mip levels of that element
                    let nk = k + 1;
                    k = if nk < n && self.flat[nk].level != 0 {
                        ((self.flat[nk].elem + 1) * self.mips as u64) as usize
                    } else {
                        nk
                    };
                }
                ("ok".into(), k, cells)
            }
        }
    }
    fn info(&self, k: usize) -> String {
        if k < self.flat.len() {
            let s = &self.flat[k];
            format!("{},{},{},{} more", s.w, s.h, s.len, (s.level != 0) as u8)
        } else {
            "- done".into()
        }
    }
}

#[derive(Clone, Debug)]
enum Op {
    Read(u32, u32),
    Rect(u32, u32, u32, u32),
    Skip,
    SkipMips,
    Prev,
    Start,
    Cube(u32, u32),
}
impl Op {
    fn fmt(&self) -> String {
        match self {
            Op::Read(w, h) => format!("r:{w}:{h}"),
            Op::Rect(a, b, c, d) => format!("x:{a}:{b}:{c}:{d}"),
            Op::Skip => "s".into(),
            Op::SkipMips => "m".into(),
            Op::Prev => "p".into(),
            Op::Start => "0".into(),
            Op::Cube(w, h) => format!("c:{w}:{h}"),
        }
    }
    fn parse(s: &str) -> Option<Op> {
        let p: Vec<&str> = s.split(':').collect();
        let n = |i: usize| -> Option<u32> { p.get(i)?.parse().ok() };
        Some(match p[0] {
            "r" => Op::Read(n(1)?, n(2)?),
            "x" => Op::Rect(n(1)?, n(2)?, n(3)?, n(4)?),
            "s" => Op::Skip,
            "m" => Op::SkipMips,
            "p" => Op::Prev,
            "0" => Op::Start,
            "c" => Op::Cube(n(1)?, n(2)?),
            _ => return None,
        })
    }
}

struct LayoutSpec {
    kind: Kind,
    pub w: u32,
    pub h: u32,
    d: Option<u32>,
    pub mips: u32,
}

fn layouts(rng: &mut Rng) -> Vec<LayoutSpec> {
    let mut v = vec![];
    let tex = Kind::Dx9 { caps2: 0 };
    let mut push = |kind: Kind, w, h, d, mips| v.push(LayoutSpec { kind, w, h, d, mips });
    push(tex.clone(), 5, 3, None, 1);
    push(tex.clone(), 5, 3, None, 3);
    push(tex.clone(), 8, 4, None, 4);
    push(tex.clone(), 1, 1, None, 1);
    push(tex.clone(), 2, 2, None, 5);
    push(Kind::Dx10 { cube: false, dim: 2, array: 0 }, 4, 4, None, 2);
    push(Kind::Dx10 { cube: false, dim: 2, array: 1 }, 4, 6, None, 3);
    push(Kind::Dx10 { cube: false, dim: 2, array: 3 }, 6, 4, None, 1);
    push(Kind::Dx10 { cube: false, dim: 2, array: 3 }, 6, 4, None, 3);
    push(Kind::Dx10 { cube: false, dim: 1, array: 1 }, 9, 7, None, 2);
    push(Kind::Dx10 { cube: false, dim: 1, array: 2 }, 4, 1, None, 3);
    push(Kind::Dx10 { cube: true, dim: 2, array: 1 }, 4, 4, None, 1);
    push(Kind::Dx10 { cube: true, dim: 2, array: 1 }, 4, 2, None, 3);
    push(Kind::Dx10 { cube: true, dim: 2, array: 2 }, 2, 2, None, 2);
    push(Kind::Dx10 { cube: true, dim: 2, array: 0 }, 2, 2, None, 1);
    push(Kind::Dx9 { caps2: 0x200 | (63 << 10) }, 2, 4, None, 2);
    push(Kind::Dx9 { caps2: 0x200000 }, 4, 4, Some(1), 1);
    push(Kind::Dx9 { caps2: 0x200000 }, 4, 4, Some(3), 1);
    push(Kind::Dx9 { caps2: 0x200000 }, 4, 2, Some(5), 3);
    push(Kind::Dx10 { cube: false, dim: 3, array: 1 }, 3, 5, Some(4), 4);
    push(Kind::Dx10 { cube: false, dim: 3, array: 1 }, 2, 2, Some(2), 2);
    // each partial cube: the 63 non-empty face sets
    for faces in 1..64u32 {
        let mips = 1 + (faces % 3);
        let (w, h) = *rng.pick(&[(2u32, 2u32), (4, 2), (1, 1), (3, 5), (4, 4)]);
        push(Kind::Dx9 { caps2: 0x200 | (faces << 10) }, w, h, None, mips);
    }
    // mip chains longer than 32 levels (legal up to 255; levels >= 31 are 1x1(x1)): seed C11h
    push(Kind::Dx10 { cube: false, dim: 3, array: 1 }, 4, 2, Some(2), 40);
    push(Kind::Dx9 { caps2: 0x200000 }, 1, 1, Some(3), 255);
    push(Kind::Dx9 { caps2: 0x200000 }, 2, 6, Some(5), 35);
    push(tex.clone(), 3, 2, None, 36);
    push(Kind::Dx10 { cube: true, dim: 2, array: 1 }, 2, 2, None, 34);
    push(Kind::Dx10 { cube: false, dim: 2, array: 2 }, 5, 1, None, 33);
    v
}

fn valid_variants(spec: &Spec, k: usize, rng: &mut Rng, with_errors: bool) -> Vec<Op> {
    // the 7 operation kinds with parameters that are valid in the current state
    let (cw, ch) = if k < spec.flat.len() { (spec.flat[k].w, spec.flat[k].h) } else { (1, 1) };
    let mut ops = vec![Op::Read(cw, ch)];
    let rw = rng.range(1, cw as u64) as u32;
    let rh = rng.range(1, ch as u64) as u32;
    let ox = rng.below((cw - rw + 1) as u64) as u32;
    let oy = rng.below((ch - rh + 1) as u64) as u32;
    ops.push(Op::Rect(ox, oy, rw, rh));
    ops.push(Op::Skip);
    ops.push(Op::SkipMips);
    ops.push(Op::Prev);
    ops.push(Op::Start);
    let (fw, fh) = spec.face_size;
    ops.push(Op::Cube(fw.saturating_mul(4), fh.saturating_mul(3)));
    if with_errors {
        ops.push(Op::Read(cw + 1, ch));
        ops.push(Op::Read(ch.wrapping_add(7), cw));
        ops.push(Op::Read(0, ch));
        ops.push(Op::Rect(ox + 1, oy, cw - ox, rh));
        ops.push(Op::Rect(ox, oy, 0, rh));
        ops.push(Op::Rect(cw, ch, 0, 0));
        ops.push(Op::Rect(cw + 1, 0, 0, 0));
        ops.push(Op::Rect(u32::MAX, 0, 2, 1));
        ops.push(Op::Cube(fw * 4, fh * 3 + 1));
        ops.push(Op::Cube(fw, fh));
    }
    ops
}

pub fn gen(seed: u64, thorough: bool) -> Vec<String> {
    let mut rng = Rng::new(seed);
    let mut out = vec![];
    let ls = layouts(&mut rng);
    let depth = if thorough { 5 } else { 3 };
    for (li, l) in ls.iter().enumerate() {
        // exhaustive trees on two formats per layout, rotating
        for fi in 0..2 {
            let (fname, _, px) = FORMATS[(li + fi * 3) % FORMATS.len()];
            if li >= 21 && fi == 1 && !thorough {
                continue;
            }
            let spec = build_spec(&l.kind, l.w, l.h, l.d, l.mips, px);
            let head = format!(
                "D {} {} {} {} {} {} {}",
                match &l.kind {
                    Kind::Dx10 { cube, dim, array } => format!("x:{}:{}:{}", *cube as u8, dim, array),
                    Kind::Dx9 { caps2 } => format!("n:{caps2}"),
                },
                l.w,
                l.h,
                l.d.map(|x| x.to_string()).unwrap_or("-".into()),
                l.mips,
                px.fmt(),
                fname
            );
            // exhaustive over the 7 kinds to `depth` (only for the first 21 layouts), else depth 2
            let dmax = if li < 21 { depth } else { 2 };
            let mut stack: Vec<(usize, Vec<Op>)> = vec![(0, vec![])];
            while let Some((k, seq)) = stack.pop() {
                if seq.len() == dmax {
                    out.push(format!("{} {}", head, seq.iter().map(|o| o.fmt()).collect::<Vec<_>>().join(" ")));
                    continue;
                }
                for op in valid_variants(&spec, k, &mut rng, false) {
                    let (_, nk, _) = spec.step(k, &op);
                    let mut s2 = seq.clone();
                    s2.push(op);
                    stack.push((nk, s2));
                }
            }
            // long chains: walks over the whole layout (forward calls of every kind, now and then a step back or a
            // mipmap skip), then back to the start and one more read
            if l.mips > 16 {
                for _ in 0..(if thorough { 12 } else { 4 }) {
                    let mut k = 0usize;
                    let mut seq = vec![];
                    let mut guard = 0;
                    while k < spec.flat.len() && guard < 1500 {
                        guard += 1;
                        let vs = valid_variants(&spec, k, &mut rng, false);
                        let op = if rng.chance(1, 12) { vs[3 + rng.below(2) as usize].clone() } else { vs[rng.below(3) as usize].clone() };
                        let (_, nk, _) = spec.step(k, &op);
                        k = nk;
                        seq.push(op);
                    }
                    for op in [Op::Skip, Op::Prev, Op::Start] {
                        let (_, nk, _) = spec.step(k, &op);
                        k = nk;
                        seq.push(op);
                    }
                    let vs = valid_variants(&spec, k, &mut rng, false);
                    seq.push(vs[0].clone());
                    out.push(format!("{} {}", head, seq.iter().map(|o| o.fmt()).collect::<Vec<_>>().join(" ")));
                }
            }
            // random deeper sequences with error variants
            let nrand = if thorough { 400 } else { 60 };
            for _ in 0..nrand {
                let len = rng.range(4, 40) as usize;
                let mut k = 0usize;
                let mut seq = vec![];
                for _ in 0..len {
                    let vs = valid_variants(&spec, k, &mut rng, true);
                    // bias towards forward motion so that the end is reached
                    let op = if rng.chance(1, 3) { vs[rng.below(3) as usize].clone() } else { rng.pick(&vs).clone() };
                    let (_, nk, _) = spec.step(k, &op);
                    k = nk;
                    seq.push(op);
                }
                out.push(format!("{} {}", head, seq.iter().map(|o| o.fmt()).collect::<Vec<_>>().join(" ")));
            }
        }
    }
    out
}

fn err_name(e: &DecodingError) -> String {
    match e {
        DecodingError::RectOutOfBounds => "RectOutOfBounds".into(),
        DecodingError::UnexpectedSurfaceSize => "UnexpectedSurfaceSize".into(),
        DecodingError::CannotSkipMipmapsInVolume => "CannotSkipMipmapsInVolume".into(),
        DecodingError::NoMoreSurfaces => "NoMoreSurfaces".into(),
        DecodingError::NotACubeMap => "NotACubeMap".into(),
        DecodingError::MemoryLimitExceeded => "MemoryLimitExceeded".into(),
        DecodingError::Layout(e) => format!("err {}", crate::c02::err_name(e)),
        DecodingError::Io(_) => "Io".into(),
        _ => "Other".into(),
    }
}

pub fn run(line: &str) -> Option<(String, Vec<String>)> {
    let t = toks(line);
    if t.len() < 8 || t[0] != "D" {
        return None;
    }
    let kind = kind_parse(t[1])?;
    let w = p_u32(t[2])?;
    let h = p_u32(t[3])?;
    let d = if t[4] == "-" { None } else { Some(p_u32(t[4])?) };
    let mips = p_u32(t[5])?;
    let px = Px::parse(t[6])?;
    let (format, fpx) = format_by_name(t[7])?;
    if fpx != px {
        return None;
    }
    let mut ops = vec![];
    for o in &t[8..] {
        ops.push(Op::parse(o)?);
    }
    let header = make_header(&kind, w, h, d, mips)?;
    let mut oracle = vec![];

    // data: the byte at offset i is a function of i, so that every surface is recognisable
    let layout = match DataLayout::from_header_with(&header, px.to_info()) {
        Ok(l) => l,
        Err(e) => return Some((format!("err {}", crate::c02::err_name(&e)), oracle)),
    };
    let total = layout.data_len();
    if total > (1 << 22) {
        return Some(("too-big".into(), oracle));
    }
    let data: Vec<u8> = (0..total).map(|i| ((i * 131 + (i >> 8) * 17 + 5) & 0xFF) as u8).collect();
    let shared = Shared(Rc::new(RefCell::new(Cursor::new(data.clone()))));
    let mut dec = match Decoder::from_header_with(shared.clone(), header.clone(), format) {
        Ok(d) => d,
        Err(e) => return Some((err_name(&e), oracle)),
    };
    let color = dec.native_color();
    let bpp = color.bytes_per_pixel() as usize;
    let spec = build_spec(&kind, w, h, d, mips, px);
    let mut k = 0usize;

    let info = |dec: &Decoder<Shared>| -> String {
        match dec.surface_info() {
            Some(s) => format!(
                "{},{},{},{} {}",
                s.size().width,
                s.size().height,
                s.data_len(),
                s.is_mipmap() as u8,
                if dec.is_done() { "done" } else { "more" }
            ),
            None => format!("- {}", if dec.is_done() { "done" } else { "more" }),
        }
    };
    let pos = |sh: &Shared| -> u64 { sh.0.borrow().position() };

    let mut parts = vec![format!("new {} {}", info(&dec), pos(&shared))];
    if info(&dec) != spec.info(0) || pos(&shared) != 0 {
        oracle.push("initial state differs from the spec cursor".into());
    }
    for (i, op) in ops.iter().enumerate() {
        let mut cells_s = String::new();
        let before_pos = pos(&shared);
        let before_info = info(&dec);
        let res: Result<(), DecodingError> = match op {
            Op::Read(w, h) => {
                // the output view is strided on two of three calls: row padding must stay untouched
                let pad = (i % 3) * 5;
                let rowb = *w as usize * bpp;
                let pitch = rowb + pad;
                let len = if *w == 0 || *h == 0 { 0 } else { pitch * (*h as usize - 1) + rowb };
                let mut buf = vec![0xAAu8; len];
                match ImageViewMut::new_with(&mut buf, pitch, Size::new(*w, *h), color) {
                    Some(view) => {
                        let r = dec.read_surface(view);
                        if r.is_ok() && k < spec.flat.len() {
                            // content check: equals a stand-alone decode of the surface's bytes
                            let s = &spec.flat[k];
                            let mut exp = vec![0x55u8; rowb * *h as usize];
                            let mut cur = Cursor::new(&data[s.off as usize..(s.off + s.len) as usize]);
                            let v2 = ImageViewMut::new(&mut exp, Size::new(*w, *h), color).unwrap();
                            let ok = decode(&mut cur, v2, format, &DecodeOptions::default()).is_ok();
                            let mut same = ok;
                            for y in 0..*h as usize {
                                if buf[y * pitch..y * pitch + rowb] != exp[y * rowb..(y + 1) * rowb] {
                                    same = false;
                                }
                                if y + 1 < *h as usize && buf[y * pitch + rowb..(y + 1) * pitch].iter().any(|b| *b != 0xAA) {
                                    oracle.push(format!("op {i}: read_surface wrote into the row padding of the output view"));
                                    break;
                                }
                            }
                            if !same {
                                oracle.push(format!("op {i}: read_surface content differs from the surface's own bytes"));
                            }
                        }
                        r
                    }
                    None => return None,
                }
            }
            Op::Rect(ox, oy, w, h) => {
                let mut buf = vec![0xAAu8; *w as usize * *h as usize * bpp];
                match ImageViewMut::new(&mut buf, Size::new(*w, *h), color) {
                    Some(view) => dec.read_surface_rect(view, Offset::new(*ox, *oy)),
                    None => return None,
                }
            }
            Op::Skip => dec.skip_surface(),
            Op::SkipMips => dec.skip_mipmaps(),
            Op::Prev => dec.rewind_to_previous_surface(),
            Op::Start => dec.rewind_to_start(),
            Op::Cube(w, h) => {
                let n = *w as usize * *h as usize * bpp;
                if n > (1 << 24) {
                    return None;
                }
                let (_, _, exp_cells) = spec.step(k, op);
                let (fw, fh) = spec.face_size;
                let geometry_ok = *w as u64 == fw as u64 * 4 && *h as u64 == fh as u64 * 3;
                // expected content of each expected cell = stand-alone decode of the surface the spec cursor reads
                let mut exp_faces: Vec<Vec<u8>> = vec![];
                if geometry_ok {
                    let mut kk = k;
                    for _ in &exp_cells {
                        if kk >= spec.flat.len() {
                            break;
                        }
                        let s = spec.flat[kk].clone();
                        let mut exp = vec![0u8; fw as usize * fh as usize * bpp];
                        let mut cur = Cursor::new(&data[s.off as usize..(s.off + s.len) as usize]);
                        let v2 = ImageViewMut::new(&mut exp, Size::new(fw, fh), color).unwrap();
                        let _ = decode(&mut cur, v2, format, &DecodeOptions::default());
                        exp_faces.push(exp);
                        let nk = kk + 1;
                        kk = if nk < spec.flat.len() && spec.flat[nk].level != 0 {
                            ((spec.flat[nk].elem + 1) * spec.mips as u64) as usize
                        } else {
                            nk
                        };
                    }
                }
                // a prefill value that occurs in no expected face, so that "untouched" is decidable
                let mut used = [false; 256];
                for f in &exp_faces {
                    for b in f {
                        used[*b as usize] = true;
                    }
                }
                let prefill = (0..256usize).rev().find(|v| !used[*v]).map(|v| v as u8);
                let pf = prefill.unwrap_or(0xAA);
                // strided output view on two of three calls
                let pad = (i % 3) * 7;
                let pitch = *w as usize * bpp + pad;
                let blen = if *w == 0 || *h == 0 { 0 } else { pitch * (*h as usize - 1) + *w as usize * bpp };
                let _ = n;
                let mut buf = vec![pf; blen];
                let r = match ImageViewMut::new_with(&mut buf, pitch, Size::new(*w, *h), color) {
                    Some(view) => dec.read_cube_map(view),
                    None => return None,
                };
                let mut cells_ok = true;
                if geometry_ok && prefill.is_some() && pad > 0 {
                    for y in 0..(*h as usize).saturating_sub(1) {
                        let st = y * pitch + *w as usize * bpp;
                        if buf[st..st + pad].iter().any(|b| *b != pf) {
                            oracle.push(format!("op {i}: read_cube_map wrote into the row padding of the output view"));
                            cells_ok = false;
                            break;
                        }
                    }
                }
                if geometry_ok {
                    let rowb = fw as usize * bpp;
                    for cy in 0..3u32 {
                        for cx in 0..4u32 {
                            let idx = exp_cells.iter().position(|c| *c == (cx, cy));
                            for y in 0..fh as usize {
                                let st = (cy as usize * fh as usize + y) * pitch + cx as usize * rowb;
                                let got = &buf[st..st + rowb];
                                match idx {
                                    Some(fi) if fi < exp_faces.len() => {
                                        if got != &exp_faces[fi][y * rowb..(y + 1) * rowb] {
                                            oracle.push(format!(
                                                "op {i}: cube cell {cx}.{cy} differs from reading the face on its own"
                                            ));
                                            cells_ok = false;
                                            break;
                                        }
                                    }
                                    _ => {
                                        if prefill.is_some() && got.iter().any(|b| *b != pf) {
                                            oracle.push(format!(
                                                "op {i}: cube cell {cx}.{cy} was written but holds no face"
                                            ));
                                            cells_ok = false;
                                            break;
                                        }
                                    }
                                }
                            }
                        }
                    }
                }
                if !exp_cells.is_empty() {
                    cells_s = if cells_ok {
                        format!(
                            " cells={}",
                            exp_cells.iter().map(|(x, y)| format!("{x}.{y}")).collect::<Vec<_>>().join(",")
                        )
                    } else {
                        " cells=MISMATCH".to_string()
                    };
                }
                r
            }
        };
        let rname = match &res {
            Ok(()) => "ok".to_string(),
            Err(e) => err_name(e),
        };
        // ---- oracle: the spec cursor
        let (sres, nk, _) = spec.step(k, op);
        // a cube-map read past the end with a wrong-size buffer: both clauses apply ("operations past the end fail with
        // the no-more-surfaces error", "wrong-size buffers are rejected without moving") and the statement does not say
        // which wins; either rejection is accepted (the state must be unchanged in both cases, checked below)
        let both_apply = matches!(op, Op::Cube(..))
            && sres == "UnexpectedSurfaceSize"
            && nk == k
            && k >= spec.flat.len()
            && spec.faces.is_some();
        if sres != rname && !(both_apply && rname == "NoMoreSurfaces") {
            oracle.push(format!("op {i} {}: result {rname}, spec cursor says {sres}", op.fmt()));
        }
        k = nk;
        if info(&dec) != spec.info(k) {
            oracle.push(format!("op {i} {}: next surface '{}', spec cursor '{}'", op.fmt(), info(&dec), spec.info(k)));
        }
        if pos(&shared) != spec.pos(k) {
            oracle.push(format!("op {i} {}: position {}, spec cursor {}", op.fmt(), pos(&shared), spec.pos(k)));
        }
        if res.is_err() && !matches!(op, Op::Cube(..)) && (pos(&shared) != before_pos || info(&dec) != before_info) {
            oracle.push(format!("op {i} {}: rejected call moved the decoder", op.fmt()));
        }
        parts.push(format!("{} {} {}{}", rname, info(&dec), pos(&shared), cells_s));
        if oracle.len() > 4 {
            break;
        }
    }
    Some((parts.join(" | "), oracle))
}
