//! C15: encoding is total — any pixel data, geometry and options give bytes or a documented error.
//!
//! `E <path d|e> <format> <w> <h> <color 0..11> <pitchExtra> <content> <cseed> <quality> <dither> <metric> <parallel> <k|->`
//!   path d = `dds::encode`, e = `Encoder::new_image` + `write_surface` + `finish` (the fault budget starts after
//!   the header); content = class of the pixel data (see `fill`); k = the writer accepts k data bytes, then fails.
//!   result: `<ok | err Name> <data bytes accepted by the writer>`
//! `Q <format> <r> <g> <b> <a>`  — 1x1 RGBA F32 pixel of special values (names, see `special`) through
//!   `dds::encode`; result: the encoded bytes as one little-endian number (ties the quantiser models).
//!
//! Every implementation call runs on its own thread under `catch_unwind`; a call that does not
//! return within `HANG_SECS` is reported as a hang.
use crate::common::*;
use dds::*;
use std::io::Write;
use std::sync::mpsc;
use std::time::Duration;

const HANG_SECS: u64 = 20;
/// after the first hang in this process the remaining calls get a shorter deadline, and after
/// `MAX_HANGS` of them no further call is started (every hung call keeps a thread spinning)
const HANG_SECS_LATER: u64 = 5;
const MAX_HANGS: usize = 3;
static HANGS: std::sync::atomic::AtomicUsize = std::sync::atomic::AtomicUsize::new(0);

// ------------------------------------------------------------------------------------------------
// the failing writer

struct FaultWriter {
    /// bytes accepted so far
    accepted: usize,
    /// total number of bytes this writer accepts (`None`: unlimited)
    budget: Option<usize>,
    /// an error has been returned
    failed: bool,
    /// `write` calls with a non-empty buffer after an error had been returned
    writes_after_failure: usize,
}
impl FaultWriter {
    fn new(budget: Option<usize>) -> Self {
        FaultWriter { accepted: 0, budget, failed: false, writes_after_failure: 0 }
    }
}
impl Write for FaultWriter {
    fn write(&mut self, buf: &[u8]) -> std::io::Result<usize> {
        if buf.is_empty() {
            return Ok(0);
        }
        if self.failed {
            self.writes_after_failure += 1;
        }
        match self.budget {
            None => {
                self.accepted += buf.len();
                Ok(buf.len())
            }
            Some(b) => {
                let room = b.saturating_sub(self.accepted);
                if room == 0 {
                    self.failed = true;
                    // the way the writer fails rotates with the offset: an error of one of several kinds, or a
                    // refusal to take any more bytes (`Ok(0)`, which `write_all` turns into `WriteZero`)
                    use std::io::ErrorKind::*;
                    const KINDS: [std::io::ErrorKind; 8] =
                        [Other, OutOfMemory, WouldBlock, TimedOut, BrokenPipe, PermissionDenied, InvalidInput, ConnectionReset];
                    if b % 9 == 8 {
                        return Ok(0);
                    }
                    return Err(std::io::Error::new(KINDS[b % 8], "injected fault"));
                }
                let n = room.min(buf.len());
                self.accepted += n;
                Ok(n)
            }
        }
    }
    fn flush(&mut self) -> std::io::Result<()> {
        Ok(())
    }
}
/// shared handle so that the harness keeps access while `Encoder` owns the writer
#[derive(Clone)]
struct Shared(std::rc::Rc<std::cell::RefCell<FaultWriter>>);
impl Write for Shared {
    fn write(&mut self, buf: &[u8]) -> std::io::Result<usize> {
        self.0.borrow_mut().write(buf)
    }
    fn flush(&mut self) -> std::io::Result<()> {
        Ok(())
    }
}

// ------------------------------------------------------------------------------------------------
// content

pub const CONTENTS: &[&str] = &[
    "ord", "nan", "pinf", "ninf", "nzero", "huge", "sub", "h65504", "gt1", "lt0", "mix", "bits", "nanalpha", "onepx",
    "zero", "max",
    // block-encoder boundary content (branch wE, notes/C15.md "Float -> integer sites"): appended, so the index-based
    // picks above (`take(14)`, `below(14)`) are unchanged
    "flat", "close2", "edge",
];

/// a value on or next to a quantisation boundary of the block encoders: `k/31`, `k/63` (R5G6B5 floor/ceil and
/// `optimal_channel`), `k/255`, `k/254` (BC4 endpoints), `k/15`, `k/127` (BC7 channels) moved by up to 3 ulp, an
/// arbitrary pattern of [0, 1], or 1.0 / +0.0 / -0.0
fn boundary_value(rng: &mut Rng) -> f32 {
    let near = |v: f32, d: i64| f32::from_bits((v.to_bits() as i64 + d).clamp(0, 0x3F80_0000) as u32);
    let d = rng.below(7) as i64 - 3;
    match rng.below(10) {
        0 => near(rng.below(32) as f32 / 31.0, d),
        1 => near(rng.below(64) as f32 / 63.0, d),
        2 | 3 => near(rng.below(256) as f32 / 255.0, d),
        4 => near(rng.below(255) as f32 / 254.0, d),
        5 => near(rng.below(16) as f32 / 15.0, d),
        6 => near(rng.below(128) as f32 / 127.0, d),
        7 => f32::from_bits(rng.below(0x3F80_0001) as u32),
        8 => 1.0,
        _ => {
            if rng.chance(1, 2) {
                -0.0
            } else {
                0.0
            }
        }
    }
}

fn special_value(rng: &mut Rng) -> f32 {
    match rng.below(14) {
        0 => f32::NAN,
        1 => -f32::NAN,
        2 => f32::INFINITY,
        3 => f32::NEG_INFINITY,
        4 => -0.0,
        5 => 1e30,
        6 => -1e30,
        7 => f32::from_bits(1 + rng.below(0x7F_FFFF) as u32),
        8 => -f32::from_bits(1 + rng.below(0x7F_FFFF) as u32),
        9 => 65504.0,
        10 => 1.0 + rng.below(1000) as f32 / 8.0 + 0.125,
        11 => -(rng.below(1000) as f32 / 8.0) - 0.125,
        12 => f32::MAX,
        _ => f32::from_bits(0x7FC0_0000 | rng.below(0x3F_FFFF) as u32),
    }
}
fn ordinary(rng: &mut Rng) -> f32 {
    rng.below(1025) as f32 / 1024.0
}

/// fills the `len`-byte buffer of an image of `channels` channels
fn fill(content: &str, precision: Precision, channels: usize, geom: (u32, u32, usize), seed: u64) -> Vec<u8> {
    let (w, h, pitch_extra) = geom;
    let bpp = channels * match precision {
        Precision::U8 => 1,
        Precision::U16 => 2,
        Precision::F32 => 4,
    };
    let len = if w == 0 || h == 0 { 0 } else { (w as usize * bpp + pitch_extra) * (h as usize - 1) + w as usize * bpp };
    let mut rng = Rng::new(seed);
    let mut buf = vec![0u8; len];
    // the padding between rows is never read; make it noise
    if pitch_extra > 0 {
        buf.iter_mut().for_each(|b| *b = rng.next() as u8);
    }
    match precision {
        Precision::F32 => {
            // values are laid out row by row so that every row starts with a whole value
            let per_row = w as usize * channels;
            let n = if len == 0 { 0 } else { per_row * h as usize };
            let special_at = if n > 0 { rng.below(n as u64) as usize } else { 0 };
            // per-image values of the classes `flat` / `close2` (own stream: the other classes keep theirs)
            let mut rng2 = Rng::new(seed ^ 0x4543_4247_5349_5445);
            let flat: [f32; 4] = std::array::from_fn(|_| boundary_value(&mut rng2));
            let delta: [f32; 4] = std::array::from_fn(|_| {
                *rng2.pick(&[1.01 / 65536.0, 1.0 / 32768.0, 1.0 / 16384.0, 1.0 / 1024.0, 1.0 / 511.0, 0.9 / 255.0, 1.0 / 255.0])
            });
            for i in 0..n {
                let ch = i % channels.max(1);
                let v: f32 = match content {
                    "ord" => ordinary(&mut rng),
                    "nan" => f32::NAN,
                    "pinf" => f32::INFINITY,
                    "ninf" => f32::NEG_INFINITY,
                    "nzero" => -0.0,
                    "huge" => {
                        if rng.chance(1, 2) {
                            1e30
                        } else {
                            -1e30
                        }
                    }
                    "sub" => {
                        let s = f32::from_bits(1 + rng.below(0x7F_FFFF) as u32);
                        if rng.chance(1, 2) {
                            s
                        } else {
                            -s
                        }
                    }
                    "h65504" => 65504.0,
                    "gt1" => 1.0 + rng.below(100_000) as f32 / 64.0 + 1.0 / 64.0,
                    "lt0" => -(rng.below(100_000) as f32 / 64.0) - 1.0 / 64.0,
                    "mix" => {
                        if rng.chance(1, 2) {
                            ordinary(&mut rng)
                        } else {
                            special_value(&mut rng)
                        }
                    }
                    "bits" => f32::from_bits(rng.next() as u32),
                    "nanalpha" => {
                        if ch == channels - 1 {
                            f32::NAN
                        } else {
                            ordinary(&mut rng)
                        }
                    }
                    "onepx" => {
                        let o = ordinary(&mut rng);
                        if i / channels.max(1) == special_at / channels.max(1) {
                            special_value(&mut rng)
                        } else {
                            o
                        }
                    }
                    "zero" => 0.0,
                    "max" => 1.0,
                    // one colour for the whole image: the single-colour paths of BC1 (`optimal_channel`), BC4
                    // (`new_closest`) and BC7
                    "flat" => flat[ch % 4],
                    // two values per channel that are closer than one code: the `min == max` second stage of the
                    // BC4 endpoint quantisation, `floor != ceil` of R5G6B5 on a near-constant block
                    "close2" => {
                        if rng.chance(1, 2) {
                            flat[ch % 4]
                        } else {
                            flat[ch % 4] + delta[ch % 4]
                        }
                    }
                    // block extrema exactly 1.0 / -0.0 / +0.0 mixed with boundary values and NaN
                    "edge" => match rng.below(8) {
                        0 => 1.0,
                        1 => -0.0,
                        2 => 0.0,
                        3 => f32::NAN,
                        4 => f32::from_bits(1),
                        _ => boundary_value(&mut rng),
                    },
                    _ => ordinary(&mut rng),
                };
                let (row, col) = (i / per_row, i % per_row);
                let at = row * (per_row * 4 + pitch_extra) + col * 4;
                buf[at..at + 4].copy_from_slice(&v.to_ne_bytes());
            }
        }
        _ => match content {
            "zero" => {}
            "max" => buf.iter_mut().for_each(|b| *b = 0xFF),
            _ => buf.iter_mut().for_each(|b| *b = rng.next() as u8),
        },
    }
    buf
}

// ------------------------------------------------------------------------------------------------
// one implementation call, on its own thread

#[derive(Clone)]
struct Call {
    path_encoder: bool,
    format: Format,
    w: u32,
    h: u32,
    color: ColorFormat,
    pitch_extra: usize,
    data: Vec<u8>,
    options: EncodeOptions,
    fault: Option<usize>,
}
#[derive(Clone, Debug, PartialEq)]
enum CallResult {
    Done { kind: String, bytes: usize, writes_after_failure: usize, view_size: (u32, u32) },
    Panic(String),
    Hang,
    BadView,
    /// not started: `MAX_HANGS` earlier calls of this process never returned
    NotRun,
}

fn err_name(e: &EncodingError) -> String {
    match e {
        EncodingError::TooManySurfaces => "TooManySurfaces".into(),
        EncodingError::UnexpectedSurfaceSize => "UnexpectedSurfaceSize".into(),
        EncodingError::MissingSurfaces => "MissingSurfaces".into(),
        EncodingError::Cancelled => "Cancelled".into(),
        EncodingError::InvalidSize(..) => "InvalidSize".into(),
        EncodingError::UnsupportedFormat(_) => "UnsupportedFormat".into(),
        EncodingError::Layout(e) => format!("Layout{}", crate::c02::err_name(e)),
        EncodingError::Io(_) => "Io".into(),
        _ => "Other".into(),
    }
}

fn call_inner(c: &Call) -> CallResult {
    let size = Size::new(c.w, c.h);
    let bpr = c.w as usize * c.color.bytes_per_pixel() as usize;
    let pitch = bpr + c.pitch_extra;
    let view = match ImageView::new_with(&c.data, pitch, size, c.color) {
        Some(v) => v,
        None => return CallResult::BadView,
    };
    let view_size = (view.width(), view.height());
    if !c.path_encoder {
        let mut wr = FaultWriter::new(c.fault);
        let r = encode(&mut wr, view, c.format, None, &c.options);
        let kind = match r {
            Ok(()) => "ok".to_string(),
            Err(e) => format!("err {}", err_name(&e)),
        };
        CallResult::Done { kind, bytes: wr.accepted, writes_after_failure: wr.writes_after_failure, view_size }
    } else {
        let shared = Shared(std::rc::Rc::new(std::cell::RefCell::new(FaultWriter::new(None))));
        let mut enc = match Encoder::new_image(shared.clone(), size, c.format, false) {
            Ok(e) => e,
            Err(e) => {
                let bytes = shared.0.borrow().accepted;
                return CallResult::Done { kind: format!("err {}", err_name(&e)), bytes, writes_after_failure: 0, view_size };
            }
        };
        let header_len = shared.0.borrow().accepted;
        shared.0.borrow_mut().budget = c.fault.map(|k| header_len + k);
        enc.options = c.options.clone();
        enc.mipmaps.generate = false;
        let r = enc.write_surface(view);
        let kind = match r {
            Ok(()) => match enc.finish() {
                Ok(()) => "ok".to_string(),
                Err(e) => format!("err finish-{}", err_name(&e)),
            },
            Err(e) => format!("err {}", err_name(&e)),
        };
        let w = shared.0.borrow();
        CallResult::Done { kind, bytes: w.accepted - header_len, writes_after_failure: w.writes_after_failure, view_size }
    }
}

fn call(c: &Call) -> CallResult {
    use std::sync::atomic::Ordering;
    let hangs = HANGS.load(Ordering::SeqCst);
    if hangs >= MAX_HANGS {
        return CallResult::NotRun;
    }
    let deadline = if hangs == 0 { HANG_SECS } else { HANG_SECS_LATER };
    let (tx, rx) = mpsc::channel();
    let c2 = c.clone();
    let builder = std::thread::Builder::new().stack_size(8 << 20);
    let handle = builder.spawn(move || {
        let r = std::panic::catch_unwind(std::panic::AssertUnwindSafe(|| call_inner(&c2)));
        let r = match r {
            Ok(r) => r,
            Err(e) => CallResult::Panic(panic_msg(&e)),
        };
        let _ = tx.send(r);
    });
    if handle.is_err() {
        return CallResult::Panic("could not spawn the worker thread".into());
    }
    match rx.recv_timeout(Duration::from_secs(deadline)) {
        Ok(r) => r,
        Err(_) => {
            HANGS.fetch_add(1, Ordering::SeqCst);
            CallResult::Hang
        }
    }
}

// ------------------------------------------------------------------------------------------------
// run

fn parse_options(q: &str, d: &str, m: &str, p: &str) -> Option<EncodeOptions> {
    let mut o = EncodeOptions::default();
    o.quality = match q {
        "fast" => CompressionQuality::Fast,
        "normal" => CompressionQuality::Normal,
        "high" => CompressionQuality::High,
        "unr" => CompressionQuality::Unreasonable,
        _ => return None,
    };
    o.dithering = match d {
        "none" => Dithering::None,
        "color" => Dithering::Color,
        "alpha" => Dithering::Alpha,
        "both" => Dithering::ColorAndAlpha,
        _ => return None,
    };
    o.error_metric = match m {
        "uni" => ErrorMetric::Uniform,
        "perc" => ErrorMetric::Perceptual,
        _ => return None,
    };
    o.parallel = match p {
        "0" => false,
        "1" => true,
        _ => return None,
    };
    Some(o)
}

fn channel_count(c: Channels) -> usize {
    c.count() as usize
}

fn buffer_len(w: u32, h: u32, color: ColorFormat, pitch_extra: usize) -> usize {
    if w == 0 || h == 0 {
        return 0;
    }
    let bpr = w as usize * color.bytes_per_pixel() as usize;
    (bpr + pitch_extra) * (h as usize - 1) + bpr
}

pub fn run(line: &str) -> Option<(String, Vec<String>)> {
    let t = toks(line);
    match t.first().copied() {
        Some("E") => run_e(&t),
        Some("Q") => run_q(&t),
        Some("S") => run_s(&t),
        Some("U") => run_u(&t),
        Some("W") => run_w(&t),
        Some("T") => run_t(&t),
        _ => None,
    }
}

fn run_e(t: &[&str]) -> Option<(String, Vec<String>)> {
    if t.len() != 14 {
        return None;
    }
    let path_encoder = match t[1] {
        "d" => false,
        "e" => true,
        _ => return None,
    };
    let format = format_by_name(t[2])?;
    let (w, h) = (p_u32(t[3])?, p_u32(t[4])?);
    if w > 16384 || h > 16384 {
        return None;
    }
    let color = *all_colors().get(p_usize(t[5])?)?;
    let pitch_extra = p_usize(t[6])?;
    if pitch_extra > 4096 {
        return None;
    }
    let content = t[7];
    if !CONTENTS.contains(&content) {
        return None;
    }
    let cseed = p_u64(t[8])?;
    let options = parse_options(t[9], t[10], t[11], t[12])?;
    let fault = if t[13] == "-" { None } else { Some(p_usize(t[13])?) };

    let data = fill(content, color.precision, channel_count(color.channels), (w, h, pitch_extra), cseed);
    let c = Call { path_encoder, format, w, h, color, pitch_extra, data, options, fault };
    let r = call(&c);

    let mut oracle: Vec<String> = vec![];
    let res = match &r {
        CallResult::BadView => return None,
        CallResult::NotRun => "not-run-after-hangs".to_string(),
        CallResult::Panic(m) => {
            oracle.push(format!("panic: {m}"));
            "panic".to_string()
        }
        CallResult::Hang => {
            oracle.push("hang: the call did not return within the deadline".to_string());
            "hang".to_string()
        }
        CallResult::Done { kind, bytes, writes_after_failure, view_size } => {
            let vsize = Size::new(view_size.0, view_size.1);
            let support = format.encoding_support();
            // the encoder path declares the raw size in the header; an empty size is refused by the layout
            let layout_refuses = path_encoder && (w == 0 || h == 0);
            match support {
                None => {
                    // unsupported formats are refused
                    if kind != "err UnsupportedFormat" {
                        oracle.push(format!("format without encoding support: result '{kind}', expected UnsupportedFormat"));
                    }
                    if *bytes != 0 {
                        oracle.push(format!("format without encoding support: {bytes} bytes were written"));
                    }
                }
                Some(sup) if layout_refuses => {
                    let _ = sup;
                    if !kind.starts_with("err Layout") {
                        oracle.push(format!("empty size declared in a header: result '{kind}', expected a layout error"));
                    }
                    if *bytes != 0 {
                        oracle.push(format!("empty size declared in a header: {bytes} data bytes were written"));
                    }
                }
                Some(sup) => {
                    let size_ok = sup.supports_size(vsize);
                    let expected = PixelInfo::from(format).surface_bytes(vsize);
                    match kind.as_str() {
                        "ok" => {
                            if Some(*bytes as u64) != expected {
                                oracle.push(format!("Ok but {bytes} bytes were written, the encoded length is {expected:?}"));
                            }
                            if !size_ok {
                                oracle.push("Ok for a size that supports_size refuses".to_string());
                            }
                            if let (Some(k), Some(e)) = (fault, expected) {
                                if (k as u64) < e {
                                    oracle.push(format!("writer failed at byte {k} < {e} but the result is Ok"));
                                }
                            }
                        }
                        "err InvalidSize" => {
                            if *bytes != 0 {
                                oracle.push(format!("InvalidSize after {bytes} bytes were written"));
                            }
                            if size_ok {
                                oracle.push("InvalidSize for a size that supports_size accepts".to_string());
                            }
                        }
                        "err Io" => match (fault, expected) {
                            (Some(k), Some(e)) if (k as u64) < e => {
                                if *bytes > k {
                                    oracle.push(format!("writer accepted {bytes} bytes with a budget of {k}"));
                                }
                            }
                            _ => oracle.push("I/O error without a writer fault below the encoded length".to_string()),
                        },
                        other => oracle.push(format!("undocumented result '{other}'")),
                    }
                    if !size_ok && kind != "err InvalidSize" {
                        oracle.push(format!("size not supported by the format but the result is '{kind}'"));
                    }
                    if size_ok {
                        if let (Some(k), Some(e)) = (fault, expected) {
                            if (k as u64) < e && kind != "err Io" {
                                oracle.push(format!("writer failed at byte {k} < {e}: result '{kind}', expected an I/O error"));
                            }
                        }
                    }
                }
            }
            if *writes_after_failure > 0 {
                oracle.push(format!("{writes_after_failure} write(s) issued after the writer had reported an error"));
            }
            format!("{kind} {bytes}")
        }
    };

    // NaN / Inf / out-of-range content never changes the result kind or the length
    if color.precision == Precision::F32 && content != "ord" && matches!(r, CallResult::Done { .. }) {
        let mut c2 = c.clone();
        c2.data = fill("ord", color.precision, channel_count(color.channels), (w, h, pitch_extra), cseed);
        let r2 = call(&c2);
        match (&r, &r2) {
            (CallResult::Done { kind: k1, bytes: b1, .. }, CallResult::Done { kind: k2, bytes: b2, .. }) => {
                if k1 != k2 || b1 != b2 {
                    oracle.push(format!("content '{content}' gives '{k1} {b1}', ordinary content gives '{k2} {b2}'"));
                }
            }
            (_, CallResult::Panic(m)) => oracle.push(format!("panic (ordinary content): {m}")),
            (_, CallResult::Hang) => oracle.push("hang (ordinary content)".to_string()),
            _ => {}
        }
    }
    Some((res, oracle))
}

// ------------------------------------------------------------------------------------------------
// Q: special values through the quantisers

pub const SPECIALS: &[&str] = &["nan", "pinf", "ninf", "zero", "nzero", "one", "two", "neg", "huge", "nhuge", "half"];
fn special(name: &str) -> Option<f32> {
    Some(match name {
        "nan" => f32::NAN,
        "pinf" => f32::INFINITY,
        "ninf" => f32::NEG_INFINITY,
        "zero" => 0.0,
        "nzero" => -0.0,
        "one" => 1.0,
        "two" => 2.0,
        "neg" => -1.0,
        "huge" => 1e30,
        "nhuge" => -1e30,
        "half" => 0.5,
        _ => return None,
    })
}
/// formats whose encoded pixel the model packs from the quantiser models
pub const Q_FORMATS: &[&str] = &[
    "B5G6R5_UNORM", "B5G5R5A1_UNORM", "B4G4R4A4_UNORM", "A4B4G4R4_UNORM", "R8G8B8A8_UNORM", "B8G8R8A8_UNORM",
    "R8G8B8A8_SNORM", "R16G16B16A16_UNORM", "R16G16B16A16_SNORM", "R10G10B10A2_UNORM",
    "R10G10B10_XR_BIAS_A2_UNORM", "AYUV", "Y410", "Y416",
];

fn run_q(t: &[&str]) -> Option<(String, Vec<String>)> {
    if t.len() != 6 {
        return None;
    }
    if !Q_FORMATS.contains(&t[1]) {
        return None;
    }
    let format = format_by_name(t[1])?;
    let px = [special(t[2])?, special(t[3])?, special(t[4])?, special(t[5])?];
    encode_px(format, px)
}

/// `S <r> <g> <b>`: a 1x1 RGBA f32 pixel given by the bit patterns of its colour channels (alpha 1.0)
/// into R9G9B9E5_SHAREDEXP; the encoded word is compared with the bit-level model of
/// `rgb9995f::from_f32`. In the checked profile the `debug_assert!`s of that function are live, so a
/// mantissa above 511 or an exponent above 31 is a panic = an oracle failure.
fn run_s(t: &[&str]) -> Option<(String, Vec<String>)> {
    if t.len() != 4 {
        return None;
    }
    let mut px = [1.0f32; 4];
    for i in 0..3 {
        px[i] = f32::from_bits(t[1 + i].parse::<u32>().ok()?);
    }
    encode_px(Format::R9G9B9E5_SHAREDEXP, px)
}

/// formats whose `f32` quantisers (`n1..n10::from_f32`, `s8::from_uf32`) the model carries at the bit level
pub const U_FORMATS: &[&str] = &[
    "B5G6R5_UNORM", "B5G5R5A1_UNORM", "B4G4R4A4_UNORM", "A4B4G4R4_UNORM", "R10G10B10A2_UNORM", "R8G8B8A8_SNORM",
];

/// `U <format> <r> <g> <b> <a>`: a 1x1 RGBA f32 pixel given by bit patterns into a packed UNORM / SNORM8
/// format; the encoded word is compared with the bit-level quantiser models. In the checked profile the
/// `debug_assert!(x <= 254)` of `s8::from_norm` and the overflow check of `x + 1` are live.
fn run_u(t: &[&str]) -> Option<(String, Vec<String>)> {
    if t.len() != 6 || !U_FORMATS.contains(&t[1]) {
        return None;
    }
    let format = format_by_name(t[1])?;
    let mut px = [0.0f32; 4];
    for i in 0..4 {
        px[i] = f32::from_bits(t[2 + i].parse::<u32>().ok()?);
    }
    encode_px(format, px)
}

/// formats encoded with `s16::from_uf32`, the quantiser that computes in binary64
pub const W_FORMATS: &[&str] = &["R16_SNORM", "R16G16_SNORM", "R16G16B16A16_SNORM"];

/// `W <format> <r> <g> <b> <a>`: a 1x1 RGBA f32 pixel given by bit patterns into a SNORM16 format; the stored
/// 16-bit codes are compared with the bit-level model of `s16::from_uf32` (software binary64). In the checked
/// profile the overflow check of `norm + 1` is live.
fn run_w(t: &[&str]) -> Option<(String, Vec<String>)> {
    if t.len() != 6 || !W_FORMATS.contains(&t[1]) {
        return None;
    }
    let format = format_by_name(t[1])?;
    let mut px = [0.0f32; 4];
    for i in 0..4 {
        px[i] = f32::from_bits(t[2 + i].parse::<u32>().ok()?);
    }
    encode_px(format, px)
}

/// formats whose flat-block path the model carries end to end (`EncBcSites.bc4Flat`, `bc1Flat`)
pub const T_FORMATS: &[&str] = &["BC4_UNORM", "BC4_SNORM", "BC1_UNORM"];

/// `T <format> <r> <g> <b>`: a 4x4 RGBA f32 image of ONE colour given by bit patterns (alpha 1.0) into BC4_UNORM /
/// BC4_SNORM (the block is the red channel) / BC1_UNORM at quality Normal without dithering. Result: the 8 bytes of
/// the BC4 block (`blk …`) resp. the 4 endpoint bytes of the BC1 block (`ends …`). The model predicts them when the
/// encoder takes its modelled path (`new_closest` early return; `floor == ceil` of R5G6B5) and answers `search`
/// otherwise (then nothing is compared, see `equal` in tools/propcfg/C15.py). Ties the glam clamp (NaN, -0.0, ±inf),
/// `(min + max) * 0.5`, `(255.0 * v + 0.5) as u8`, `(254.0 * v + 0.5) as u8` + `s8::from_norm`, `n8::f32`, `s8::uf32`,
/// `R5G6B5Color::floor/ceil` to the code, on bit patterns, in both profiles.
fn run_t(t: &[&str]) -> Option<(String, Vec<String>)> {
    if t.len() != 5 || !T_FORMATS.contains(&t[1]) {
        return None;
    }
    let format = format_by_name(t[1])?;
    let mut px = [1.0f32; 4];
    for i in 0..3 {
        px[i] = f32::from_bits(t[2 + i].parse::<u32>().ok()?);
    }
    let mut data = vec![];
    for _ in 0..16 {
        for v in px {
            data.extend_from_slice(&v.to_ne_bytes());
        }
    }
    let mut o = EncodeOptions::default();
    o.parallel = false;
    o.quality = CompressionQuality::Normal;
    let c = Call {
        path_encoder: false,
        format,
        w: 4,
        h: 4,
        color: ColorFormat::RGBA_F32,
        pitch_extra: 0,
        data: data.clone(),
        options: o.clone(),
        fault: None,
    };
    let mut oracle = vec![];
    match call(&c) {
        CallResult::Panic(m) => {
            oracle.push(format!("panic: {m}"));
            return Some(("panic".into(), oracle));
        }
        CallResult::Hang => {
            oracle.push("hang: the call did not return within the deadline".to_string());
            return Some(("hang".into(), oracle));
        }
        CallResult::NotRun => return Some(("not-run-after-hangs".into(), oracle)),
        CallResult::BadView => return None,
        CallResult::Done { kind, .. } => {
            if kind != "ok" {
                oracle.push(format!("flat 4x4 block: result '{kind}'"));
                return Some((kind, oracle));
            }
        }
    }
    // the call above returned normally, so this one does too
    let view = ImageView::new(&data, Size::new(4, 4), ColorFormat::RGBA_F32)?;
    let mut out = Vec::new();
    if encode(&mut out, view, format, None, &o).is_err() || out.len() != 8 {
        return Some(("err".into(), oracle));
    }
    let (tag, n) = if t[1] == "BC1_UNORM" { ("ends", 4) } else { ("blk", 8) };
    let bytes: Vec<String> = out[..n].iter().map(|b| b.to_string()).collect();
    Some((format!("{tag} {}", bytes.join(" ")), oracle))
}

fn encode_px(format: Format, px: [f32; 4]) -> Option<(String, Vec<String>)> {
    let mut data = vec![];
    for v in px {
        data.extend_from_slice(&v.to_ne_bytes());
    }
    let mut o = EncodeOptions::default();
    o.parallel = false;
    let c = Call {
        path_encoder: false,
        format,
        w: 1,
        h: 1,
        color: ColorFormat::RGBA_F32,
        pitch_extra: 0,
        data: data.clone(),
        options: o,
        fault: None,
    };
    // `call` does not return the bytes; encode here under the same protection
    let r = call(&c);
    let mut oracle = vec![];
    match r {
        CallResult::Panic(m) => {
            oracle.push(format!("panic: {m}"));
            return Some(("panic".into(), oracle));
        }
        CallResult::Hang => {
            oracle.push("hang: the call did not return within the deadline".to_string());
            return Some(("hang".into(), oracle));
        }
        CallResult::NotRun => return Some(("not-run-after-hangs".into(), oracle)),
        CallResult::BadView => return None,
        CallResult::Done { kind, .. } => {
            if kind != "ok" {
                oracle.push(format!("1x1 pixel: result '{kind}'"));
                return Some((kind, oracle));
            }
        }
    }
    // the call above returned normally, so this one does too
    let view = ImageView::new(&data, Size::new(1, 1), ColorFormat::RGBA_F32)?;
    let mut out = Vec::new();
    let mut o = EncodeOptions::default();
    o.parallel = false;
    if encode(&mut out, view, format, None, &o).is_err() {
        return Some(("err".into(), oracle));
    }
    let mut v: u128 = 0;
    for (i, b) in out.iter().enumerate() {
        v |= (*b as u128) << (8 * i);
    }
    Some((format!("px {v}"), oracle))
}

// ------------------------------------------------------------------------------------------------
// generator

const QUALITIES: &[&str] = &["fast", "normal", "high", "unr"];
const DITHERS: &[&str] = &["none", "color", "alpha", "both"];
const METRICS: &[&str] = &["uni", "perc"];

fn is_bc(name: &str) -> bool {
    name.starts_with("BC")
}

struct G {
    rng: Rng,
    out: Vec<String>,
}
impl G {
    #[allow(clippy::too_many_arguments)]
    fn push(
        &mut self,
        path: &str,
        name: &str,
        w: u32,
        h: u32,
        color: usize,
        pitch: u32,
        content: &str,
        quality: &str,
        dither: &str,
        metric: &str,
        parallel: u32,
        k: Option<u64>,
    ) {
        let cseed = self.rng.below(1_000_000);
        let k = k.map(|k| k.to_string()).unwrap_or_else(|| "-".into());
        self.out.push(format!(
            "E {path} {name} {w} {h} {color} {pitch} {content} {cseed} {quality} {dither} {metric} {parallel} {k}"
        ));
    }
    fn content_for(&mut self, color: usize) -> &'static str {
        if color >= 8 {
            CONTENTS[self.rng.below(14) as usize]
        } else {
            *self.rng.pick(&["ord", "ord", "zero", "max"])
        }
    }
}

fn enc_len(f: Format, w: u32, h: u32) -> u64 {
    let s = if w == 0 || h == 0 { Size::new(0, 0) } else { Size::new(w, h) };
    PixelInfo::from(f).surface_bytes(s).unwrap_or(0)
}

/// bit patterns around everything `rgb9995f::from_f32` branches on: NaNs, infinities, negative values,
/// both zeros, subnormals, the clamp value 65408 = 0x477F8000, and for every exponent field the
/// fractions at which `c * 2^(24-exp) + 0.5` rounds up to 512 (the second pass)
fn gen_s(out: &mut Vec<String>, seed: u64, thorough: bool) {
    let mut rng = Rng::new(seed ^ 0x5348_4152_4544_4558);
    const SPECIAL: &[u32] = &[
        0, 0x8000_0000, 1, 0x007F_FFFF, 0x0080_0000, 0x8000_0001, 0x7F80_0000, 0xFF80_0000, 0x7FC0_0000,
        0xFFC0_0000, 0x7F80_0001, 0x7F7F_FFFF, 0xFF7F_FFFF, 0xBF80_0000, 0x3F80_0000, 0x477F_8000,
        0x477F_7FFF, 0x477F_8001, 0x477F_4000, 0x477F_3FFF, 0x477F_FFFF, 0x4780_0000, 0x4700_0000,
        0x46FF_FFFF, 0x3780_0000, 0x377F_FFFF, 0x3800_0000, 0x37FF_FFFF, 0x3400_0000, 0x33FF_FFFF,
    ];
    const FRAC: &[u32] = &[
        0, 1, 0x7F_FFFF, 0x7F_FFFE, 0x7F_C000, 0x7F_BFFF, 0x7F_C001, 0x7F_8000, 0x7F_7FFF, 0x7F_E000,
        0x7F_DFFF, 0x40_0000, 0x3F_FFFF, 0x00_4000, 0x00_3FFF,
    ];
    // every triple of a core of specials, every pair (special, special, 1.0)
    for &a in &SPECIAL[..12] {
        for &b in &SPECIAL[..12] {
            for &c in &SPECIAL[..12] {
                out.push(format!("S {a} {b} {c}"));
            }
        }
    }
    for &a in SPECIAL {
        for &b in SPECIAL {
            out.push(format!("S {a} {b} {}", 0x3F80_0000u32));
            out.push(format!("S {} {a} {b}", 0u32));
        }
    }
    // every exponent field that can be the maximum's (and a margin), boundary fractions, partners
    for e in 96u32..=144 {
        for &f in FRAC {
            let m = (e << 23) | f;
            let partners = [
                0u32,
                m,
                m - 1,
                m.wrapping_sub(0x0080_0000),
                m.wrapping_sub(0x0080_0000) | 0x7F_FFFF,
                ((e - 9) << 23) | 0x7F_FFFF,
                ((e - 10) << 23) | (rng.next() as u32 & 0x7F_FFFF),
                1,
                0x8000_0000 | m,
                (rng.below(e as u64) as u32) << 23 | (rng.next() as u32 & 0x7F_FFFF),
            ];
            for &p in &partners {
                let q = *rng.pick(&partners);
                match rng.below(3) {
                    0 => out.push(format!("S {m} {p} {q}")),
                    1 => out.push(format!("S {p} {m} {q}")),
                    _ => out.push(format!("S {q} {p} {m}")),
                }
            }
        }
    }
    // PRNG: exponents in and around the representable range with fractions biased to long runs of
    // ones (rounding carries), and uniformly random patterns
    let n = if thorough { 400_000 } else { 12_000 };
    let mut pat = |rng: &mut Rng| -> u32 {
        match rng.below(10) {
            0 => rng.next() as u32,
            1 => *rng.pick(SPECIAL),
            _ => {
                let e = match rng.below(8) {
                    0 => rng.below(256) as u32,
                    1 => rng.range(136, 144) as u32,
                    _ => rng.range(100, 144) as u32,
                };
                let mut f = rng.next() as u32 & 0x7F_FFFF;
                match rng.below(6) {
                    0 => f |= 0x7F_FFFF << rng.below(16),
                    1 => f = *rng.pick(FRAC),
                    2 => f &= !((1u32 << rng.below(23)) - 1),
                    _ => {}
                }
                let sign = if rng.chance(1, 12) { 0x8000_0000 } else { 0 };
                sign | (e << 23) | (f & 0x7F_FFFF)
            }
        }
    };
    for _ in 0..n {
        let a = pat(&mut rng);
        let mut b = pat(&mut rng);
        let mut c = pat(&mut rng);
        // often make the other channels smaller than the first so that it decides the exponent
        if rng.chance(1, 2) {
            b = b.min(a & 0x7FFF_FFFF);
        }
        if rng.chance(1, 2) {
            c = c.min(a & 0x7FFF_FFFF);
        }
        match rng.below(3) {
            0 => out.push(format!("S {a} {b} {c}")),
            1 => out.push(format!("S {b} {a} {c}")),
            _ => out.push(format!("S {c} {b} {a}")),
        }
    }
}

/// bit patterns around everything `(x.min(1.0) * MAX + 0.5) as uN` and `x >= 0.5` branch on: NaNs, infinities,
/// both zeros, negative values, values just below / at / above 1.0 and 0.5, the rounding boundaries
/// `(k + 0.5) / MAX` of every code `k` (one ulp below, at, above), subnormals, huge values
fn gen_u(out: &mut Vec<String>, seed: u64, thorough: bool) {
    let mut rng = Rng::new(seed ^ 0x554E_4F52_4D42_4954);
    const SPECIAL: &[u32] = &[
        0, 0x8000_0000, 1, 0x8000_0001, 0x007F_FFFF, 0x0080_0000, 0x7F80_0000, 0xFF80_0000, 0x7FC0_0000,
        0xFFC0_0000, 0x7F80_0001, 0xFF80_0001, 0x7F7F_FFFF, 0xFF7F_FFFF, 0x3F80_0000, 0x3F7F_FFFF, 0x3F80_0001,
        0x3F00_0000, 0x3EFF_FFFF, 0x3F00_0001, 0xBF80_0000, 0xBF00_0000, 0xBEFF_FFFF, 0xBF00_0001, 0xB300_0000,
        0x4000_0000, 0x3C00_0000, 0x3B80_8081,
    ];
    for name in U_FORMATS {
        for &v in SPECIAL {
            out.push(format!("U {name} {v} {v} {v} {v}"));
            out.push(format!("U {name} {v} 0 {} {}", 0x3F80_0000u32, 0x3F00_0000u32));
            out.push(format!("U {name} {} {v} 0 {v}", 0x3F80_0000u32));
        }
        // the rounding boundaries of every code of the widest field of the format
        let max: u32 = match *name {
            "B5G6R5_UNORM" => 63,
            "B5G5R5A1_UNORM" => 31,
            "B4G4R4A4_UNORM" | "A4B4G4R4_UNORM" => 15,
            "R10G10B10A2_UNORM" => 1023,
            _ => 254,
        };
        let step = if max > 300 && !thorough { 7 } else { 1 };
        let mut k = 0;
        while k <= max {
            let t = ((k as f32 + 0.5) / max as f32).to_bits();
            for d in [-2i32, -1, 0, 1, 2] {
                let v = (t as i32 + d) as u32;
                let w = *rng.pick(SPECIAL);
                out.push(format!("U {name} {v} {v} {v} {v}"));
                out.push(format!("U {name} {w} {v} {w} {}", v | 0x8000_0000));
            }
            k += step;
        }
        let n = if thorough { 60_000 } else { 2_500 };
        for _ in 0..n {
            let mut px = [0u32; 4];
            for p in px.iter_mut() {
                *p = match rng.below(10) {
                    0 => rng.next() as u32,
                    1 => *rng.pick(SPECIAL),
                    2 => (rng.range(0, 130) as u32) << 23 | (rng.next() as u32 & 0x7F_FFFF),
                    3 => 0x8000_0000 | (rng.range(0, 255) as u32) << 23 | (rng.next() as u32 & 0x7F_FFFF),
                    4 => ((rng.below(max as u64 + 1) as f32 + 0.5) / max as f32).to_bits().wrapping_add(rng.below(5) as u32).wrapping_sub(2),
                    _ => (rng.range(110, 127) as u32) << 23 | (rng.next() as u32 & 0x7F_FFFF),
                };
            }
            out.push(format!("U {name} {} {} {} {}", px[0], px[1], px[2], px[3]));
        }
    }
}

/// bit patterns around everything `(x.min(1.0) as f64 * 65534.0 + 0.5) as u16` branches on: NaNs of several
/// payloads and both signs, infinities, both zeros, negative values, subnormals, huge values, values just below /
/// at / above 0 and 1, the rounding boundaries `(k + 0.5) / 65534` of a spread of codes `k` (thorough: every code once, a denser spread)
/// with their float neighbours, the region below 2^-37 where the binary64 sum `p + 0.5` is not exact
fn gen_w(out: &mut Vec<String>, seed: u64, thorough: bool) {
    let mut rng = Rng::new(seed ^ 0x5331_365F_4636_3442);
    const SPECIAL: &[u32] = &[
        0, 0x8000_0000, 1, 2, 0x8000_0001, 0x007F_FFFF, 0x807F_FFFF, 0x0080_0000, 0x0080_0001, 0x8080_0000,
        0x7F80_0000, 0xFF80_0000, 0x7FC0_0000, 0xFFC0_0000, 0x7F80_0001, 0xFF80_0001, 0x7FFF_FFFF, 0xFFFF_FFFF,
        0x7FA5_5AA5, 0xFFD2_3456, 0x7F7F_FFFF, 0xFF7F_FFFF, 0x3F80_0000, 0x3F7F_FFFF, 0x3F7F_FFFE, 0x3F80_0001,
        0x3F80_0002, 0x3F00_0000, 0x3EFF_FFFF, 0x3F00_0001, 0xBF80_0000, 0xBF00_0000, 0xBEFF_FFFF, 0xBF00_0001,
        0xB300_0000, 0x4000_0000, 0x4780_0000, 0x477F_FE00, 0x7F00_0000, 0x3C00_0000, 0x3B80_8081, 0x3700_0000,
        0x3700_0080, 0x3700_0100, 0x36FF_FFFF, 0x3700_0001, 0x3780_0000, 0x3780_0040, 0x2480_0000, 0x2400_0000,
        0x2500_0000, 0x1E80_0000, 0x0D00_0000, 0x0C80_0000,
        // 0.25 and 0.75: the only inputs whose product with 65534 is an exact tie (k + 0.5), and neighbours
        0x3E80_0000, 0x3E7F_FFFF, 0x3E80_0001, 0x3F40_0000, 0x3F3F_FFFF, 0x3F40_0001,
    ];
    let threshold = |k: u32| (((k as f64) + 0.5) / 65534.0) as f32;
    for name in W_FORMATS {
        for &v in SPECIAL {
            out.push(format!("W {name} {v} {v} {v} {v}"));
            out.push(format!("W {name} {v} 0 {} {}", 0x3F80_0000u32, 0x3F00_0000u32));
            out.push(format!("W {name} {} {v} 0 {v}", 0x3F80_0000u32));
        }
        // every exponent field with the smallest / largest / a middle fraction, both signs
        for e in 0..=255u32 {
            for f in [0u32, 1, 0x40_0000, 0x7F_FFFF, 0x7F_FFFE, 0x2A_AAAB] {
                let v = e << 23 | f;
                out.push(format!("W {name} {v} {} {} {v}", v | 0x8000_0000, v ^ 0x0055_5555));
            }
        }
        // the rounding boundaries: the first and last codes always, a spread in between
        let step = if thorough { 17 } else { 131 };
        let mut ks: Vec<u32> = (0..40).chain(65494..=65534).collect();
        let mut k = 40;
        while k < 65494 {
            ks.push(k);
            k += step;
        }
        for p in 0..16 {
            for d in [-1i32, 0, 1] {
                ks.push(((1u32 << p) as i32 + d).max(0) as u32);
            }
        }
        for &k in &ks {
            let t = threshold(k).to_bits();
            for d in [-2i32, -1, 0, 1, 2] {
                let v = (t as i32 + d) as u32;
                let w = *rng.pick(SPECIAL);
                out.push(format!("W {name} {v} {v} {v} {v}"));
                out.push(format!("W {name} {w} {v} {w} {}", v | 0x8000_0000));
            }
        }
        // thorough: EVERY code's boundary in one pixel (one ulp below, at, one and two ulps above)
        if thorough && *name == "R16G16B16A16_SNORM" {
            for k in 0..=65534u32 {
                let t = threshold(k).to_bits();
                out.push(format!("W {name} {} {t} {} {}", t - 1, t + 1, t + 2));
            }
        }
        let n = if thorough { 60_000 } else { 2_500 };
        for _ in 0..n {
            let mut px = [0u32; 4];
            for p in px.iter_mut() {
                *p = match rng.below(12) {
                    0 => rng.next() as u32,
                    1 => *rng.pick(SPECIAL),
                    // tiny values: the sum with 0.5 is rounded
                    2 => (rng.range(0, 100) as u32) << 23 | (rng.next() as u32 & 0x7F_FFFF),
                    3 => 0x8000_0000 | (rng.range(0, 255) as u32) << 23 | (rng.next() as u32 & 0x7F_FFFF),
                    4 | 5 | 6 => threshold(rng.below(65535) as u32).to_bits().wrapping_add(rng.below(5) as u32).wrapping_sub(2),
                    // around 2^-16 … 2^-14: the first codes
                    7 => (rng.range(108, 114) as u32) << 23 | (rng.next() as u32 & 0x7F_FFFF),
                    8 => (rng.range(127, 255) as u32) << 23 | (rng.next() as u32 & 0x7F_FFFF),
                    _ => (rng.range(100, 127) as u32) << 23 | (rng.next() as u32 & 0x7F_FFFF),
                };
            }
            out.push(format!("W {name} {} {} {} {}", px[0], px[1], px[2], px[3]));
        }
    }
}

/// (h) every block format x {flat, close2, edge} x every quality x every f32 colour, several content seeds: the
/// single-colour paths (`optimal_channel`, `new_closest`), the `min == max` stage of the BC4 endpoint
/// quantisation, block extrema of exactly 1.0 / -0.0, NaN mixed with boundary values
fn gen_h(out: &mut Vec<String>, seed: u64, thorough: bool, encodable: &[(&'static str, Format)]) {
    let mut g = G { rng: Rng::new(seed ^ 0x4843_4153_4553_4243), out: vec![] };
    let reps = if thorough { 40 } else { 5 };
    for (name, _) in encodable.iter().filter(|(n, _)| is_bc(n)) {
        for content in ["flat", "close2", "edge"] {
            for quality in QUALITIES {
                for color in 8..12usize {
                    let n = if *quality == "unr" { (reps + 3) / 4 } else { reps };
                    for _ in 0..n {
                        let (w, h) = *g.rng.pick(&[(4u32, 4u32), (4, 4), (8, 4), (5, 3)]);
                        let dither = *g.rng.pick(DITHERS);
                        let metric = *g.rng.pick(METRICS);
                        g.push("d", name, w, h, color, 0, content, quality, dither, metric, 0, None);
                    }
                }
            }
        }
    }
    out.append(&mut g.out);
}

/// (i) T cases: flat 4x4 blocks through the modelled single-colour paths (own PRNG stream)
fn gen_t(out: &mut Vec<String>, seed: u64, thorough: bool) {
    let mut rng = Rng::new(seed ^ 0x5446_4C41_5442_4C4B);
    const SPECIAL: &[u32] = &[
        0, 0x8000_0000, 1, 0x8000_0001, 0x007F_FFFF, 0x0080_0000, 0x3F80_0000, 0x3F7F_FFFF, 0x3F80_0001, 0x3F00_0000,
        0x3EFF_FFFF, 0x3F00_0001, 0x7F80_0000, 0xFF80_0000, 0x7FC0_0000, 0xFFC0_0000, 0x7F80_0001, 0xFFFF_FFFF,
        0x7F7F_FFFF, 0xFF7F_FFFF, 0xBF80_0000, 0x4000_0000, 0x3780_0000, 0x3380_0000, 0x3300_0000, 0x3B80_8081,
    ];
    let near = |b: u32, d: i64| (b as i64 + d).clamp(0, 0xFFFF_FFFF) as u32;
    for (fmt, kmax) in [("BC4_UNORM", 255u32), ("BC4_SNORM", 254)] {
        for s in SPECIAL {
            out.push(format!("T {fmt} {s} 0 0"));
        }
        for k in 0..=kmax {
            let v = k as f32 / kmax as f32;
            for d in -2i64..=2 {
                out.push(format!("T {fmt} {} 0 0", near(v.to_bits(), d)));
            }
            // both sides of `(c0_f - value).abs() < BC4_EPSILON`
            for e in [1.0f32 / 65536.0, -1.0 / 65536.0] {
                for d in -1i64..=1 {
                    out.push(format!("T {fmt} {} 0 0", near((v + e).to_bits(), d)));
                }
            }
        }
        let n = if thorough { 30_000 } else { 2_500 };
        for _ in 0..n {
            let b = match rng.below(8) {
                0 => rng.next() as u32,
                1 => near(((rng.below(kmax as u64 + 1) as f32 + 0.5) / kmax as f32).to_bits(), rng.below(5) as i64 - 2),
                _ => rng.below(0x3F80_0001) as u32,
            };
            out.push(format!("T {fmt} {b} 0 0"));
        }
    }
    for s in SPECIAL {
        out.push(format!("T BC1_UNORM {s} {s} {s}"));
        out.push(format!("T BC1_UNORM {s} 0 1065353216"));
        out.push(format!("T BC1_UNORM 1065353216 {s} 0"));
    }
    let n = if thorough { 40_000 } else { 4_000 };
    for _ in 0..n {
        let mut ch = [0u32; 3];
        for (i, c) in ch.iter_mut().enumerate() {
            let m = if i == 1 { 63u64 } else { 31 };
            *c = match rng.below(10) {
                0 => *rng.pick(SPECIAL),
                1 => rng.below(0x3F80_0001) as u32,
                // on a code (floor == ceil just above it, not just below)
                _ => near((rng.below(m + 1) as f32 / m as f32).to_bits(), rng.below(6) as i64 - 2),
            };
        }
        out.push(format!("T BC1_UNORM {} {} {}", ch[0], ch[1], ch[2]));
    }
}

pub fn gen(seed: u64, thorough: bool) -> Vec<String> {
    let mut g = G { rng: Rng::new(seed), out: vec![] };
    let formats = all_formats();
    let encodable: Vec<(&'static str, Format)> =
        formats.iter().cloned().filter(|(_, f)| f.encoding_support().is_some()).collect();
    let bi_planar = |n: &str| n == "NV12" || n == "P010" || n == "P016";

    // (a) the repaired path: empty images into bi-planar formats, both API paths
    for (name, _) in encodable.iter().filter(|(n, _)| bi_planar(n)) {
        for &(w, h) in &[(0u32, 0u32), (0, 2), (2, 0), (0, 3), (3, 0), (0, 1), (1, 0)] {
            for color in [0usize, 3, 6, 7, 9, 11] {
                for path in ["d", "e"] {
                    g.push(path, name, w, h, color, 0, "ord", "fast", "none", "uni", 0, None);
                }
                g.push("d", name, w, h, color, 0, "ord", "normal", "both", "uni", 1, Some(0));
            }
        }
    }

    // (b) size grid: every format, all residues mod 2 and mod 4, empty sizes
    let grid: Vec<u32> =
        if thorough { (0..=40).collect() } else { (0..=17).chain([23, 24, 31, 32, 33, 39, 40]).collect() };
    let passes = if thorough { 3 } else { 1 };
    for _pass in 0..passes {
    for (name, f) in &formats {
        let enc = f.encoding_support().is_some();
        let gr: Vec<u32> = if enc { grid.clone() } else { vec![0, 1, 4, 5, 12] };
        for &w in &gr {
            for &h in &gr {
                let color = g.rng.below(12) as usize;
                let pitch = *g.rng.pick(&[0u32, 0, 0, 1, 7]);
                let content = g.content_for(color);
                let dither = *g.rng.pick(DITHERS);
                let metric = *g.rng.pick(METRICS);
                let parallel = g.rng.below(2) as u32;
                let path = if g.rng.chance(1, 5) { "e" } else { "d" };
                let len = enc_len(*f, w, h);
                let k = if g.rng.chance(1, 6) { Some(g.rng.below(len + 2)) } else { None };
                g.push(path, name, w, h, color, pitch, content, "fast", dither, metric, parallel, k);
            }
        }
    }
    }

    // (c) a writer failing at byte k: boundary offsets for several sizes, every offset for small lengths
    for (name, f) in &encodable {
        let sizes: &[(u32, u32)] = if bi_planar(name) {
            &[(2, 2), (4, 4), (6, 4), (16, 16), (34, 8)]
        } else {
            &[(1, 1), (4, 4), (5, 3), (16, 16), (33, 7)]
        };
        for (i, &(w, h)) in sizes.iter().enumerate() {
            let len = enc_len(*f, w, h);
            let mut ks: Vec<u64> = vec![0, 1, len / 2, len.saturating_sub(1), len, len + 1];
            if len <= 64 || (thorough && len <= 400) {
                ks = (0..=len + 1).collect();
            }
            ks.sort();
            ks.dedup();
            for k in ks {
                let color = g.rng.below(12) as usize;
                let content = if i % 2 == 0 { "ord" } else { g.content_for(color) };
                let pitch = *g.rng.pick(&[0u32, 0, 3]);
                let parallel = g.rng.below(2) as u32;
                let dither = *g.rng.pick(DITHERS);
                let path = if g.rng.chance(1, 4) { "e" } else { "d" };
                g.push(path, name, w, h, color, pitch, content, "fast", dither, "uni", parallel, Some(k));
            }
        }
    }

    // (d) special float content: every encodable format x every content class x every f32 colour
    for (name, _) in &encodable {
        let sizes: &[(u32, u32)] = if bi_planar(name) { &[(2, 2), (6, 4)] } else { &[(1, 1), (5, 3)] };
        for content in CONTENTS.iter().take(14) {
            for color in 8..12usize {
                for &(w, h) in sizes {
                    let dither = *g.rng.pick(DITHERS);
                    let metric = *g.rng.pick(METRICS);
                    g.push("d", name, w, h, color, 0, content, "fast", dither, metric, 0, None);
                }
            }
        }
        // integer inputs at their extremes
        for content in ["zero", "max", "ord"] {
            for color in 0..8usize {
                let (w, h) = if bi_planar(name) { (4, 2) } else { (5, 2) };
                let dither = *g.rng.pick(DITHERS);
                g.push("d", name, w, h, color, 0, content, "fast", dither, "uni", 0, None);
            }
        }
    }

    // (e) the slower quality levels of the block encoders on special content
    let bcs: Vec<&(&'static str, Format)> = encodable.iter().filter(|(n, _)| is_bc(n)).collect();
    for (name, _) in bcs.iter().map(|x| **x) {
        for quality in ["normal", "high"] {
            for content in CONTENTS.iter().take(14) {
                for &(w, h) in &[(4u32, 4u32), (9, 6)] {
                    let color = 8 + g.rng.below(4) as usize;
                    let dither = *g.rng.pick(DITHERS);
                    let metric = *g.rng.pick(METRICS);
                    g.push("d", name, w, h, color, 0, content, quality, dither, metric, 0, None);
                }
            }
        }
        for content in CONTENTS.iter().take(14) {
            let color = 8 + g.rng.below(4) as usize;
            let dither = *g.rng.pick(DITHERS);
            let metric = *g.rng.pick(METRICS);
            let (w, h) = *g.rng.pick(&[(4u32, 4u32), (5, 5), (3, 2), (8, 4)]);
            g.push("d", name, w, h, color, 0, content, "unr", dither, metric, 0, None);
        }
        // sizes that the parallel encoder really splits into fragments (> 256 pixels at High)
        for &(w, h) in &[(40u32, 40u32), (17, 33), (32, 20), (39, 37)] {
            for quality in ["normal", "high"] {
                let len = enc_len(Format::BC1_UNORM, w, h) * if name.starts_with("BC1") || name.starts_with("BC4") { 1 } else { 2 };
                for k in [None, Some(g.rng.below(len)), Some(len - 1)] {
                    let color = g.rng.below(12) as usize;
                    let content = g.content_for(color);
                    let dither = *g.rng.pick(DITHERS);
                    g.push("d", name, w, h, color, 0, content, quality, dither, "uni", 1, k);
                }
            }
        }
    }

    // (g) rows wider than every staging buffer of the encoders (512 / 1024 / 4096 pixels, 4 KiB), contiguous and
    // strided (pitch > 0: padded rows, i.e. a non-contiguous view), a few of them with a failing writer (seed C15g)
    for (name, f) in &encodable {
        let widths: &[u32] = if thorough { &[300, 513, 600, 1025, 1300, 2049, 2500, 4100, 9001] } else { &[513, 1300, 2500, 4100, 9001] };
        for (i, &w) in widths.iter().enumerate() {
            let w = if bi_planar(name) { w + w % 2 } else { w };
            for &h in &[1u32, 2, 3] {
                if bi_planar(name) && h % 2 == 1 || (h == 2 && !thorough && i % 2 == 0) {
                    continue;
                }
                let color = g.rng.below(12) as usize;
                let pitch = *g.rng.pick(&[0u32, 1, 7, 5]);
                let content = g.content_for(color);
                let dither = *g.rng.pick(DITHERS);
                let len = enc_len(*f, w, h);
                let k = if g.rng.chance(1, 5) { Some(g.rng.below(len + 1)) } else { None };
                let parallel = g.rng.below(2) as u32;
                g.push("d", name, w, h, color, pitch, content, "fast", dither, "uni", parallel, k);
            }
        }
    }

    // (f) special values through the scalar quantisers (1x1 RGBA F32 pixel)
    for name in Q_FORMATS {
        // all channels equal, then each channel special with the others zero / one, then random combinations
        let yuv = *name == "AYUV" || *name == "Y410" || *name == "Y416";
        // the chroma rows cancel exactly in exact arithmetic but not in f32 for huge inputs; finite
        // non-trivial colours are subject to rounding near ties: only saturating inputs for YUV
        let pool: Vec<&str> = if yuv {
            vec!["nan", "pinf", "ninf", "zero", "nzero"]
        } else {
            SPECIALS.iter().cloned().filter(|s| *s != "half").collect()
        };
        for s in &pool {
            g.out.push(format!("Q {name} {s} {s} {s} {s}"));
        }
        let alpha_pool: Vec<&str> = SPECIALS.iter().cloned().filter(|s| *s != "half").collect();
        for s in &alpha_pool {
            g.out.push(format!("Q {name} zero zero zero {s}"));
        }
        if !yuv {
            for s in &pool {
                g.out.push(format!("Q {name} {s} zero zero zero"));
                g.out.push(format!("Q {name} zero {s} zero one"));
                g.out.push(format!("Q {name} one one {s} zero"));
            }
        }
        let n = if thorough { 400 } else { 40 };
        for _ in 0..n {
            let a = *g.rng.pick(&pool);
            let b = if yuv { a } else { *g.rng.pick(&pool) };
            let c = if yuv { a } else { *g.rng.pick(&pool) };
            let d = *g.rng.pick(&alpha_pool);
            g.out.push(format!("Q {name} {a} {b} {c} {d}"));
        }
    }

    // (f2) S cases: bit patterns through `rgb9995f::from_f32` (own PRNG stream: the E cases keep theirs)
    gen_s(&mut g.out, seed, thorough);
    // (f3) U cases: bit patterns through the f32 UNORM / SNORM8 quantisers of six packed formats
    gen_u(&mut g.out, seed, thorough);
    // (f4) W cases: bit patterns through `s16::from_uf32` (binary64) of the three SNORM16 formats
    gen_w(&mut g.out, seed, thorough);

    // (h) boundary content of the block encoders' float -> integer sites (own PRNG stream)
    gen_h(&mut g.out, seed, thorough, &encodable);
    // (i) T cases: flat blocks through the modelled single-colour paths of bc4.rs / bc1.rs
    gen_t(&mut g.out, seed, thorough);

    // (g) PRNG over the whole quantifier
    let n = if thorough { 1_200_000 } else { 40_000 };
    for _ in 0..n {
        let (name, f) = if g.rng.chance(1, 12) { *g.rng.pick(&formats) } else { *g.rng.pick(&encodable) };
        let mut w = g.rng.below(41) as u32;
        let mut h = g.rng.below(41) as u32;
        if g.rng.chance(1, 10) {
            w = *g.rng.pick(&[0u32, 1, 2, 3]);
        }
        if g.rng.chance(1, 10) {
            h = *g.rng.pick(&[0u32, 1, 2, 3]);
        }
        if bi_planar(name) && !g.rng.chance(1, 4) {
            w &= !1;
            h &= !1;
        }
        let color = g.rng.below(12) as usize;
        let pitch = *g.rng.pick(&[0u32, 0, 0, 1, 4, 13]);
        let content = g.content_for(color);
        let quality = if is_bc(name) {
            match g.rng.below(40) {
                0..=27 => "fast",
                28..=35 => "normal",
                36..=38 => "high",
                _ => "unr",
            }
        } else {
            *g.rng.pick(QUALITIES)
        };
        if quality == "unr" && is_bc(name) {
            w = w.min(8);
            h = h.min(8);
        }
        if quality == "high" && is_bc(name) && !thorough {
            w = w.min(24);
            h = h.min(24);
        }
        let dither = *g.rng.pick(DITHERS);
        let metric = *g.rng.pick(METRICS);
        let parallel = g.rng.below(2) as u32;
        let path = if g.rng.chance(1, 5) { "e" } else { "d" };
        let len = enc_len(f, w, h);
        let k = match g.rng.below(8) {
            0 => Some(g.rng.below(len + 2)),
            1 => Some(*g.rng.pick(&[0, 1, len / 2, len.saturating_sub(1), len])),
            _ => None,
        };
        g.push(path, name, w, h, color, pitch, content, quality, dither, metric, parallel, k);
    }
    g.out
}
