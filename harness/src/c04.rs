//! C04: uncompressed, packed, sub-sampled and bi-planar formats decode to the ideal values.
//!
//! Case line (see also `Drv/C04.lean`):
//!
//! `D <format> <channels> <prec> <w> <h> <spec> [<spec2>]`
//!
//! `<spec>` generates the encoded units (pixels / 2x1 blocks / 8x1 blocks / plane-1 elements,
//! `<spec2>`: plane-2 elements), unit `i`:
//!   `S:<start>`                       (start + i) mod 2^bits
//!   `W:<off>:<width>:<base>:<start>`  base (hex) with bits [off,off+width) := (start+i) mod 2^width
//!   `R:<seed>`                        splitmix64 words
//!   `H:<hex>,<hex>,...`               listed values, cyclically
//!
//! Result: `ok` + every channel of every pixel in hex (f32 as bit pattern, NaN as `nan`).
//!
//! Oracle: an independent transcription of the format layouts plus exact rational arithmetic
//! (i128) for the ideal value of every channel; integer outputs must be a nearest code, f32 outputs
//! of exactly characterisable conversions must be the correctly rounded binary32 (own software
//! rounding, no `f32` arithmetic anywhere in the oracle), YUV outputs and integer outputs of
//! float-valued fields must be nearest up to the stated tie tolerance TAU.
use crate::common::*;
use dds::*;

#[derive(Clone, Copy, PartialEq, Debug)]
enum Comp {
    R,
    G,
    B,
    A,
    Y,
    U,
    V,
    E,
}
#[derive(Clone, Copy, PartialEq, Debug)]
enum Kind {
    Unorm,
    Snorm,
    Half,
    F11,
    F10,
    F32,
    Xr,
    Mant,
    Exp,
    Yuv,
}
#[derive(Clone, Copy, Debug)]
struct Field {
    comp: Comp,
    px: Option<u8>,
    off: u32,
    width: u32,
    kind: Kind,
}
#[derive(Clone, Copy, PartialEq, Debug)]
enum Color {
    Direct,
    Yuv(u32),
    Shared,
}
#[derive(Clone, Debug)]
struct Fmt {
    name: &'static str,
    format: Format,
    unit_bytes: usize,
    ppu: usize,
    fields: Vec<Field>,
    color: Color,
    native: Channels,
    blue_half: bool,
    planar: Option<(usize, usize)>,
}

fn f(comp: Comp, off: u32, width: u32, kind: Kind) -> Field {
    Field { comp, px: None, off, width, kind }
}
fn fp(comp: Comp, px: u8, off: u32, width: u32, kind: Kind) -> Field {
    Field { comp, px: Some(px), off, width, kind }
}

/// The documented layouts (DXGI_FORMAT / Microsoft YUV format pages): components are listed from
/// the least significant bit of the little-endian unit upwards.
fn lsb_first(kind: Kind, comps: &[(Comp, u32)]) -> Vec<Field> {
    let mut off = 0;
    let mut v = vec![];
    for &(c, w) in comps {
        v.push(f(c, off, w, kind));
        off += w;
    }
    v
}

fn table() -> Vec<Fmt> {
    use Channels::*;
    use Comp::*;
    use Kind::*;
    let mk = |name, format, unit_bytes, fields, native| Fmt {
        name,
        format,
        unit_bytes,
        ppu: 1,
        fields,
        color: Color::Direct,
        native,
        blue_half: false,
        planar: None,
    };
    let mut t = vec![
        mk("R8G8B8_UNORM", Format::R8G8B8_UNORM, 3, lsb_first(Unorm, &[(R, 8), (G, 8), (B, 8)]), Rgb),
        mk("B8G8R8_UNORM", Format::B8G8R8_UNORM, 3, lsb_first(Unorm, &[(B, 8), (G, 8), (R, 8)]), Rgb),
        mk("R8G8B8A8_UNORM", Format::R8G8B8A8_UNORM, 4, lsb_first(Unorm, &[(R, 8), (G, 8), (B, 8), (A, 8)]), Rgba),
        mk("R8G8B8A8_SNORM", Format::R8G8B8A8_SNORM, 4, lsb_first(Snorm, &[(R, 8), (G, 8), (B, 8), (A, 8)]), Rgba),
        mk("B8G8R8A8_UNORM", Format::B8G8R8A8_UNORM, 4, lsb_first(Unorm, &[(B, 8), (G, 8), (R, 8), (A, 8)]), Rgba),
        mk("B8G8R8X8_UNORM", Format::B8G8R8X8_UNORM, 4, lsb_first(Unorm, &[(B, 8), (G, 8), (R, 8)]), Rgb),
        mk("B5G6R5_UNORM", Format::B5G6R5_UNORM, 2, lsb_first(Unorm, &[(B, 5), (G, 6), (R, 5)]), Rgb),
        mk("B5G5R5A1_UNORM", Format::B5G5R5A1_UNORM, 2, lsb_first(Unorm, &[(B, 5), (G, 5), (R, 5), (A, 1)]), Rgba),
        mk("B4G4R4A4_UNORM", Format::B4G4R4A4_UNORM, 2, lsb_first(Unorm, &[(B, 4), (G, 4), (R, 4), (A, 4)]), Rgba),
        mk("A4B4G4R4_UNORM", Format::A4B4G4R4_UNORM, 2, lsb_first(Unorm, &[(A, 4), (B, 4), (G, 4), (R, 4)]), Rgba),
        mk("R8_SNORM", Format::R8_SNORM, 1, lsb_first(Snorm, &[(R, 8)]), Grayscale),
        mk("R8_UNORM", Format::R8_UNORM, 1, lsb_first(Unorm, &[(R, 8)]), Grayscale),
        mk("R8G8_UNORM", Format::R8G8_UNORM, 2, lsb_first(Unorm, &[(R, 8), (G, 8)]), Rgb),
        mk("R8G8_SNORM", Format::R8G8_SNORM, 2, lsb_first(Snorm, &[(R, 8), (G, 8)]), Rgb),
        mk("A8_UNORM", Format::A8_UNORM, 1, lsb_first(Unorm, &[(A, 8)]), Alpha),
        mk("R16_UNORM", Format::R16_UNORM, 2, lsb_first(Unorm, &[(R, 16)]), Grayscale),
        mk("R16_SNORM", Format::R16_SNORM, 2, lsb_first(Snorm, &[(R, 16)]), Grayscale),
        mk("R16G16_UNORM", Format::R16G16_UNORM, 4, lsb_first(Unorm, &[(R, 16), (G, 16)]), Rgb),
        mk("R16G16_SNORM", Format::R16G16_SNORM, 4, lsb_first(Snorm, &[(R, 16), (G, 16)]), Rgb),
        mk("R16G16B16A16_UNORM", Format::R16G16B16A16_UNORM, 8, lsb_first(Unorm, &[(R, 16), (G, 16), (B, 16), (A, 16)]), Rgba),
        mk("R16G16B16A16_SNORM", Format::R16G16B16A16_SNORM, 8, lsb_first(Snorm, &[(R, 16), (G, 16), (B, 16), (A, 16)]), Rgba),
        mk("R10G10B10A2_UNORM", Format::R10G10B10A2_UNORM, 4, lsb_first(Unorm, &[(R, 10), (G, 10), (B, 10), (A, 2)]), Rgba),
        mk("R11G11B10_FLOAT", Format::R11G11B10_FLOAT, 4, vec![f(R, 0, 11, F11), f(G, 11, 11, F11), f(B, 22, 10, F10)], Rgb),
        mk("R9G9B9E5_SHAREDEXP", Format::R9G9B9E5_SHAREDEXP, 4, vec![f(R, 0, 9, Mant), f(G, 9, 9, Mant), f(B, 18, 9, Mant), f(E, 27, 5, Exp)], Rgb),
        mk("R16_FLOAT", Format::R16_FLOAT, 2, lsb_first(Half, &[(R, 16)]), Grayscale),
        mk("R16G16_FLOAT", Format::R16G16_FLOAT, 4, lsb_first(Half, &[(R, 16), (G, 16)]), Rgb),
        mk("R16G16B16A16_FLOAT", Format::R16G16B16A16_FLOAT, 8, lsb_first(Half, &[(R, 16), (G, 16), (B, 16), (A, 16)]), Rgba),
        mk("R32_FLOAT", Format::R32_FLOAT, 4, lsb_first(F32, &[(R, 32)]), Grayscale),
        mk("R32G32_FLOAT", Format::R32G32_FLOAT, 8, lsb_first(F32, &[(R, 32), (G, 32)]), Rgb),
        mk("R32G32B32_FLOAT", Format::R32G32B32_FLOAT, 12, lsb_first(F32, &[(R, 32), (G, 32), (B, 32)]), Rgb),
        mk("R32G32B32A32_FLOAT", Format::R32G32B32A32_FLOAT, 16, lsb_first(F32, &[(R, 32), (G, 32), (B, 32), (A, 32)]), Rgba),
        mk("R10G10B10_XR_BIAS_A2_UNORM", Format::R10G10B10_XR_BIAS_A2_UNORM, 4, vec![f(R, 0, 10, Xr), f(G, 10, 10, Xr), f(B, 20, 10, Xr), f(A, 30, 2, Unorm)], Rgba),
        // AYUV: byte 0 = V, 1 = U, 2 = Y, 3 = A
        mk("AYUV", Format::AYUV, 4, vec![f(V, 0, 8, Yuv), f(U, 8, 8, Yuv), f(Y, 16, 8, Yuv), f(A, 24, 8, Unorm)], Rgba),
        // Y410: bits 0-9 U, 10-19 Y, 20-29 V, 30-31 A
        mk("Y410", Format::Y410, 4, vec![f(U, 0, 10, Yuv), f(Y, 10, 10, Yuv), f(V, 20, 10, Yuv), f(A, 30, 2, Unorm)], Rgba),
        // Y416: words U, Y, V, A
        mk("Y416", Format::Y416, 8, vec![f(U, 0, 16, Yuv), f(Y, 16, 16, Yuv), f(V, 32, 16, Yuv), f(A, 48, 16, Unorm)], Rgba),
        // R1: most significant bit = leftmost pixel
        mk("R1_UNORM", Format::R1_UNORM, 1, (0..8).map(|i| fp(R, i as u8, 7 - i, 1, Unorm)).collect(), Grayscale),
        mk("R8G8_B8G8_UNORM", Format::R8G8_B8G8_UNORM, 4, vec![f(R, 0, 8, Unorm), fp(G, 0, 8, 8, Unorm), f(B, 16, 8, Unorm), fp(G, 1, 24, 8, Unorm)], Rgb),
        mk("G8R8_G8B8_UNORM", Format::G8R8_G8B8_UNORM, 4, vec![fp(G, 0, 0, 8, Unorm), f(R, 8, 8, Unorm), fp(G, 1, 16, 8, Unorm), f(B, 24, 8, Unorm)], Rgb),
        mk("UYVY", Format::UYVY, 4, vec![f(U, 0, 8, Yuv), fp(Y, 0, 8, 8, Yuv), f(V, 16, 8, Yuv), fp(Y, 1, 24, 8, Yuv)], Rgb),
        mk("YUY2", Format::YUY2, 4, vec![fp(Y, 0, 0, 8, Yuv), f(U, 8, 8, Yuv), fp(Y, 1, 16, 8, Yuv), f(V, 24, 8, Yuv)], Rgb),
        // Y210: words Y0 U Y1 V, the 10 significant bits are the upper bits of each word
        mk("Y210", Format::Y210, 8, vec![fp(Y, 0, 6, 10, Yuv), f(U, 22, 10, Yuv), fp(Y, 1, 38, 10, Yuv), f(V, 54, 10, Yuv)], Rgb),
        mk("Y216", Format::Y216, 8, vec![fp(Y, 0, 0, 16, Yuv), f(U, 16, 16, Yuv), fp(Y, 1, 32, 16, Yuv), f(V, 48, 16, Yuv)], Rgb),
        // bi-planar: unit = luma element followed by the (U, V) element
        mk("NV12", Format::NV12, 3, vec![f(Y, 0, 8, Yuv), f(U, 8, 8, Yuv), f(V, 16, 8, Yuv)], Rgb),
        mk("P010", Format::P010, 6, vec![f(Y, 6, 10, Yuv), f(U, 22, 10, Yuv), f(V, 38, 10, Yuv)], Rgb),
        mk("P016", Format::P016, 6, vec![f(Y, 0, 16, Yuv), f(U, 16, 16, Yuv), f(V, 32, 16, Yuv)], Rgb),
    ];
    for fm in t.iter_mut() {
        match fm.name {
            "R8G8_SNORM" | "R16G16_SNORM" => fm.blue_half = true,
            "R9G9B9E5_SHAREDEXP" => fm.color = Color::Shared,
            "AYUV" | "UYVY" | "YUY2" | "NV12" => fm.color = Color::Yuv(8),
            "Y410" | "Y210" | "P010" => fm.color = Color::Yuv(10),
            "Y416" | "Y216" | "P016" => fm.color = Color::Yuv(16),
            _ => {}
        }
        match fm.name {
            "R1_UNORM" => fm.ppu = 8,
            "R8G8_B8G8_UNORM" | "G8R8_G8B8_UNORM" | "UYVY" | "YUY2" | "Y210" | "Y216" => fm.ppu = 2,
            "NV12" => fm.planar = Some((1, 2)),
            "P010" | "P016" => fm.planar = Some((2, 4)),
            _ => {}
        }
    }
    t
}

// ------------------------------------------------------------------------------------------
// unit generators (wide units as little-endian byte vectors via u128 pairs)

/// 256-bit little-endian value as 4 x u64 (units are at most 128 bits, W specs stay inside)
type Wide = [u64; 4];

fn splitmix(seed: u64, i: u64) -> u64 {
    let mut z = seed.wrapping_add((i.wrapping_add(1)).wrapping_mul(0x9E37_79B9_7F4A_7C15));
    z = (z ^ (z >> 30)).wrapping_mul(0xBF58_476D_1CE4_E5B9);
    z = (z ^ (z >> 27)).wrapping_mul(0x94D0_49BB_1331_11EB);
    z ^ (z >> 31)
}

fn hex_wide(s: &str) -> Option<u128> {
    if s.is_empty() || s.len() > 32 {
        return None;
    }
    u128::from_str_radix(s, 16).ok()
}

fn mask_bits(v: u128, bits: usize) -> u128 {
    if bits >= 128 {
        v
    } else {
        v & ((1u128 << bits) - 1)
    }
}

enum Spec {
    S(u128),
    W { off: u32, width: u32, base: u128, start: u128 },
    R(u64),
    H(Vec<u128>),
}
impl Spec {
    fn parse(s: &str) -> Option<Spec> {
        let p: Vec<&str> = s.split(':').collect();
        match (p[0], p.len()) {
            ("S", 2) => Some(Spec::S(p[1].parse().ok()?)),
            ("W", 5) => {
                let off: u32 = p[1].parse().ok()?;
                let width: u32 = p[2].parse().ok()?;
                if off + width > 128 || width == 0 || width > 64 {
                    return None;
                }
                Some(Spec::W { off, width, base: hex_wide(p[3])?, start: p[4].parse().ok()? })
            }
            ("R", 2) => Some(Spec::R(p[1].parse().ok()?)),
            ("H", 2) => {
                let v: Option<Vec<u128>> = p[1].split(',').map(hex_wide).collect();
                let v = v?;
                if v.is_empty() {
                    None
                } else {
                    Some(Spec::H(v))
                }
            }
            _ => None,
        }
    }
    fn unit(&self, i: u64, bits: usize) -> u128 {
        let v = match self {
            Spec::S(start) => start.wrapping_add(i as u128),
            Spec::W { off, width, base, start } => {
                let m = ((1u128 << width) - 1) << off;
                let base = mask_bits(*base, bits);
                let val = (start.wrapping_add(i as u128)) & ((1u128 << width) - 1);
                (base & !m) | (val << off)
            }
            Spec::R(seed) => splitmix(*seed, 2 * i) as u128 | ((splitmix(*seed, 2 * i + 1) as u128) << 64),
            Spec::H(v) => v[(i % v.len() as u64) as usize],
        };
        mask_bits(v, bits)
    }
}

fn ch_name(c: Channels) -> &'static str {
    match c {
        Channels::Grayscale => "gray",
        Channels::Alpha => "alpha",
        Channels::Rgb => "rgb",
        Channels::Rgba => "rgba",
    }
}
fn ch_parse(s: &str) -> Option<Channels> {
    Some(match s {
        "gray" => Channels::Grayscale,
        "alpha" => Channels::Alpha,
        "rgb" => Channels::Rgb,
        "rgba" => Channels::Rgba,
        _ => return None,
    })
}
fn prec_of(p: u32) -> Option<Precision> {
    Some(match p {
        0 => Precision::U8,
        1 => Precision::U16,
        2 => Precision::F32,
        _ => return None,
    })
}

// ------------------------------------------------------------------------------------------
// exact arithmetic of the oracle

/// ideal value of one component
#[derive(Clone, Copy, Debug)]
enum Val {
    /// num / den, den > 0
    Rat(i128, i128),
    Inf(bool),
    NaN,
    /// a raw binary32 bit pattern (32-bit float fields): handled by cases, never expanded
    Bits(u32),
}

fn pow2(k: u32) -> i128 {
    1i128 << k
}

/// value of a 5-bit-exponent small float with `mb` mantissa bits (half: mb = 10 + sign)
fn small_float(x: u32, mb: u32, signed: bool) -> Val {
    let mant = (x & ((1 << mb) - 1)) as i128;
    let exp = (x >> mb) & 31;
    let neg = signed && (x >> (mb + 5)) & 1 == 1;
    if exp == 31 {
        return if mant == 0 { Val::Inf(neg) } else { Val::NaN };
    }
    // denormal: mant * 2^(1-15-mb); normal: (2^mb + mant) * 2^(exp-15-mb)
    let (m, e) = if exp == 0 { (mant, 1 - 15 - mb as i32) } else { (mant + pow2(mb), exp as i32 - 15 - mb as i32) };
    let m = if neg { -m } else { m };
    if e >= 0 {
        Val::Rat(m * pow2(e as u32), 1)
    } else {
        Val::Rat(m, pow2((-e) as u32))
    }
}

fn field_val(word: &Wide, fld: &Field) -> u64 {
    // fields never straddle more than two 64-bit limbs
    let limb = (fld.off / 64) as usize;
    let sh = fld.off % 64;
    let mut v = word[limb] >> sh;
    if sh + fld.width > 64 {
        v |= word[limb + 1] << (64 - sh);
    }
    if fld.width < 64 {
        v &= (1u64 << fld.width) - 1;
    }
    v
}

fn ideal_of_field(fld: &Field, v: u64) -> Val {
    match fld.kind {
        Kind::Unorm => Val::Rat(v as i128, pow2(fld.width) - 1),
        Kind::Snorm => {
            let m = pow2(fld.width - 1) - 1;
            let mut s = v as i128;
            if s >= pow2(fld.width - 1) {
                s -= pow2(fld.width);
            }
            if s < -m {
                s = -m;
            }
            Val::Rat(s + m, 2 * m)
        }
        Kind::Half => small_float(v as u32, 10, true),
        Kind::F11 => small_float(v as u32, 6, false),
        Kind::F10 => small_float(v as u32, 5, false),
        Kind::F32 => Val::Bits(v as u32),
        Kind::Xr => Val::Rat(v as i128 - 384, 510),
        Kind::Mant | Kind::Exp | Kind::Yuv => Val::Rat(v as i128, 1),
    }
}

/// tie tolerance in normalised units: 2^-12 of an 8-bit step
const TAU_DEN: i128 = 4096 * 255;

/// clamp an ideal value to [0,1] (NaN -> 0, the crate's documented convention for float inputs)
fn clamp01(v: Val) -> (i128, i128) {
    match v {
        Val::NaN => (0, 1),
        Val::Inf(neg) => {
            if neg {
                (0, 1)
            } else {
                (1, 1)
            }
        }
        Val::Rat(n, d) => {
            if n <= 0 {
                (0, 1)
            } else if n >= d {
                (1, 1)
            } else {
                (n, d)
            }
        }
        Val::Bits(b) => {
            let exp = (b >> 23) & 0xff;
            let frac = (b & 0x7f_ffff) as i128;
            if exp == 255 {
                return if frac != 0 || b >> 31 == 1 { (0, 1) } else { (1, 1) };
            }
            if b >> 31 == 1 || (exp == 0 && frac == 0) {
                return (0, 1);
            }
            if exp >= 127 {
                return (1, 1);
            }
            let (m, e) = if exp == 0 { (frac, -149) } else { (frac + (1 << 23), exp as i32 - 150) };
            // 0 < x < 1.  Below 2^-60 the admissible codes are exactly those of 0 (see notes/C04.md).
            if e < -84 {
                return (0, 1);
            }
            (m, pow2((-e) as u32))
        }
    }
}

/// `code` (0..=max) is a nearest code of `num/den` in [0,1]; with `tol`, up to TAU
fn int_ok(code: i128, max: i128, num: i128, den: i128, tol: bool) -> bool {
    // |code/max - num/den| <= 1/(2 max) (+ 1/TAU_DEN)
    let diff = (code * den - num * max).abs();
    if !tol {
        2 * diff <= den
    } else {
        // 2 T diff <= den (T + 2 max), T = TAU_DEN;  keep inside i128: den <= 2^84 only for tiny
        // float inputs, reduce those first
        let (diff, den) = if den > pow2(60) { (diff >> 30, den >> 30) } else { (diff, den) };
        2 * TAU_DEN * diff <= den * (TAU_DEN + 2 * max)
    }
}

/// correctly rounded binary32 (round to nearest even) of num/den, den > 0 — integer arithmetic only
fn round_f32(num: i128, den: i128) -> u32 {
    if num == 0 {
        return 0;
    }
    let sign: u32 = if num < 0 { 0x8000_0000 } else { 0 };
    let n = num.unsigned_abs();
    let d = den as u128;
    // find e with 2^e <= n/d < 2^(e+1)
    let mut e: i32 = (127 - n.leading_zeros() as i32) - (127 - d.leading_zeros() as i32);
    let ge = |e: i32| -> bool {
        // n/d >= 2^e ?
        if e >= 0 {
            n >= d << e as u32
        } else {
            (n << (-e) as u32) >= d
        }
    };
    if !ge(e) {
        e -= 1;
    }
    debug_assert!(ge(e) && !ge(e + 1));
    // unit in the last place 2^q
    let q = if e >= -126 { e - 23 } else { -149 };
    // mant = round(n / (d 2^q))
    assert!(q > -90 && q < 60, "round_f32: magnitude outside the oracle's range");
    let (nn, dd) = if q >= 0 { (n, d << q as u32) } else { (n << (-q) as u32, d) };
    let mut mant = nn / dd;
    let rem = nn % dd;
    if 2 * rem > dd || (2 * rem == dd && mant & 1 == 1) {
        mant += 1;
    }
    let bits: u128 = if e >= -126 { (((e + 126) as u128) << 23) + mant } else { mant };
    if bits >= 0x7f80_0000 {
        sign | 0x7f80_0000
    } else {
        sign | bits as u32
    }
}

/// exact value m * 2^e of a finite binary32
fn f32_parts(b: u32) -> Option<(i128, i32)> {
    let exp = (b >> 23) & 0xff;
    let frac = (b & 0x7f_ffff) as i128;
    if exp == 255 {
        return None;
    }
    let (m, e) = if exp == 0 { (frac, -149) } else { (frac + (1 << 23), exp as i32 - 150) };
    Some((if b >> 31 == 1 { -m } else { m }, e))
}

fn is_nan(b: u32) -> bool {
    (b >> 23) & 0xff == 255 && b & 0x7f_ffff != 0
}

/// how a channel value has to relate to its ideal
#[derive(Clone, Copy, PartialEq, Debug)]
enum Class {
    /// integer: a nearest code; f32: the correctly rounded value
    Exact,
    /// nearest up to TAU
    Tol,
}

struct Expect {
    val: Val,
    class: Class,
}

fn check_channel(out: u32, prec: u32, ex: &Expect) -> Result<(), String> {
    match prec {
        0 | 1 => {
            let max: i128 = if prec == 0 { 255 } else { 65535 };
            let (n, d) = clamp01(ex.val);
            if int_ok(out as i128, max, n, d, ex.class == Class::Tol) {
                Ok(())
            } else {
                Err(format!("code {out} is not nearest to {n}/{d} * {max}"))
            }
        }
        _ => match (ex.val, ex.class) {
            (Val::NaN, _) => {
                if is_nan(out) {
                    Ok(())
                } else {
                    Err(format!("{out:08x} should be NaN"))
                }
            }
            (Val::Inf(neg), _) => {
                let want = if neg { 0xff80_0000 } else { 0x7f80_0000 };
                if out == want {
                    Ok(())
                } else {
                    Err(format!("{out:08x} should be {want:08x}"))
                }
            }
            (Val::Bits(b), _) => {
                if is_nan(b) && is_nan(out) || out == b {
                    Ok(())
                } else {
                    Err(format!("{out:08x} should be the input {b:08x}"))
                }
            }
            (Val::Rat(n, d), Class::Exact) => {
                let want = round_f32(n, d);
                if out == want || (out << 1 == 0 && want << 1 == 0) {
                    Ok(())
                } else {
                    Err(format!("{out:08x} is not the nearest f32 {want:08x} of {n}/{d}"))
                }
            }
            (Val::Rat(n, d), Class::Tol) => {
                // |out - n/d| <= TAU + 2^-24
                let Some((m, e)) = f32_parts(out) else {
                    return Err(format!("{out:08x} is not finite"));
                };
                let (m, e) = if e < -60 { (0, 0) } else { (m, e) };
                // out = m 2^e, e in [-60, ..]; outputs are in [0,1] so e <= -23 unless wrong
                if e > 0 {
                    return Err(format!("{out:08x} out of range"));
                }
                let s = pow2((-e) as u32); // out = m / s
                // |m d - n s| / (s d) <= 1/T + 1/2^24   <=>  |m d - n s| T 2^24 <= s d (2^24 + T)
                let diff = (m * d - n * s).abs();
                // magnitudes: d <= 2^36, s <= 2^60: reduce s by shifting when large
                let (diff, s2) = if s > pow2(40) { (diff >> 30, s >> 30) } else { (diff, s) };
                if diff.checked_mul(TAU_DEN << 24).map(|l| l <= s2 * d * ((1 << 24) + TAU_DEN)).unwrap_or(false) {
                    Ok(())
                } else {
                    Err(format!("{out:08x} is farther than TAU from {n}/{d}"))
                }
            }
        },
    }
}

/// the ideal native-order channels of pixel `p` of unit `word`
fn ideal_pixel(fm: &Fmt, word: &Wide, p: usize) -> Vec<Expect> {
    let find = |c: Comp| fm.fields.iter().find(|f| f.comp == c && (f.px.is_none() || f.px == Some(p as u8)));
    let direct = |c: Comp| -> Expect {
        match find(c) {
            Some(fld) => {
                let v = ideal_of_field(fld, field_val(word, fld));
                // integer outputs of float-valued fields are evaluated in f32 by the library
                Expect { val: v, class: Class::Exact }
            }
            None => Expect {
                val: match c {
                    Comp::A => Val::Rat(1, 1),
                    Comp::B if fm.blue_half => Val::Rat(1, 2),
                    _ => Val::Rat(0, 1),
                },
                class: Class::Exact,
            },
        }
    };
    let raw = |c: Comp| -> i128 { find(c).map(|f| field_val(word, f) as i128).unwrap_or(0) };
    match fm.color {
        Color::Direct => {
            let comps: &[Comp] = match fm.native {
                Channels::Grayscale => &[Comp::R],
                Channels::Alpha => &[Comp::A],
                Channels::Rgb => &[Comp::R, Comp::G, Comp::B],
                Channels::Rgba => &[Comp::R, Comp::G, Comp::B, Comp::A],
            };
            comps.iter().map(|&c| direct(c)).collect()
        }
        Color::Yuv(bits) => {
            let (oy, oc, max): (i128, i128, i128) = match bits {
                8 => (16, 128, 255),
                10 => (64, 512, 1023),
                _ => (4096, 32768, 65535),
            };
            let (c, d, e) = (raw(Comp::Y) - oy, raw(Comp::U) - oc, raw(Comp::V) - oc);
            // BT.601 limited range, constants as printed by Microsoft (6 decimals)
            let r = 1_164_383 * c + 1_596_027 * e;
            let g = 1_164_383 * c - 391_762 * d - 812_968 * e;
            let b = 1_164_383 * c + 2_017_232 * d;
            let den = 1_000_000 * max;
            let mut v: Vec<Expect> = [r, g, b]
                .iter()
                .map(|&n| {
                    let (n, d) = clamp01(Val::Rat(n, den));
                    Expect { val: Val::Rat(n, d), class: Class::Tol }
                })
                .collect();
            if fm.native == Channels::Rgba {
                v.push(direct(Comp::A));
            }
            v
        }
        Color::Shared => {
            let e = raw(Comp::E) as i32 - 24;
            [Comp::R, Comp::G, Comp::B]
                .iter()
                .map(|&c| {
                    let m = raw(c);
                    let val = if e >= 0 { Val::Rat(m * pow2(e as u32), 1) } else { Val::Rat(m, pow2((-e) as u32)) };
                    Expect { val, class: Class::Exact }
                })
                .collect()
        }
    }
}

/// integer outputs of fields whose conversion the library evaluates in f32 get the tolerance
fn class_for(fm: &Fmt, prec: u32, comp_kind: Option<Kind>, base: Class) -> Class {
    // DESIGN.md §3: no tolerance where the input domain of the field has at most 2^16 points
    // (half, 11-bit, 10-bit floats, the 14-bit shared-exponent channel); only 32-bit float fields get it
    if prec < 2 {
        if let Some(k) = comp_kind {
            if matches!(k, Kind::F32) {
                return Class::Tol;
            }
        }
    }
    let _ = fm;
    base
}

fn native_comp_kinds(fm: &Fmt) -> Vec<Option<Kind>> {
    let comps: &[Comp] = match fm.native {
        Channels::Grayscale => &[Comp::R],
        Channels::Alpha => &[Comp::A],
        Channels::Rgb => &[Comp::R, Comp::G, Comp::B],
        Channels::Rgba => &[Comp::R, Comp::G, Comp::B, Comp::A],
    };
    comps.iter().map(|&c| fm.fields.iter().find(|f| f.comp == c).map(|f| f.kind)).collect()
}

/// documented meaning of asking for other channels than the native ones
fn convert_expect(native: Channels, target: Channels, v: Vec<Expect>) -> Vec<Expect> {
    use Channels::*;
    let zero = || Expect { val: Val::Rat(0, 1), class: Class::Exact };
    let one = || Expect { val: Val::Rat(1, 1), class: Class::Exact };
    let cp = |e: &Expect| Expect { val: e.val, class: e.class };
    match (native, target) {
        (a, b) if a == b => v,
        (Grayscale, Alpha) | (Rgb, Alpha) => vec![one()],
        (Alpha, Grayscale) => vec![zero()],
        (Alpha, Rgb) => vec![zero(), zero(), zero()],
        (Grayscale, Rgb) => vec![cp(&v[0]), cp(&v[0]), cp(&v[0])],
        (Grayscale, Rgba) => vec![cp(&v[0]), cp(&v[0]), cp(&v[0]), one()],
        (Alpha, Rgba) => vec![zero(), zero(), zero(), cp(&v[0])],
        (Rgb, Grayscale) | (Rgba, Grayscale) => vec![cp(&v[0])],
        (Rgb, Rgba) => vec![cp(&v[0]), cp(&v[1]), cp(&v[2]), one()],
        (Rgba, Alpha) => vec![cp(&v[3])],
        (Rgba, Rgb) => vec![cp(&v[0]), cp(&v[1]), cp(&v[2])],
        _ => v,
    }
}

fn to_wide(lo: u128, hi: u128) -> Wide {
    [lo as u64, (lo >> 64) as u64, hi as u64, (hi >> 64) as u64]
}

// ------------------------------------------------------------------------------------------

/// the encoded surface as a function of the byte position (nothing is materialised): `Read + Seek`
struct VirtualSurface<'a> {
    spec: &'a Spec,
    unit_bytes: usize,
    len: u64,
    pos: u64,
}
impl std::io::Read for VirtualSurface<'_> {
    fn read(&mut self, buf: &mut [u8]) -> std::io::Result<usize> {
        let n = (buf.len() as u64).min(self.len.saturating_sub(self.pos)) as usize;
        for (k, b) in buf[..n].iter_mut().enumerate() {
            let p = self.pos + k as u64;
            let u = self.spec.unit(p / self.unit_bytes as u64, 8 * self.unit_bytes);
            *b = u.to_le_bytes()[(p % self.unit_bytes as u64) as usize];
        }
        self.pos += n as u64;
        Ok(n)
    }
}
impl std::io::Seek for VirtualSurface<'_> {
    fn seek(&mut self, to: std::io::SeekFrom) -> std::io::Result<u64> {
        let np = match to {
            std::io::SeekFrom::Start(p) => p as i128,
            std::io::SeekFrom::Current(d) => self.pos as i128 + d as i128,
            std::io::SeekFrom::End(d) => self.len as i128 + d as i128,
        };
        if np < 0 || np > u64::MAX as i128 {
            return Err(std::io::Error::new(std::io::ErrorKind::InvalidInput, "seek out of range"));
        }
        self.pos = np as u64;
        Ok(self.pos)
    }
}

/// `V <format> <channels> <prec> <W> <H> <ox> <oy> <rw> <rh> <spec>`: a window of a surface of ANY size (more than
/// 2^32 pixels included) whose encoded bytes are a function of the position; one-pixel-per-unit formats only.
/// Result: `ok` + the channels of the window's pixels. Oracle: every pixel is the ideal value of ITS OWN encoded
/// unit (unit index y*W + x computed in u64 / u128), and the reader ends at the end of the surface. Seed C04j.
fn run_v(t: &[&str]) -> Option<(String, Vec<String>)> {
    if t.len() != 11 {
        return None;
    }
    let tab = table();
    let fm = tab.iter().find(|f| f.name == t[1])?;
    let chans = ch_parse(t[2])?;
    let prec = p_u32(t[3])?;
    let precision = prec_of(prec)?;
    let (sw, sh) = (p_u64(t[4])?, p_u64(t[5])?);
    let (ox, oy, rw, rh) = (p_u64(t[6])?, p_u64(t[7])?, p_u64(t[8])?, p_u64(t[9])?);
    let spec = Spec::parse(t[10])?;
    if fm.planar.is_some() || fm.ppu != 1 || sw == 0 || sh == 0 || sw > u32::MAX as u64 || sh > u32::MAX as u64 {
        return None;
    }
    if rw == 0 || rh == 0 || rw * rh > 4096 || ox + rw > sw || oy + rh > sh {
        return None;
    }
    let len = (sw as u128 * sh as u128 * fm.unit_bytes as u128).min(u64::MAX as u128) as u64;
    if sw as u128 * sh as u128 * fm.unit_bytes as u128 > i64::MAX as u128 {
        return None;
    }
    let color = ColorFormat::new(chans, precision);
    let bpp = color.bytes_per_pixel() as usize;
    let nch = chans.count() as usize;
    let mut out = vec![0xA5u8; (rw * rh) as usize * bpp];
    let view = ImageViewMut::new(&mut out, Size::new(rw as u32, rh as u32), color)?;
    let mut reader = VirtualSurface { spec: &spec, unit_bytes: fm.unit_bytes, len, pos: 0 };
    let res = decode_rect(
        &mut reader,
        view,
        Offset::new(ox as u32, oy as u32),
        Size::new(sw as u32, sh as u32),
        fm.format,
        &DecodeOptions::default(),
    );
    let mut oracle = vec![];
    if let Err(e) = res {
        let d = format!("{e:?}");
        let short: String = d.chars().take_while(|c| c.is_alphanumeric()).collect();
        return Some((format!("err {short}"), vec![format!("decode_rect failed: {d}")]));
    }
    if reader.pos != len {
        oracle.push(format!("decode_rect left the reader at {} of {} bytes", reader.pos, len));
    }
    let bytes_per_val = bpp / nch;
    let vals: Vec<u32> = out
        .chunks_exact(bytes_per_val)
        .map(|c| match bytes_per_val {
            1 => c[0] as u32,
            2 => u16::from_ne_bytes([c[0], c[1]]) as u32,
            _ => u32::from_ne_bytes([c[0], c[1], c[2], c[3]]),
        })
        .collect();
    let mut s = String::from("ok");
    for &v in &vals {
        s.push(' ');
        if prec == 2 && is_nan(v) {
            s.push_str("nan");
        } else {
            s.push_str(&format!("{v:x}"));
        }
    }
    let kinds = native_comp_kinds(fm);
    'px: for y in 0..rh {
        for x in 0..rw {
            let i = (oy + y) * sw + ox + x;
            let word = to_wide(spec.unit(i, 8 * fm.unit_bytes), 0);
            let mut ex = ideal_pixel(fm, &word, 0);
            for (k, e) in ex.iter_mut().enumerate() {
                e.class = class_for(fm, prec, kinds.get(k).copied().flatten(), e.class);
            }
            let ex = convert_expect(fm.native, chans, ex);
            if ex.len() != nch {
                oracle.push("channel count".into());
                break 'px;
            }
            for (c, e) in ex.iter().enumerate() {
                let o = vals[((y * rw + x) as usize) * nch + c];
                if let Err(msg) = check_channel(o, prec, e) {
                    oracle.push(format!("pixel ({},{}) channel {c} unit #{i}: {msg}", ox + x, oy + y));
                    if oracle.len() > 4 {
                        break 'px;
                    }
                }
            }
        }
    }
    Some((s, oracle))
}

pub fn run(line: &str) -> Option<(String, Vec<String>)> {
    let t = toks(line);
    if t.first() == Some(&"V") {
        return run_v(&t);
    }
    if t.len() < 7 || t[0] != "D" {
        return None;
    }
    let tab = table();
    let fm = tab.iter().find(|f| f.name == t[1])?;
    let chans = ch_parse(t[2])?;
    let prec = p_u32(t[3])?;
    let precision = prec_of(prec)?;
    let w = p_u32(t[4])? as usize;
    let h = p_u32(t[5])? as usize;
    if w == 0 || h == 0 || w * h > 1_048_576 {
        return None;
    }
    // optional trailing token `rect:<ox>:<oy>:<rw>:<rh>`: the pixels of that rectangle are taken from a RECT decode
    // (`decode_rect` into the matching window of the output), all others from the full decode. The ideal value of a
    // pixel does not depend on how it was asked for, so result and oracle are those of the plain case (seeds C04i/j).
    let mut rect: Option<(usize, usize, usize, usize)> = None;
    let mut spec_toks: Vec<&str> = vec![];
    for s in &t[6..] {
        if let Some(r) = s.strip_prefix("rect:") {
            let v: Vec<usize> = r.split(':').map(|x| x.parse::<usize>().ok()).collect::<Option<Vec<_>>>()?;
            if v.len() != 4 || v[2] == 0 || v[3] == 0 || v[0] + v[2] > w || v[1] + v[3] > h {
                return None;
            }
            rect = Some((v[0], v[1], v[2], v[3]));
        } else {
            spec_toks.push(s);
        }
    }
    let specs: Vec<Spec> = spec_toks.iter().map(|s| Spec::parse(s)).collect::<Option<Vec<_>>>()?;
    if specs.len() != if fm.planar.is_some() { 2 } else { 1 } {
        return None;
    }

    // encoded bytes + the units as the oracle sees them
    let mut data: Vec<u8> = vec![];
    let units_per_row = (w + fm.ppu - 1) / fm.ppu;
    let (cw, chh) = ((w + 1) / 2, (h + 1) / 2);
    match fm.planar {
        None => {
            let bits = 8 * fm.unit_bytes;
            for i in 0..(units_per_row * h) as u64 {
                let u = specs[0].unit(i, bits);
                data.extend_from_slice(&u.to_le_bytes()[..fm.unit_bytes]);
            }
        }
        Some((p1, p2)) => {
            for i in 0..(w * h) as u64 {
                data.extend_from_slice(&specs[0].unit(i, 8 * p1).to_le_bytes()[..p1]);
            }
            for i in 0..(cw * chh) as u64 {
                data.extend_from_slice(&specs[1].unit(i, 8 * p2).to_le_bytes()[..p2]);
            }
        }
    }

    let color = ColorFormat::new(chans, precision);
    let bpp = color.bytes_per_pixel() as usize;
    let nch = chans.count() as usize;
    let mut out = vec![0xA5u8; w * h * bpp];
    let view = ImageViewMut::new(&mut out, Size::new(w as u32, h as u32), color)?;
    let mut reader = std::io::Cursor::new(&data[..]);
    let res = decode(&mut reader, view, fm.format, &DecodeOptions::default());
    let mut oracle = vec![];
    if let Err(e) = res {
        let d = format!("{e:?}");
        let short: String = d.chars().take_while(|c| c.is_alphanumeric()).collect();
        return Some((format!("err {short}"), vec![format!("decode failed: {d}")]));
    }
    if reader.position() as usize != data.len() {
        oracle.push(format!("consumed {} of {} bytes", reader.position(), data.len()));
    }
    if let Some((ox, oy, rw, rh)) = rect {
        for y in oy..oy + rh {
            out[(y * w + ox) * bpp..(y * w + ox + rw) * bpp].fill(0xA5);
        }
        let start = (oy * w + ox) * bpp;
        let window = ImageViewMut::new_with(&mut out[start..], w * bpp, Size::new(rw as u32, rh as u32), color)?;
        let mut reader = std::io::Cursor::new(&data[..]);
        let res = decode_rect(
            &mut reader,
            window,
            Offset::new(ox as u32, oy as u32),
            Size::new(w as u32, h as u32),
            fm.format,
            &DecodeOptions::default(),
        );
        if let Err(e) = res {
            let d = format!("{e:?}");
            let short: String = d.chars().take_while(|c| c.is_alphanumeric()).collect();
            return Some((format!("err {short}"), vec![format!("decode_rect failed: {d}")]));
        }
        if reader.position() as usize != data.len() {
            oracle.push(format!("decode_rect consumed {} of {} bytes", reader.position(), data.len()));
        }
    }
    // values
    let bytes_per_val = bpp / nch;
    let vals: Vec<u32> = out
        .chunks_exact(bytes_per_val)
        .map(|c| match bytes_per_val {
            1 => c[0] as u32,
            2 => u16::from_ne_bytes([c[0], c[1]]) as u32,
            _ => u32::from_ne_bytes([c[0], c[1], c[2], c[3]]),
        })
        .collect();
    let mut s = String::with_capacity(4 + vals.len() * 9);
    s.push_str("ok");
    for &v in &vals {
        s.push(' ');
        if prec == 2 && is_nan(v) {
            s.push_str("nan");
        } else {
            s.push_str(&format!("{v:x}"));
        }
    }

    // oracle: every pixel against its ideal
    let kinds = native_comp_kinds(fm);
    'px: for y in 0..h {
        for x in 0..w {
            let (word, p) = match fm.planar {
                None => {
                    let i = (y * units_per_row + x / fm.ppu) as u64;
                    (to_wide(specs[0].unit(i, 8 * fm.unit_bytes), 0), x % fm.ppu)
                }
                Some((p1, p2)) => {
                    let l = specs[0].unit((y * w + x) as u64, 8 * p1);
                    let c = specs[1].unit(((y / 2) * cw + x / 2) as u64, 8 * p2);
                    (to_wide(l | (c << (8 * p1)), 0), 0)
                }
            };
            let mut ex = ideal_pixel(fm, &word, p);
            for (i, e) in ex.iter_mut().enumerate() {
                e.class = class_for(fm, prec, kinds.get(i).copied().flatten(), e.class);
            }
            let ex = convert_expect(fm.native, chans, ex);
            if ex.len() != nch {
                oracle.push("channel count".into());
                break 'px;
            }
            for (c, e) in ex.iter().enumerate() {
                let o = vals[(y * w + x) * nch + c];
                if let Err(msg) = check_channel(o, prec, e) {
                    oracle.push(format!("pixel ({x},{y}) channel {c} unit {:x?}: {msg}", &word[..2]));
                    if oracle.len() > 4 {
                        break 'px;
                    }
                }
            }
        }
    }
    Some((s, oracle))
}

// ------------------------------------------------------------------------------------------
// generator

const F32_SPECIALS: &[u32] = &[
    0x0000_0000, 0x8000_0000, 0x0000_0001, 0x8000_0001, 0x007f_ffff, 0x0080_0000, 0x3b00_0000, 0x3b80_8081, 0x3b80_8080,
    0x3b00_8081, 0x3b00_8080, 0x3b00_8082, 0x3a80_0000, 0x3780_0080, 0x3700_0080, 0x3700_007f, 0x3700_0081, 0x3eff_ffff,
    0x3f00_0000, 0x3f00_0001, 0x3f00_8081, 0x3f00_8080, 0x3f00_8082, 0x3f7f_ffff, 0x3f80_0000, 0x3f80_0001, 0x3f7f_7f7f,
    0x3f7f_8080, 0x3f7f_ff80, 0x3f7f_ff7f, 0x3f7f_ff81, 0x4000_0000, 0x437f_0000, 0x477f_e000, 0x477f_ff00, 0x7f7f_ffff,
    0xff7f_ffff, 0x7f80_0000, 0xff80_0000, 0x7fc0_0000, 0xffc0_0000, 0x7f80_0001, 0x7fa5_5a5a, 0xffff_ffff, 0xbf80_0000,
    0xbf00_0000, 0x3300_0000, 0x3380_0000, 0x33ff_ffff, 0x3b7f_ffff,
];
const F16_SPECIALS: &[u32] = &[
    0x0000, 0x8000, 0x0001, 0x8001, 0x03ff, 0x0400, 0x0401, 0x1c00, 0x1c04, 0x1c03, 0x1c05, 0x3800, 0x37ff, 0x3801, 0x3bff,
    0x3c00, 0x3c01, 0x4000, 0x7bff, 0xfbff, 0x7c00, 0xfc00, 0x7e00, 0xfe00, 0x7c01, 0x7fff, 0xffff, 0xbc00, 0xb800, 0x0200,
    0x0080, 0x1bff, 0x2000, 0x2e66,
];

struct Gen {
    out: Vec<String>,
    rng: Rng,
}

fn native_name(fm: &Fmt) -> &'static str {
    ch_name(fm.native)
}

impl Gen {
    fn shape(&mut self, units: usize, fm: &Fmt) -> (usize, usize) {
        // a (w, h) whose unit count is exactly `units` for ppu = 1 formats
        let _ = fm;
        let hs: Vec<usize> = [1usize, 2, 4, 8, 16].iter().copied().filter(|h| units % h == 0).collect();
        let h = *self.rng.pick(&hs);
        (units / h, h)
    }
    fn push(&mut self, fm: &Fmt, ch: &str, prec: u32, w: usize, h: usize, spec: &str) {
        self.out.push(format!("D {} {} {} {} {} {}", fm.name, ch, prec, w, h, spec));
    }
}

pub fn gen(seed: u64, thorough: bool) -> Vec<String> {
    let tab = table();
    let mut g = Gen { out: vec![], rng: Rng::new(seed) };
    const CH: usize = 256;

    // W. rows whose encoded bytes exceed the 64 KiB read-ahead buffer (one row per refill, a row larger than the
    // buffer target): one non-planar format per unit size and a few more, native and foreign channels
    {
        let mut seen_units: Vec<usize> = vec![];
        for (i, fm) in tab.iter().filter(|f| f.planar.is_none()).enumerate() {
            let first_of_size = !seen_units.contains(&fm.unit_bytes);
            if first_of_size {
                seen_units.push(fm.unit_bytes);
            }
            if !(first_of_size || thorough || i % 7 == 0) {
                continue;
            }
            let units = 65536 / fm.unit_bytes + 1 + (i % 3);
            let w = units * fm.ppu;
            if w * 2 > 1_000_000 {
                continue;
            }
            let prec = (i % 3) as u32;
            g.push(fm, native_name(fm), prec, w, 2, &format!("R:{}", 1000 + i));
            g.push(fm, if fm.native == Channels::Rgba { "rgb" } else { "rgba" }, (prec + 1) % 3, w, 1, &format!("S:{}", 77 * i));
        }
    }

    // A. exhaustive: every value of every format whose unit has at most 16 bits, all precisions
    for fm in tab.iter().filter(|f| f.unit_bytes <= 2 && f.planar.is_none()) {
        let total = 1usize << (8 * fm.unit_bytes);
        for prec in 0..3 {
            let mut start = 0;
            while start < total {
                let n = CH.min(total - start);
                let (w, h) = if fm.ppu == 8 {
                    (n * 8, 1)
                } else {
                    g.shape(n, fm)
                };
                let spec = format!("S:{start}");
                g.push(fm, native_name(fm), prec, w, h, &spec);
                start += n;
            }
        }
    }

    // B. per field: all values of the field, other bits 0 / all ones / random
    for fm in tab.iter().filter(|f| f.unit_bytes > 2 || f.planar.is_some()) {
        let bits = 8 * fm.unit_bytes;
        for fld in &fm.fields {
            // sweep windows: the field itself, or for 32-bit fields its upper and lower half
            let windows: Vec<(u32, u32)> = if fld.width == 32 {
                vec![(fld.off + 16, 16), (fld.off, 16), (fld.off + 8, 16)]
            } else if fm.color != Color::Direct && fld.kind == Kind::Yuv && fld.width == 10 && fld.off % 16 == 6 {
                // 10 significant bits in a 16-bit container: sweep the container (low bits ignored)
                vec![(fld.off - 6, 16)]
            } else {
                vec![(fld.off, fld.width)]
            };
            for (woff, wwidth) in windows {
                let total = 1usize << wwidth;
                let nbases = if thorough { 4 } else { 3 };
                for b in 0..nbases {
                    let base: u128 = match b {
                        0 => 0,
                        1 => u128::MAX,
                        _ => (g.rng.next() as u128) | ((g.rng.next() as u128) << 64),
                    };
                    let base = mask_bits(base, bits);
                    // chunk starts
                    let mut starts: Vec<usize> = vec![];
                    if total <= 4096 || thorough {
                        starts = (0..total).step_by(CH).collect();
                    } else {
                        for s in [0usize, 0x3b00, 0x3c00, 0x7b00, 0x7c00, 0x7f00, 0x8000, 0xbc00, 0xfb00, 0xff00] {
                            starts.push(s);
                        }
                        for _ in 0..6 {
                            starts.push((g.rng.below(256) as usize) * 256);
                        }
                        starts.sort();
                        starts.dedup();
                    }
                    for prec in 0..3 {
                        for &start in &starts {
                            let n = CH.min(total - start.min(total)).max(1);
                            match fm.planar {
                                None => {
                                    let spec = format!("W:{woff}:{wwidth}:{base:x}:{start}");
                                    let (w, h) = if fm.ppu == 2 {
                                        // n blocks in one row, odd or even width
                                        let odd = g.rng.chance(1, 2);
                                        if n % 4 == 0 && g.rng.chance(1, 2) {
                                            ((n / 4) * 2 - odd as usize, 4)
                                        } else {
                                            (n * 2 - odd as usize, 1)
                                        }
                                    } else {
                                        g.shape(n, fm)
                                    };
                                    g.push(fm, native_name(fm), prec, w, h, &spec);
                                }
                                Some((p1, _p2)) => {
                                    let p1b = 8 * p1 as u32;
                                    if woff < p1b {
                                        // luma sweep: 16 x 16 luma samples, random chroma
                                        let s1 = format!("W:{woff}:{wwidth}:{:x}:{start}", mask_bits(base, p1b as usize));
                                        let s2 = format!("R:{}", g.rng.next() % 1000);
                                        g.out.push(format!("D {} {} {} 16 16 {} {}", fm.name, native_name(fm), prec, s1, s2));
                                    } else {
                                        // chroma sweep: 256 chroma samples = 32x32 / 31x31 / 32x31 / 31x32 pixels
                                        let s2 = format!("W:{}:{wwidth}:{:x}:{start}", woff - p1b, base >> p1b);
                                        let s1 = format!("R:{}", g.rng.next() % 1000);
                                        let w = 32 - g.rng.below(2) as usize;
                                        let h = 32 - g.rng.below(2) as usize;
                                        g.out.push(format!("D {} {} {} {} {} {} {}", fm.name, native_name(fm), prec, w, h, s1, s2));
                                    }
                                }
                            }
                        }
                    }
                }
            }
        }
    }

    // C. random full words, all geometries (odd / even widths and heights), native and other channels
    let dims: &[(usize, usize)] = &[
        (1, 1), (2, 1), (3, 1), (1, 2), (1, 3), (2, 2), (3, 3), (4, 3), (5, 2), (5, 5), (7, 4), (8, 8), (9, 3), (15, 2), (16, 5),
        (17, 3), (31, 2), (33, 3), (64, 4), (63, 5), (65, 2), (255, 1), (257, 2), (1025, 1),
    ];
    let all_ch = [Channels::Grayscale, Channels::Alpha, Channels::Rgb, Channels::Rgba];
    let rounds = if thorough { 40 } else { 3 };
    for fm in &tab {
        for round in 0..rounds {
            for &(w, h) in dims {
                for prec in 0..3 {
                    let chans: Vec<Channels> = if round == 0 {
                        let mut v = vec![fm.native];
                        if fm.native != Channels::Rgba {
                            v.push(Channels::Rgba);
                        }
                        v
                    } else {
                        vec![*g.rng.pick(&all_ch)]
                    };
                    for ch in chans {
                        let s1 = format!("R:{}", g.rng.next() % 1_000_000);
                        let line = if fm.planar.is_some() {
                            format!("D {} {} {} {} {} {} R:{}", fm.name, ch_name(ch), prec, w, h, s1, g.rng.next() % 1_000_000)
                        } else {
                            format!("D {} {} {} {} {} {}", fm.name, ch_name(ch), prec, w, h, s1)
                        };
                        g.out.push(line);
                    }
                }
            }
        }
    }

    // E. the same, with a window of the image taken from a RECT decode: every format, every target colour, odd and
    // even offsets and sizes (sub-sampled / bi-planar cells cut on either side), windows touching each edge
    {
        let edims: &[(usize, usize)] = &[(7, 5), (8, 6), (13, 4), (16, 9), (33, 3), (5, 12)];
        let rrounds = if thorough { 12 } else { 2 };
        for fm in &tab {
            for round in 0..rrounds {
                for (di, &(w, h)) in edims.iter().enumerate() {
                    if !thorough && (di + round) % 2 == 1 {
                        continue;
                    }
                    for prec in 0..3 {
                        let ch = if round == 0 { fm.native } else { *g.rng.pick(&all_ch) };
                        let ch = if round == 1 && ch == fm.native { Channels::Rgba } else { ch };
                        let rw = 1 + g.rng.below(w as u64) as usize;
                        let rh = 1 + g.rng.below(h as u64) as usize;
                        let (ox, oy) = match g.rng.below(4) {
                            0 => (0, 0),
                            1 => (w - rw, h - rh),
                            _ => (g.rng.below((w - rw + 1) as u64) as usize, g.rng.below((h - rh + 1) as u64) as usize),
                        };
                        let s1 = format!("R:{}", g.rng.next() % 1_000_000);
                        let s2 = if fm.planar.is_some() { format!(" R:{}", g.rng.next() % 1_000_000) } else { String::new() };
                        g.out.push(format!("D {} {} {} {} {} {}{} rect:{ox}:{oy}:{rw}:{rh}", fm.name, ch_name(ch), prec, w, h, s1, s2));
                    }
                }
            }
        }
    }

    // V. windows of surfaces with more than 2^32 pixels (and some smaller ones), first pixel index below / at / above
    // 2^32: every byte-position computation must be done in 64 bits (seed C04j). One-pixel-per-unit formats.
    {
        let geos: &[(u64, u64)] = &[(65536, 65540), (65537, 65536), (100000, 50000), (4294967295, 3), (3, 4294967295), (70000, 70000), (300, 200)];
        for (i, fm) in tab.iter().filter(|f| f.planar.is_none() && f.ppu == 1).enumerate() {
            for (gi, &(sw, sh)) in geos.iter().enumerate() {
                if !thorough && (i + gi) % 3 != 0 {
                    continue;
                }
                if sw as u128 * sh as u128 * fm.unit_bytes as u128 >= 1u128 << 62 {
                    continue;
                }
                // windows: at the start, straddling pixel index 2^32, far behind it, at the very end
                let row32 = (1u64 << 32) / sw;
                let mut wins: Vec<(u64, u64, u64, u64)> = vec![(0, 0, 3, 2), (sw - 3, sh - 2, 3, 2)];
                if row32 + 2 < sh {
                    let rw = 4u64.min(sw);
                    wins.push((((1u64 << 32) % sw).min(sw - rw), row32, rw, 2));
                    let rw = 5u64.min(sw);
                    wins.push((g.rng.below(sw - rw + 1), row32 + 1 + g.rng.below(sh - row32 - 2), rw, 1));
                }
                for (ox, oy, rw, rh) in wins {
                    let prec = g.rng.below(3);
                    let ch = if g.rng.chance(1, 2) { fm.native } else { *g.rng.pick(&all_ch) };
                    g.out.push(format!(
                        "V {} {} {} {} {} {} {} {} {} R:{}",
                        fm.name, ch_name(ch), prec, sw, sh, ox, oy, rw, rh, g.rng.next() % 1_000_000
                    ));
                }
            }
        }
    }

    // Y. YUV triples singled out by the rounding-error analysis of `Proofs/YuvErr.lean` (the decoders are proved
    // within the tolerance for ALL inputs there; these cases pin the model = implementation tie where that analysis is
    // tight): the 7^3 lattice {0, 1, luma offset, mid-1, mid, max-1, max}^3 (largest |c|, |d|, |e|; black; both
    // saturations), for every extreme chroma pair the luma values around the two clamp boundaries of each channel (a
    // result just inside / just outside (0,1)), and the triples with the largest observed binary32 error resp. distance
    // of the U8 / U16 code from the ideal (exhaustive for 8 bit, 2^25 samples for 10 / 16 bit; notes/C04.md), among them
    // exact U8 ties of the ideal G channel and yuv8::n8 inputs that come out one code off the nearest.
    {
        const Y8: &[(u64, u64, u64)] = &[
            (238, 0, 85), (212, 56, 145), (221, 81, 0), (1, 84, 41), (26, 104, 93), (29, 143, 17), (31, 17, 24), (37, 250, 63),
            (116, 58, 233), (182, 157, 238), (190, 109, 93), (12, 230, 11), (130, 243, 127), (152, 224, 255), (64, 144, 122),
            (94, 77, 105), (2, 178, 178), (3, 223, 0), (234, 83, 82), (221, 240, 209), (220, 56, 218), (232, 75, 248),
            (232, 5, 251), (215, 34, 236), (209, 38, 254), (254, 126, 254), (210, 82, 251), (229, 107, 32), (235, 128, 128),
            (16, 128, 128), (81, 90, 240), (145, 54, 34), (41, 240, 110),
        ];
        const Y10: &[(u64, u64, u64)] = &[
            (985, 497, 340), (993, 135, 1016), (985, 266, 602), (336, 305, 903), (840, 765, 369), (993, 737, 498),
            (984, 246, 776), (1009, 540, 680), (827, 528, 65), (1009, 172, 204), (985, 542, 625), (969, 504, 915),
            (998, 434, 727), (974, 208, 998), (1001, 334, 73), (940, 512, 512), (64, 512, 512),
        ];
        const Y16: &[(u64, u64, u64)] = &[
            (64185, 39755, 21736), (65404, 14109, 62020), (64843, 61, 14826), (61163, 58927, 15691), (60604, 10369, 10785),
            (63558, 38954, 51569), (65356, 21527, 64755), (61287, 10267, 57131), (64558, 1754, 32122), (63795, 64525, 12383),
            (63137, 7134, 22460), (65526, 47613, 58898), (63700, 37698, 56427), (65282, 7265, 57996), (61310, 8, 24523),
            (64629, 90, 35925), (65453, 16951, 14072), (60160, 32768, 32768), (4096, 32768, 32768),
        ];
        for (name, bits, listed) in [("AYUV", 8u32, Y8), ("Y410", 10, Y10), ("Y416", 16, Y16)] {
            let fm = tab.iter().find(|f| f.name == name).unwrap();
            let max: u64 = (1u64 << bits) - 1;
            let (oy, oc): (i128, i128) = (1i128 << (bits - 4), 1i128 << (bits - 1));
            let lv = [0u64, 1, oy as u64, max / 2, max / 2 + 1, max - 1, max];
            let mut triples: Vec<(u64, u64, u64)> = vec![];
            for &y in &lv {
                for &u in &lv {
                    for &v in &lv {
                        triples.push((y, u, v));
                    }
                }
            }
            triples.extend(listed.iter().copied());
            // luma values at which a channel enters / leaves (0, 1) for extreme chroma
            let ch = [0u64, max / 4, max / 2 + 1, max - max / 4, max];
            for &u in &ch {
                for &v in &ch {
                    let (d, e) = (u as i128 - oc, v as i128 - oc);
                    let rest = [1_596_027 * e, -391_762 * d - 812_968 * e, 2_017_232 * d];
                    for r in rest {
                        for target in [0i128, 1_000_000 * max as i128] {
                            // smallest y with 1164383 (y - oy) + r >= target
                            let y0 = oy + (target - r + 1_164_382).div_euclid(1_164_383);
                            for y in [y0 - 2, y0 - 1, y0, y0 + 1] {
                                if y >= 0 && y <= max as i128 {
                                    triples.push((y as u64, u, v));
                                }
                            }
                        }
                    }
                }
            }
            triples.sort();
            triples.dedup();
            let units: Vec<String> = triples
                .iter()
                .enumerate()
                .map(|(i, &(y, u, v))| {
                    let mut w: u128 = 0;
                    for fld in &fm.fields {
                        let val: u128 = match fld.comp {
                            Comp::Y => y as u128,
                            Comp::U => u as u128,
                            Comp::V => v as u128,
                            _ => (i as u128).wrapping_mul(0x9E37) ^ 0xFFFF,
                        };
                        w |= (val & ((1u128 << fld.width) - 1)) << fld.off;
                    }
                    format!("{w:x}")
                })
                .collect();
            for prec in 0..3 {
                for chunk in units.chunks(CH) {
                    g.out.push(format!("D {} {} {} {} 1 H:{}", fm.name, native_name(fm), prec, chunk.len(), chunk.join(",")));
                }
            }
        }
    }

    // D. float specials in every float field (others: specials too, rotated)
    for fm in tab.iter().filter(|f| f.fields.iter().any(|x| matches!(x.kind, Kind::Half | Kind::F32 | Kind::F11 | Kind::F10))) {
        let kind = fm.fields[0].kind;
        let specials: Vec<u32> = match kind {
            Kind::F32 => F32_SPECIALS.to_vec(),
            Kind::Half => F16_SPECIALS.to_vec(),
            _ => F16_SPECIALS.iter().map(|x| x >> 4).collect(),
        };
        let n = specials.len();
        let mut units: Vec<String> = vec![];
        for i in 0..n {
            let mut u: u128 = 0;
            for (k, fld) in fm.fields.iter().enumerate() {
                let v = specials[(i + k * 7) % n] as u128 & ((1u128 << fld.width) - 1);
                u |= v << fld.off;
            }
            units.push(format!("{u:x}"));
        }
        for prec in 0..3 {
            for ch in [fm.native, Channels::Rgba] {
                g.out.push(format!("D {} {} {} {} 1 H:{}", fm.name, ch_name(ch), prec, n, units.join(",")));
            }
        }
    }
    // f32 -> integer near rounding ties: x = (k + 1/2) / max and its binary32 neighbours
    {
        let fm = tab.iter().find(|f| f.name == "R32_FLOAT").unwrap();
        for (prec, max) in [(0u32, 255i128), (1, 65535)] {
            let ks: Vec<i128> = if max == 255 {
                (0..255).collect()
            } else {
                let mut v: Vec<i128> = (0..64).collect();
                v.extend((0..if thorough { 4000 } else { 600 }).map(|_| g.rng.below(65535) as i128));
                v.extend([32767, 32768, 65533, 65534]);
                v
            };
            let mut units: Vec<String> = vec![];
            for k in ks {
                let b = round_f32(2 * k + 1, 2 * max);
                for d in [-2i64, -1, 0, 1, 2] {
                    units.push(format!("{:x}", (b as i64 + d) as u32));
                }
            }
            for chunk in units.chunks(CH) {
                g.out.push(format!("D {} gray {} {} 1 H:{}", fm.name, prec, chunk.len(), chunk.join(",")));
            }
        }
    }
    // balance the work of check.py's contiguous chunks: deterministic Fisher-Yates shuffle
    let mut out = g.out;
    let mut rng = Rng::new(seed ^ 0xC04);
    for i in (1..out.len()).rev() {
        let j = rng.below(i as u64 + 1) as usize;
        out.swap(i, j);
    }
    out
}
