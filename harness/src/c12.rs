//! C12: uncompressed encoding is exact where the format can hold the input, else nearest.
//!
//! Case lines (see notes/C12.md):
//!   `int <fmt> <bits:8|16> <fam:g|a|rgb|rgba> <pat:0..3> <w> <h> <start>`
//!   `f32 <fmt> <fam> <w> <h> <hex,hex,...>`          explicit binary32 bit patterns, tiled over the image
//!   `sup <fmt>`                                      encoding_support() of the format (flag table tie)
//!   `carrier <fmt> <u8|u16|f32> <g|a|rgb|rgba> <hex,...>`  one row (1..64 pixels) in ONE colour format; result = the
//!                                                    encoded bytes (tie of the conversion chain `EncCarrier.lean`)
//!
//! Result `ok <len> <fnv64 of the encoded bytes, near-tie pixels zeroed>` / `err <kind>`.
//!
//! The oracle (independent of the Lean model, exact integer / rational arithmetic, no floats in
//! any decision) checks on the real `dds::encode` / `dds::decode`:
//!   * the encoded bytes are identical for every colour format that can carry the same pixel
//!     values, for tight and padded row pitch, aligned and unaligned buffers, parallel on/off;
//!   * exactness clause: decode at the input precision returns the input (defaults for channels
//!     that are not stored);
//!   * nearest clause: every stored channel, decoded at F32, is within half a quantisation step
//!     of the clamped input (YUV / sub-sampled: the wider bound stated in notes/C12.md).
use crate::common::*;
use dds::*;

// ------------------------------------------------------------------------------------------
// format table (written from the DXGI format names, not from the encoder code)

#[derive(Clone, Copy, PartialEq, Debug)]
pub enum K {
    U(u32),
    S(u32),
    H16,
    F11,
    F10,
    F32,
    Xr,
    E9,
    No,
}
#[derive(Clone, Copy, PartialEq, Debug)]
pub enum Cls {
    Plain,
    Yuv(u32),
    Rgbg,
    SubYuv(u32),
    R1,
    Bi(u32),
}
/// native channels (what a decode to RGBA fills in for channels that are not stored)
#[derive(Clone, Copy, PartialEq, Debug)]
pub enum Nat {
    G,
    A,
    Rg0,
    RgH,
    Rgb,
    Rgba,
}
pub struct Fm {
    pub name: &'static str,
    pub fmt: Format,
    pub cls: Cls,
    pub nat: Nat,
    pub k: [K; 4],
    /// bytes per pixel (Plain/Yuv), per 2x1 block (Rgbg/SubYuv), per 8x1 block (R1), per plane-1 sample (Bi)
    pub unit: usize,
}

use Cls::*;
use K::*;
const fn fm(name: &'static str, fmt: Format, cls: Cls, nat: Nat, k: [K; 4], unit: usize) -> Fm {
    Fm { name, fmt, cls, nat, k, unit }
}
pub static FORMATS: [Fm; 45] = [
    fm("R8G8B8_UNORM", Format::R8G8B8_UNORM, Plain, Nat::Rgb, [U(8), U(8), U(8), No], 3),
    fm("B8G8R8_UNORM", Format::B8G8R8_UNORM, Plain, Nat::Rgb, [U(8), U(8), U(8), No], 3),
    fm("R8G8B8A8_UNORM", Format::R8G8B8A8_UNORM, Plain, Nat::Rgba, [U(8), U(8), U(8), U(8)], 4),
    fm("R8G8B8A8_SNORM", Format::R8G8B8A8_SNORM, Plain, Nat::Rgba, [S(8), S(8), S(8), S(8)], 4),
    fm("B8G8R8A8_UNORM", Format::B8G8R8A8_UNORM, Plain, Nat::Rgba, [U(8), U(8), U(8), U(8)], 4),
    fm("B8G8R8X8_UNORM", Format::B8G8R8X8_UNORM, Plain, Nat::Rgb, [U(8), U(8), U(8), No], 4),
    fm("B5G6R5_UNORM", Format::B5G6R5_UNORM, Plain, Nat::Rgb, [U(5), U(6), U(5), No], 2),
    fm("B5G5R5A1_UNORM", Format::B5G5R5A1_UNORM, Plain, Nat::Rgba, [U(5), U(5), U(5), U(1)], 2),
    fm("B4G4R4A4_UNORM", Format::B4G4R4A4_UNORM, Plain, Nat::Rgba, [U(4), U(4), U(4), U(4)], 2),
    fm("A4B4G4R4_UNORM", Format::A4B4G4R4_UNORM, Plain, Nat::Rgba, [U(4), U(4), U(4), U(4)], 2),
    fm("R8_SNORM", Format::R8_SNORM, Plain, Nat::G, [S(8), No, No, No], 1),
    fm("R8_UNORM", Format::R8_UNORM, Plain, Nat::G, [U(8), No, No, No], 1),
    fm("R8G8_UNORM", Format::R8G8_UNORM, Plain, Nat::Rg0, [U(8), U(8), No, No], 2),
    fm("R8G8_SNORM", Format::R8G8_SNORM, Plain, Nat::RgH, [S(8), S(8), No, No], 2),
    fm("A8_UNORM", Format::A8_UNORM, Plain, Nat::A, [No, No, No, U(8)], 1),
    fm("R16_UNORM", Format::R16_UNORM, Plain, Nat::G, [U(16), No, No, No], 2),
    fm("R16_SNORM", Format::R16_SNORM, Plain, Nat::G, [S(16), No, No, No], 2),
    fm("R16G16_UNORM", Format::R16G16_UNORM, Plain, Nat::Rg0, [U(16), U(16), No, No], 4),
    fm("R16G16_SNORM", Format::R16G16_SNORM, Plain, Nat::RgH, [S(16), S(16), No, No], 4),
    fm("R16G16B16A16_UNORM", Format::R16G16B16A16_UNORM, Plain, Nat::Rgba, [U(16), U(16), U(16), U(16)], 8),
    fm("R16G16B16A16_SNORM", Format::R16G16B16A16_SNORM, Plain, Nat::Rgba, [S(16), S(16), S(16), S(16)], 8),
    fm("R10G10B10A2_UNORM", Format::R10G10B10A2_UNORM, Plain, Nat::Rgba, [U(10), U(10), U(10), U(2)], 4),
    fm("R11G11B10_FLOAT", Format::R11G11B10_FLOAT, Plain, Nat::Rgb, [F11, F11, F10, No], 4),
    fm("R9G9B9E5_SHAREDEXP", Format::R9G9B9E5_SHAREDEXP, Plain, Nat::Rgb, [E9, E9, E9, No], 4),
    fm("R16_FLOAT", Format::R16_FLOAT, Plain, Nat::G, [H16, No, No, No], 2),
    fm("R16G16_FLOAT", Format::R16G16_FLOAT, Plain, Nat::Rg0, [H16, H16, No, No], 4),
    fm("R16G16B16A16_FLOAT", Format::R16G16B16A16_FLOAT, Plain, Nat::Rgba, [H16, H16, H16, H16], 8),
    fm("R32_FLOAT", Format::R32_FLOAT, Plain, Nat::G, [F32, No, No, No], 4),
    fm("R32G32_FLOAT", Format::R32G32_FLOAT, Plain, Nat::Rg0, [F32, F32, No, No], 8),
    fm("R32G32B32_FLOAT", Format::R32G32B32_FLOAT, Plain, Nat::Rgb, [F32, F32, F32, No], 12),
    fm("R32G32B32A32_FLOAT", Format::R32G32B32A32_FLOAT, Plain, Nat::Rgba, [F32, F32, F32, F32], 16),
    fm("R10G10B10_XR_BIAS_A2_UNORM", Format::R10G10B10_XR_BIAS_A2_UNORM, Plain, Nat::Rgba, [Xr, Xr, Xr, U(2)], 4),
    fm("AYUV", Format::AYUV, Yuv(8), Nat::Rgba, [No, No, No, U(8)], 4),
    fm("Y410", Format::Y410, Yuv(10), Nat::Rgba, [No, No, No, U(2)], 4),
    fm("Y416", Format::Y416, Yuv(16), Nat::Rgba, [No, No, No, U(16)], 8),
    fm("R1_UNORM", Format::R1_UNORM, R1, Nat::G, [U(1), No, No, No], 1),
    fm("R8G8_B8G8_UNORM", Format::R8G8_B8G8_UNORM, Rgbg, Nat::Rgb, [U(8), U(8), U(8), No], 4),
    fm("G8R8_G8B8_UNORM", Format::G8R8_G8B8_UNORM, Rgbg, Nat::Rgb, [U(8), U(8), U(8), No], 4),
    fm("UYVY", Format::UYVY, SubYuv(8), Nat::Rgb, [No, No, No, No], 4),
    fm("YUY2", Format::YUY2, SubYuv(8), Nat::Rgb, [No, No, No, No], 4),
    fm("Y210", Format::Y210, SubYuv(10), Nat::Rgb, [No, No, No, No], 8),
    fm("Y216", Format::Y216, SubYuv(16), Nat::Rgb, [No, No, No, No], 8),
    fm("NV12", Format::NV12, Bi(8), Nat::Rgb, [No, No, No, No], 1),
    fm("P010", Format::P010, Bi(10), Nat::Rgb, [No, No, No, No], 2),
    fm("P016", Format::P016, Bi(16), Nat::Rgb, [No, No, No, No], 2),
];

pub fn find(name: &str) -> Option<&'static Fm> {
    FORMATS.iter().find(|f| f.name == name)
}

impl Fm {
    fn is_yuv(&self) -> bool {
        matches!(self.cls, Yuv(_) | SubYuv(_) | Bi(_))
    }
    /// bit depth of the YUV matrix evaluated by the encoder (Y210 is produced from 16-bit codes)
    fn yuv_bits(&self) -> u32 {
        match self.cls {
            Yuv(m) | Bi(m) => m,
            SubYuv(10) => 16,
            SubYuv(m) => m,
            _ => 0,
        }
    }
    fn stored(&self) -> [bool; 4] {
        if self.is_yuv() {
            [true, true, true, self.k[3] != No]
        } else {
            [self.k[0] != No, self.k[1] != No, self.k[2] != No, self.k[3] != No]
        }
    }
    /// encoded length for w x h
    fn enc_len(&self, w: usize, h: usize) -> usize {
        match self.cls {
            Plain | Yuv(_) => w * h * self.unit,
            Rgbg | SubYuv(_) => (w + 1) / 2 * h * self.unit,
            R1 => (w + 7) / 8 * h,
            Bi(_) => w * h * self.unit + (w / 2) * (h / 2) * 2 * self.unit,
        }
    }
    /// The property's exactness clause applies: every stored channel has at least the input's bit
    /// depth (YUV, sub-sampled and bi-planar formats fall under the wider-bound clause).
    fn exact_for(&self, p: Prec) -> bool {
        if self.cls != Plain {
            return false;
        }
        self.k.iter().all(|k| match (*k, p) {
            (No, _) => true,
            (F32, _) => true,
            (U(b), Prec::U8) => b >= 8,
            (U(b), Prec::U16) => b >= 16,
            (S(b), Prec::U8) => b > 8,
            (S(b), Prec::U16) => b > 16,
            (H16, Prec::U8) | (E9, Prec::U8) => true,
            _ => false,
        })
    }
}

#[derive(Clone, Copy, PartialEq, Debug)]
pub enum Prec {
    U8,
    U16,
    F32,
}
#[derive(Clone, Copy, PartialEq, Debug)]
pub enum Fam {
    G,
    A,
    Rgb,
    Rgba,
}
fn fam_of(s: &str) -> Option<Fam> {
    Some(match s {
        "g" => Fam::G,
        "a" => Fam::A,
        "rgb" => Fam::Rgb,
        "rgba" => Fam::Rgba,
        _ => return None,
    })
}
fn fam_name(f: Fam) -> &'static str {
    match f {
        Fam::G => "g",
        Fam::A => "a",
        Fam::Rgb => "rgb",
        Fam::Rgba => "rgba",
    }
}

// ------------------------------------------------------------------------------------------
// exact arithmetic

fn gcd(a: i128, b: i128) -> i128 {
    let (mut a, mut b) = (a.abs(), b.abs());
    while b != 0 {
        let t = a % b;
        a = b;
        b = t;
    }
    a
}
/// exact rational, always reduced, d > 0
#[derive(Clone, Copy, Debug, PartialEq)]
pub struct Q {
    n: i128,
    d: i128,
}
impl Q {
    pub fn new(n: i128, d: i128) -> Q {
        assert!(d != 0);
        let g = gcd(n, d).max(1);
        let s = if d < 0 { -1 } else { 1 };
        Q { n: s * n / g, d: s * d / g }
    }
    pub fn int(n: i128) -> Q {
        Q { n, d: 1 }
    }
    pub fn add(self, o: Q) -> Q {
        let g = gcd(self.d, o.d).max(1);
        let l = self.d / g;
        let r = o.d / g;
        Q::new(
            self.n.checked_mul(r).unwrap().checked_add(o.n.checked_mul(l).unwrap()).unwrap(),
            l.checked_mul(o.d).unwrap(),
        )
    }
    pub fn neg(self) -> Q {
        Q { n: -self.n, d: self.d }
    }
    pub fn sub(self, o: Q) -> Q {
        self.add(o.neg())
    }
    pub fn mul(self, o: Q) -> Q {
        let g1 = gcd(self.n, o.d).max(1);
        let g2 = gcd(o.n, self.d).max(1);
        Q::new(
            (self.n / g1).checked_mul(o.n / g2).unwrap(),
            (self.d / g2).checked_mul(o.d / g1).unwrap(),
        )
    }
    pub fn abs(self) -> Q {
        Q { n: self.n.abs(), d: self.d }
    }
    pub fn le(self, o: Q) -> bool {
        self.sub(o).n <= 0
    }
    pub fn lt(self, o: Q) -> bool {
        self.sub(o).n < 0
    }
    pub fn floor(self) -> i128 {
        self.n.div_euclid(self.d)
    }
    pub fn pow2(e: i32) -> Q {
        if e >= 0 {
            Q::int(1i128 << e)
        } else {
            Q { n: 1, d: 1i128 << (-e) }
        }
    }
    pub fn show(self) -> String {
        format!("{}/{}", self.n, self.d)
    }
}

/// classification of a binary32 bit pattern
#[derive(Clone, Copy, Debug, PartialEq)]
pub enum FC {
    Nan,
    PInf,
    NInf,
    /// exact value (0 or 2^-40 <= |x| < 2^40)
    Fin(Q),
    /// 0 < |x| < 2^-40, sign
    Tiny(bool),
    /// 2^40 <= |x| < inf, sign
    Huge(bool),
}
pub fn classify_f32(bits: u32) -> FC {
    let neg = bits >> 31 != 0;
    let e = ((bits >> 23) & 0xFF) as i32;
    let m = (bits & 0x7F_FFFF) as i128;
    if e == 255 {
        return if m != 0 {
            FC::Nan
        } else if neg {
            FC::NInf
        } else {
            FC::PInf
        };
    }
    let (mant, exp) = if e == 0 { (m, -149) } else { (m | 0x80_0000, e - 150) };
    if mant == 0 {
        return FC::Fin(Q::int(0));
    }
    // |x| = mant * 2^exp, 2^(exp) <= |x| < 2^(exp+24)
    let top = 127 - (mant as u128).leading_zeros() as i32 + exp; // floor(log2 |x|)
    if top < -40 {
        return FC::Tiny(neg);
    }
    if top >= 40 {
        return FC::Huge(neg);
    }
    let q = Q::int(mant).mul(Q::pow2(exp));
    FC::Fin(if neg { q.neg() } else { q })
}

/// nearest binary32 (ties to even) of a/b, 0 <= a/b <= 1, computed in integers
pub fn nearest_f32(a: u128, b: u128) -> u32 {
    if a == 0 {
        return 0;
    }
    // find e with 2^e <= a/b < 2^(e+1), e <= 0
    let mut e: i32 = 0;
    while (a << (-e) as u32) < b {
        e -= 1;
    }
    // a/b = (a*2^-e / b) with quotient in [1,2); mantissa = round(a * 2^(23-e) / b)
    let sh = (23 - e) as u32;
    let num = a << sh;
    let mut m = num / b;
    let r = num % b;
    if 2 * r > b || (2 * r == b && m & 1 == 1) {
        m += 1;
    }
    let mut ee = e;
    if m == 1 << 24 {
        m >>= 1;
        ee += 1;
    }
    (((ee + 127) as u32) << 23) | ((m as u32) & 0x7F_FFFF)
}

// ------------------------------------------------------------------------------------------
// pixel value patterns

/// logical channel value
#[derive(Clone, Copy, Debug, PartialEq)]
pub enum V {
    I(u32, u32),
    F(u32),
}
impl V {
    fn class(self) -> FC {
        match self {
            V::I(v, n) => FC::Fin(Q::new(v as i128, ((1u64 << n) - 1) as i128)),
            V::F(b) => classify_f32(b),
        }
    }
}

const MULT: [u64; 4] = [1, 7, 0, 13]; // 0 => reversed ramp
const ADD: [u64; 4] = [0, 3, 0, 5];

/// value of channel `c` for logical pixel index `k` in integer pattern `pat`
pub fn int_chan(pat: u32, bits: u32, c: usize, k: u64) -> u32 {
    let r = 1u64 << bits;
    let base = |k: u64| -> u64 {
        if c == 2 {
            (r - 1) - (k % r)
        } else {
            (k * MULT[c] + ADD[c]) % r
        }
    };
    (match pat {
        // per-pixel ramps (every channel takes every value over 2^bits consecutive pixels)
        0 => base(k),
        // the same ramp held constant over 2x1 blocks (used with block-constant geometry)
        1 => base(k / 2),
        // pairs: r = low byte/word, g = next, b = mixed (R9G9B9E5 / YUV channel interaction)
        2 => match c {
            0 => k % r,
            1 => (k / r) % r,
            2 => (k / 16 * 5 + 1) % r,
            _ => (k * 13 + 5) % r,
        },
        // even steps: neighbours differ by an even amount (averages of pairs are integers)
        _ => {
            let t = base(k);
            (2 * t + (t >> (bits - 1))) % r
        }
    }) as u32
}

/// logical pixel index of pixel (x,y); block-constant for pattern 1 on 2x2-blocked formats
fn pix_index(pat: u32, bi: bool, w: usize, x: usize, y: usize, start: u64) -> u64 {
    if pat == 1 && bi {
        start + 2 * ((y / 2) * (w / 2) + x / 2) as u64
    } else {
        start + (y * w + x) as u64
    }
}

// ------------------------------------------------------------------------------------------
// spec-side near-tie predicate (shared reading with Quant.lean; used only to zero bytes
// before hashing and to widen the oracle by the stated tolerance)

fn clamp01(c: FC) -> Q {
    match c {
        FC::Nan | FC::NInf => Q::int(0),
        FC::PInf => Q::int(1),
        FC::Tiny(_) => Q::int(0),
        FC::Huge(neg) => Q::int(if neg { 0 } else { 1 }),
        FC::Fin(q) => {
            if q.n < 0 {
                Q::int(0)
            } else if Q::int(1).lt(q) {
                Q::int(1)
            } else {
                q
            }
        }
    }
}
fn near_half(s: Q, tol: Q) -> bool {
    let f = s.sub(Q::int(s.floor()));
    f.sub(Q::new(1, 2)).abs().lt(tol)
}
fn levels(k: K) -> i128 {
    match k {
        U(b) => (1i128 << b) - 1,
        S(b) => (1i128 << b) - 2,
        _ => 0,
    }
}
/// field-level near-tie test for clamped kinds
/// tie tolerance in steps: 2^-12, widened to 2^(b-23) for fields of more than 11 bits that are
/// evaluated in binary32 (`x * 65535.0 + 0.5` carries 8 bits below the unit)
fn tol_steps(k: K) -> Q {
    match k {
        U(b) if b > 11 => Q::pow2(b as i32 - 23),
        _ => Q::pow2(-12),
    }
}
fn near_tie_field(k: K, c: FC, e9_scale: Option<Q>) -> bool {
    let tol = tol_steps(k);
    match k {
        U(_) | S(_) => near_half(clamp01(c).mul(Q::int(levels(k))), tol),
        Xr => match c {
            FC::Fin(q) if Q::int(-384).le(q.mul(Q::int(510))) && q.mul(Q::int(510)).le(Q::int(639)) => near_half(q.mul(Q::int(510)), tol),
            _ => false,
        },
        E9 => match (c, e9_scale) {
            (FC::Fin(q), Some(sc)) if q.n > 0 => near_half(q.mul(sc), tol),
            _ => false,
        },
        _ => false,
    }
}
/// R9G9B9E5: clamp to [0, 65408]; NaN -> 0
fn e9_clamp(c: FC) -> Q {
    match c {
        FC::Nan | FC::NInf | FC::Tiny(_) => Q::int(0),
        FC::PInf => Q::int(65408),
        FC::Huge(neg) => Q::int(if neg { 0 } else { 65408 }),
        FC::Fin(q) => {
            if q.n < 0 {
                Q::int(0)
            } else if Q::int(65408).lt(q) {
                Q::int(65408)
            } else {
                q
            }
        }
    }
}
fn floor_log2(q: Q) -> i32 {
    // q > 0
    let mut e = 0i32;
    while Q::pow2(e + 1).le(q) {
        e += 1;
    }
    while q.lt(Q::pow2(e)) {
        e -= 1;
    }
    e
}
/// multiplier 2^(24-exp) of the shared exponent chosen for the maximum channel `mx` (before the
/// possible bump when the maximum mantissa rounds to 512); None when everything is zero
fn e9_scale(mx: Q, tol: bool) -> Option<Q> {
    if mx.n <= 0 {
        return None;
    }
    let e = floor_log2(mx).max(-16);
    let mut exp = e + 16;
    let sc = Q::pow2(24 - exp);
    let t = if tol { Q::pow2(-12) } else { Q::int(0) };
    if mx.mul(sc).add(Q::new(1, 2)).add(t).floor() == 512 {
        exp += 1;
    }
    Some(Q::pow2(24 - exp))
}

const YC: [[i128; 3]; 3] = [[256788, 504129, 97906], [-148223, -290993, 439216], [439216, -367788, -71427]];
/// ideal pre-rounding Y,U,V in code units of an m-bit YUV format, for tame inputs
fn yuv_ideal(m: u32, rgb: [Q; 3]) -> [Q; 3] {
    let s = Q::int((1i128 << m) - 1);
    let off = [16i128 << (m - 8), 128i128 << (m - 8), 128i128 << (m - 8)];
    let mut out = [Q::int(0); 3];
    for i in 0..3 {
        let mut acc = Q::int(0);
        for j in 0..3 {
            acc = acc.add(Q::new(YC[i][j], 1_000_000).mul(rgb[j]));
        }
        out[i] = acc.mul(s).add(Q::int(off[i]));
    }
    out
}
/// tame for the YUV matrix: every channel 0 or 2^-40 <= |x| <= 5/4
fn yuv_tame(c: FC) -> Option<Q> {
    match c {
        FC::Fin(q) if q.abs().le(Q::new(5, 4)) => Some(q),
        _ => None,
    }
}

/// per-pixel: does the spec leave the encoded pixel undetermined (near tie / untamed)?
fn pixel_loose(f: &Fm, px: [V; 4], int_line: bool) -> bool {
    let cl = [px[0].class(), px[1].class(), px[2].class(), px[3].class()];
    if f.is_yuv() {
        let m = f.yuv_bits();
        let (Some(r), Some(g), Some(b)) = (yuv_tame(cl[0]), yuv_tame(cl[1]), yuv_tame(cl[2])) else {
            return true;
        };
        let tol = Q::pow2(m as i32 - 20);
        for s in yuv_ideal(m, [r, g, b]) {
            if near_half(s, tol) {
                return true;
            }
        }
        if f.k[3] != No && (cl[3] == FC::Nan || near_tie_field(f.k[3], cl[3], None)) {
            return true;
        }
        return false;
    }
    let _ = int_line;
    if f.cls == Rgbg {
        // R and B are handled at block level
        return cl[1] == FC::Nan || near_tie_field(U(8), cl[1], None);
    }
    let tol = Q::pow2(-12);
    if f.k[0] == E9 {
        if cl[..3].contains(&FC::Nan) {
            return true;
        }
        let cs = [e9_clamp(cl[0]), e9_clamp(cl[1]), e9_clamp(cl[2])];
        let mut mx = cs[0];
        for x in &cs[1..] {
            if mx.lt(*x) {
                mx = *x;
            }
        }
        if mx.n <= 0 {
            return false;
        }
        // the maximum channel at the un-bumped scale decides the exponent
        let sc0 = Q::pow2(24 - (floor_log2(mx).max(-16) + 16));
        if near_half(mx.mul(sc0), tol) {
            return true;
        }
        let sc = e9_scale(mx, false).unwrap();
        return cs.iter().any(|c| c.n > 0 && near_half(c.mul(sc), tol));
    }
    for c in 0..4 {
        match f.k[c] {
            No | F32 | E9 => {}
            H16 | F11 | F10 => match cl[c] {
                FC::Nan => return true,
                FC::Fin(q) if int_line => {
                    if near_tie_float(f.k[c], q) {
                        return true;
                    }
                }
                _ => {}
            },
            k => {
                if cl[c] == FC::Nan || near_tie_field(k, cl[c], None) {
                    return true;
                }
            }
        }
    }
    false
}
/// integer input (not a binary32 value) within 2^-12 ulp of the midpoint of two representable values
fn near_tie_float(k: K, q: Q) -> bool {
    if q.n <= 0 {
        return false;
    }
    let ulp = half_ulp(k, q).mul(Q::int(2));
    near_half(q.mul(Q::new(ulp.d, ulp.n)), Q::pow2(-12))
}
/// R8G8_B8G8 / G8R8_G8B8: the averaged R and B of a pair
fn rgbg_pair_loose(a: [V; 4], b: [V; 4]) -> bool {
    for c in [0usize, 2] {
        let m = clamp_sum_half(a[c].class(), b[c].class());
        match m {
            Some(m) => {
                if near_half(clamp01(FC::Fin(m)).mul(Q::int(255)), Q::pow2(-12)) {
                    return true;
                }
            }
            None => return true,
        }
    }
    false
}
/// (a+b)/2 for values that are 0 or moderate; None otherwise (spec leaves the pair undetermined)
fn clamp_sum_half(a: FC, b: FC) -> Option<Q> {
    match (a, b) {
        (FC::Fin(x), FC::Fin(y)) => Some(x.add(y).mul(Q::new(1, 2))),
        _ => None,
    }
}

// ------------------------------------------------------------------------------------------
// building carrier images and running the library

fn fnv(bytes: &[u8]) -> u64 {
    let mut h: u64 = 0xcbf29ce484222325;
    for b in bytes {
        h ^= *b as u64;
        h = h.wrapping_mul(0x100000001b3);
    }
    h
}

fn carrier_value(v: V, p: Prec) -> Option<[u8; 4]> {
    // bytes (native endian) of the channel value in precision p; None if p cannot carry it
    match (v, p) {
        (V::I(x, 8), Prec::U8) => Some([x as u8, 0, 0, 0]),
        (V::I(x, 8), Prec::U16) => {
            let b = ((x * 257) as u16).to_ne_bytes();
            Some([b[0], b[1], 0, 0])
        }
        (V::I(x, 16), Prec::U16) => {
            let b = (x as u16).to_ne_bytes();
            Some([b[0], b[1], 0, 0])
        }
        (V::I(x, n), Prec::F32) => Some(nearest_f32(x as u128, (1u128 << n) - 1).to_ne_bytes()),
        (V::F(b), Prec::F32) => Some(b.to_ne_bytes()),
        _ => None,
    }
}
fn psize(p: Prec) -> usize {
    match p {
        Prec::U8 => 1,
        Prec::U16 => 2,
        Prec::F32 => 4,
    }
}
fn precision(p: Prec) -> Precision {
    match p {
        Prec::U8 => Precision::U8,
        Prec::U16 => Precision::U16,
        Prec::F32 => Precision::F32,
    }
}
/// the channel layouts that can carry a pixel family, with the logical channel indices they hold
fn carriers(f: Fam) -> Vec<(Channels, &'static [usize])> {
    match f {
        Fam::G => vec![(Channels::Grayscale, &[0]), (Channels::Rgb, &[0, 1, 2]), (Channels::Rgba, &[0, 1, 2, 3])],
        Fam::A => vec![(Channels::Alpha, &[3]), (Channels::Rgba, &[0, 1, 2, 3])],
        Fam::Rgb => vec![(Channels::Rgb, &[0, 1, 2]), (Channels::Rgba, &[0, 1, 2, 3])],
        Fam::Rgba => vec![(Channels::Rgba, &[0, 1, 2, 3])],
    }
}

struct Img {
    w: usize,
    h: usize,
    px: Vec<[V; 4]>,
}

/// builds the carrier buffer; returns (buffer, offset of first byte, pitch)
fn build(img: &Img, ch: &[usize], p: Prec, pad: usize, off: usize) -> Option<(Vec<u8>, usize, usize)> {
    let bpp = ch.len() * psize(p);
    let pitch = img.w * bpp + pad;
    let mut buf = vec![0xA5u8; off + pitch * img.h + 8];
    for y in 0..img.h {
        for x in 0..img.w {
            let px = img.px[y * img.w + x];
            let o = off + y * pitch + x * bpp;
            for (i, c) in ch.iter().enumerate() {
                let b = carrier_value(px[*c], p)?;
                buf[o + i * psize(p)..o + (i + 1) * psize(p)].copy_from_slice(&b[..psize(p)]);
            }
        }
    }
    Some((buf, off, pitch))
}

fn err_name(e: &EncodingError) -> String {
    match e {
        EncodingError::InvalidSize(..) => "size".into(),
        EncodingError::UnsupportedFormat(..) => "unsupported".into(),
        _ => "other".into(),
    }
}

fn encode_one(f: &Fm, img: &Img, chs: Channels, ch: &[usize], p: Prec, pad: usize, off: usize, par: bool) -> Option<Result<Vec<u8>, String>> {
    encode_one_d(f, img, chs, ch, p, pad, off, par, Dithering::None)
}

fn encode_one_d(f: &Fm, img: &Img, chs: Channels, ch: &[usize], p: Prec, pad: usize, off: usize, par: bool, dith: Dithering) -> Option<Result<Vec<u8>, String>> {
    let (buf, off, pitch) = build(img, ch, p, pad, off)?;
    let color = ColorFormat::new(chs, precision(p));
    let size = Size::new(img.w as u32, img.h as u32);
    let data = &buf[off..];
    let view = if pad == 0 {
        ImageView::new(&data[..pitch * img.h], size, color)?
    } else {
        ImageView::new_with(data, pitch, size, color)?
    };
    // the sink accepts a limited number of bytes per `write` call for most geometries (any conforming `Write` may):
    // the round trip and the independence clauses must hold through every writer (seed C12j)
    let max = [usize::MAX, 4096, usize::MAX, 1000, 7, 100][(img.w * 5 + img.h * 3 + pad + off + ch.len() + par as usize) % 6];
    let mut out = crate::c09::ShortWriter { data: Vec::new(), max };
    let mut opt = EncodeOptions::default();
    opt.dithering = dith;
    opt.parallel = par;
    Some(match encode(&mut out, view, f.fmt, None, &opt) {
        Ok(()) => Ok(out.data),
        Err(e) => Err(err_name(&e)),
    })
}

fn decode_rgba(f: &Fm, bytes: &[u8], w: usize, h: usize, p: Prec) -> Result<Vec<u8>, String> {
    let mut out = vec![0u8; w * h * 4 * psize(p)];
    let color = ColorFormat::new(Channels::Rgba, precision(p));
    let view = ImageViewMut::new(&mut out, Size::new(w as u32, h as u32), color).ok_or("view")?;
    let mut r: &[u8] = bytes;
    decode(&mut r, view, f.fmt, &DecodeOptions::default()).map_err(|e| format!("{e:?}"))?;
    if !r.is_empty() {
        return Err(format!("decode left {} bytes", r.len()));
    }
    Ok(out)
}

// ------------------------------------------------------------------------------------------
// oracle

/// expected decode (same precision) of logical pixel `px` for native channels `nat`
fn expect_same(nat: Nat, px: [V; 4], p: Prec) -> [u32; 4] {
    let one = match p {
        Prec::U8 => 255,
        Prec::U16 => 65535,
        Prec::F32 => 0x3F80_0000,
    };
    let half = match p {
        Prec::U8 => 128,
        Prec::U16 => 32768,
        Prec::F32 => 0x3F00_0000,
    };
    let raw = |v: V| -> u32 {
        match (v, p) {
            (V::I(x, 8), Prec::U8) | (V::I(x, 16), Prec::U16) => x,
            (V::F(b), Prec::F32) => b,
            _ => unreachable!(),
        }
    };
    let [r, g, b, a] = [raw(px[0]), raw(px[1]), raw(px[2]), raw(px[3])];
    match nat {
        Nat::G => [r, r, r, one],
        Nat::A => [0, 0, 0, a],
        Nat::Rg0 => [r, g, 0, one],
        Nat::RgH => [r, g, half, one],
        Nat::Rgb => [r, g, b, one],
        Nat::Rgba => [r, g, b, a],
    }
}

fn float_field_max(k: K) -> Q {
    match k {
        K::H16 => Q::int(65504),
        K::F11 => Q::int(65024),
        _ => Q::int(64512),
    }
}

/// A finite input beyond the finite range of a float field: the clamped input is the largest finite value of the
/// input's side; rounding may also overflow to the infinity of that side. Anything else — in particular the other
/// side — is farther than half a step from the clamped input. Unsigned fields clamp negative input to 0.
fn beyond_range(o: &mut Oracle, k: K, neg: bool, d: FC) {
    let signed = k == K::H16;
    let maxf = float_field_max(k);
    let ok = match (signed, neg) {
        (_, false) => d == FC::PInf || d == FC::Fin(maxf),
        (true, true) => d == FC::NInf || d == FC::Fin(Q::int(0).sub(maxf)),
        (false, true) => d == FC::Fin(Q::int(0)),
    };
    if !ok {
        o.say(format!(
            "beyond-range: a {} finite input beyond the field's range decoded as {}",
            if neg { "negative" } else { "positive" },
            match d {
                FC::Fin(q) => q.show(),
                FC::PInf => "+Inf".into(),
                FC::NInf => "-Inf".into(),
                FC::Nan => "NaN".into(),
                _ => "?".into(),
            }
        ));
    }
}

/// half quantisation step of a float-like field around the ideal value c (>= 0 unless H16)
fn half_ulp(k: K, c: Q) -> Q {
    // (mantissa bits, minimum normal exponent)
    let (mb, emin) = match k {
        H16 => (10, -14),
        F11 => (6, -14),
        F10 => (5, -14),
        _ => unreachable!(),
    };
    let a = c.abs();
    let e = if a.n == 0 { emin } else { floor_log2(a).max(emin) };
    Q::pow2(e - mb - 1)
}

/// bound (in units of one code of the m-bit YUV format) on |decoded RGB - clamped input| for
/// block-constant input. Not documented by the crate; see notes/C12.md (assumption A1).
fn yuv_bound(f: &Fm, c: usize) -> Q {
    // half a code in each of Y,U,V through the inverse matrix gives 1.380 / 1.185 / 1.591 codes for
    // R / G / B; measured maxima on the unchanged code 1.406 / 1.230 / 1.652 (Y416).
    // Y210 keeps the top 10 bits of 16-bit codes (truncation; 65535/64 != 1023): measured 2.45 / 1.88 / 2.82.
    match (f.name, c) {
        ("Y210", 0) => Q::int(3),
        ("Y210", 1) => Q::new(5, 2),
        ("Y210", _) => Q::new(7, 2),
        (_, 0) | (_, 1) => Q::new(3, 2),
        _ => Q::int(2),
    }
}

fn dec_f32_q(bits: u32) -> FC {
    classify_f32(bits)
}

struct Oracle {
    msgs: Vec<String>,
}
impl Oracle {
    fn say(&mut self, s: String) {
        if self.msgs.len() < 6 {
            self.msgs.push(s);
        }
    }
}

fn vshow(v: V) -> String {
    match v {
        V::I(x, n) => format!("{x}/u{n}"),
        V::F(b) => format!("f32:{b:08x}"),
    }
}

/// nearest clause for one stored channel of one pixel; `dec` = decoded binary32 bits
fn check_nearest(o: &mut Oracle, f: &Fm, c: usize, k: K, v: V, dec: u32, at: usize, e9sc: Option<Q>, int_line: bool) {
    let cls = v.class();
    if cls == FC::Nan {
        // NaN has no clamped real value: the property demands nothing (notes/C12.md, observation O1)
        return;
    }
    let d = dec_f32_q(dec);
    let cname = ["R", "G", "B", "A"][c];
    let fail = |o: &mut Oracle, what: String| {
        let tag = match (k, cls) {
            (F11 | F10, FC::Fin(q)) if q.n > 0 && q.lt(Q::pow2(-14)) => "subnormal",
            _ => "nearest",
        };
        o.say(format!("{tag}: {} pixel {at} channel {cname} input {} decoded f32:{dec:08x}: {what}", f.name, vshow(v)));
    };
    // tolerance for arbitrary f32 input: 2^-12 of a step; none for integer input
    let slack = |step: Q| if int_line { Q::int(0) } else { step.mul(tol_steps(k)) };
    // representation error of the decoded binary32 itself (value in [-2,2]): 2^-24
    let rep = Q::pow2(-24);
    match k {
        U(_) | S(_) => {
            let l = Q::int(levels(k));
            let want = clamp01(cls);
            let FC::Fin(dq) = d else {
                return fail(o, format!("expected within 1/(2*{}) of {}", l.n, want.show()));
            };
            let half = Q::new(1, 2 * l.n);
            let bound = half.add(slack(Q::new(1, l.n))).add(rep);
            if !dq.sub(want).abs().le(bound) {
                fail(o, format!("|{} - {}| > half step 1/{}", dq.show(), want.show(), 2 * l.n));
            }
        }
        Xr => {
            // range [-384/510, 639/510]; NaN -> 0
            let want = match cls {
                FC::Nan | FC::Tiny(_) => Q::int(0),
                FC::NInf => Q::new(-384, 510),
                FC::PInf => Q::new(639, 510),
                FC::Huge(neg) => {
                    if neg {
                        Q::new(-384, 510)
                    } else {
                        Q::new(639, 510)
                    }
                }
                FC::Fin(q) => {
                    if q.lt(Q::new(-384, 510)) {
                        Q::new(-384, 510)
                    } else if Q::new(639, 510).lt(q) {
                        Q::new(639, 510)
                    } else {
                        q
                    }
                }
            };
            let FC::Fin(dq) = d else {
                return fail(o, "not finite".into());
            };
            let bound = Q::new(1, 1020).add(slack(Q::new(1, 510))).add(rep);
            if !dq.sub(want).abs().le(bound) {
                fail(o, format!("|{} - {}| > half step 1/1020", dq.show(), want.show()));
            }
        }
        H16 | F11 | F10 => {
            let signed = k == H16;
            match cls {
                FC::Nan => {
                    if d != FC::Nan {
                        fail(o, "NaN input must stay NaN in a float field".into());
                    }
                }
                FC::PInf => {
                    if d != FC::PInf {
                        fail(o, "+Inf must stay +Inf".into());
                    }
                }
                FC::NInf => {
                    let ok = if signed { d == FC::NInf } else { d == FC::Fin(Q::int(0)) };
                    if !ok {
                        fail(o, "-Inf must be -Inf (signed) or 0 (unsigned field)".into());
                    }
                }
                FC::Tiny(_) => {
                    if d != FC::Fin(Q::int(0)) {
                        fail(o, "|x| < 2^-40 must encode to zero".into());
                    }
                }
                FC::Huge(neg) => beyond_range(o, k, neg, d),
                FC::Fin(q) => {
                    let maxf = float_field_max(k);
                    if maxf.lt(q.abs()) {
                        // beyond the finite range: whether it saturates or overflows to infinity is not claimed, the
                        // side is
                        return beyond_range(o, k, q.n < 0, d);
                    }
                    let want = if !signed && q.n < 0 { Q::int(0) } else { q };
                    let FC::Fin(dq) = d else {
                        // rounding up to infinity is legitimate only above max finite; not here
                        return fail(o, "finite in-range input decoded non-finite".into());
                    };
                    // integer input reaches the field through binary32 (double rounding): tie tolerance
                    let hu = half_ulp(k, want);
                    let hu = if int_line { hu.add(hu.mul(Q::pow2(-11))) } else { hu };
                    if !dq.sub(want).abs().le(hu) {
                        fail(o, format!("|{} - {}| > half ulp {}", dq.show(), want.show(), hu.show()));
                    }
                }
            }
        }
        E9 => {
            let want = e9_clamp(cls);
            let FC::Fin(dq) = d else {
                return fail(o, "not finite".into());
            };
            match e9sc {
                None => {
                    if dq.n != 0 {
                        fail(o, "all-zero pixel must decode to 0".into());
                    }
                }
                Some(sc) => {
                    // step = 1/sc
                    let step = Q::new(sc.d, sc.n);
                    let bound = step.mul(Q::new(1, 2)).add(step.mul(Q::pow2(-12)));
                    if !dq.sub(want).abs().le(bound) {
                        fail(o, format!("|{} - {}| > half step {}", dq.show(), want.show(), step.mul(Q::new(1, 2)).show()));
                    }
                }
            }
        }
        F32 | No => {}
    }
}

fn rd(buf: &[u8], i: usize, p: Prec) -> u32 {
    match p {
        Prec::U8 => buf[i] as u32,
        Prec::U16 => u16::from_ne_bytes([buf[2 * i], buf[2 * i + 1]]) as u32,
        Prec::F32 => u32::from_ne_bytes([buf[4 * i], buf[4 * i + 1], buf[4 * i + 2], buf[4 * i + 3]]),
    }
}

fn block_constant(f: &Fm, img: &Img, x: usize, y: usize) -> bool {
    let at = |x: usize, y: usize| img.px[y.min(img.h - 1) * img.w + x.min(img.w - 1)];
    match f.cls {
        Rgbg | SubYuv(_) => {
            let x0 = x & !1;
            x0 + 1 >= img.w || at(x0, y)[..3] == at(x0 + 1, y)[..3]
        }
        Bi(_) => {
            let (x0, y0) = (x & !1, y & !1);
            let a = at(x0, y0);
            a[..3] == at(x0 + 1, y0)[..3] && a[..3] == at(x0, y0 + 1)[..3] && a[..3] == at(x0 + 1, y0 + 1)[..3]
        }
        _ => true,
    }
}

fn run_oracle(o: &mut Oracle, f: &Fm, img: &Img, p: Prec, bytes: &[u8], int_line: bool) {
    let n = img.w * img.h;
    let stored = f.stored();
    // exactness clause
    if f.exact_for(p) {
        match decode_rgba(f, bytes, img.w, img.h, p) {
            Err(e) => o.say(format!("decode failed: {e}")),
            Ok(dec) => {
                for i in 0..n {
                    let want = expect_same(f.nat, img.px[i], p);
                    let got = [rd(&dec, 4 * i, p), rd(&dec, 4 * i + 1, p), rd(&dec, 4 * i + 2, p), rd(&dec, 4 * i + 3, p)];
                    if want != got {
                        o.say(format!(
                            "exact: {} pixel {i} input [{},{},{},{}] expected {:x?} decoded {:x?}",
                            f.name,
                            vshow(img.px[i][0]),
                            vshow(img.px[i][1]),
                            vshow(img.px[i][2]),
                            vshow(img.px[i][3]),
                            want,
                            got
                        ));
                        break;
                    }
                }
            }
        }
        return;
    }
    // nearest clause (decode at F32: identifies every stored code of <= 16 bits)
    let dec = match decode_rgba(f, bytes, img.w, img.h, Prec::F32) {
        Err(e) => {
            o.say(format!("decode failed: {e}"));
            return;
        }
        Ok(d) => d,
    };
    for i in 0..n {
        let px = img.px[i];
        let (x, y) = (i % img.w, i / img.w);
        if f.is_yuv() {
            // wider bound, block-constant input only
            if !block_constant(f, img, x, y) {
                continue;
            }
            let m = match f.cls {
                Yuv(m) | SubYuv(m) | Bi(m) => m,
                _ => unreachable!(),
            };
            let cl = [px[0].class(), px[1].class(), px[2].class()];
            if cl.contains(&FC::Nan) {
                continue;
            }
            // the matrix is only meaningful for input in [0,1]; outside it the property's
            // "clamped input" is still the reference
            for c in 0..3 {
                let want = clamp01(cl[c]);
                let d = dec_f32_q(rd(&dec, 4 * i + c, Prec::F32));
                let bound = yuv_bound(f, c).mul(Q::new(1, (1i128 << m) - 1)).add(Q::pow2(-24));
                let ok = match d {
                    FC::Fin(dq) => dq.sub(want).abs().le(bound),
                    _ => false,
                };
                if std::env::var("C12_STAT").is_ok() {
                    if let (FC::Fin(dq), true) = (d, cl.iter().all(|c| matches!(c, FC::Fin(q) if q.n >= 0 && q.le(Q::int(1))))) {
                        let e = dq.sub(want).abs().mul(Q::int((1i128 << m) - 1));
                        eprintln!("STAT {} {} {}", f.name, c, (e.n * 1000 / e.d) as f64 / 1000.0);
                    }
                }
                if !ok {
                    let inr = cl.iter().all(|c| matches!(c, FC::Fin(q) if q.n >= 0 && q.le(Q::int(1))));
                    o.say(format!(
                        "{}: {} pixel {i} channel {} input [{},{},{}] decoded f32:{:08x}: more than {} codes from {}",
                        if inr { "yuv-bound" } else { "yuv-range" },
                        f.name,
                        ["R", "G", "B"][c],
                        vshow(px[0]),
                        vshow(px[1]),
                        vshow(px[2]),
                        rd(&dec, 4 * i + c, Prec::F32),
                        yuv_bound(f, c).show(),
                        want.show()
                    ));
                }
            }
            if f.k[3] != No {
                check_nearest(o, f, 3, f.k[3], px[3], rd(&dec, 4 * i + 3, Prec::F32), i, None, int_line);
            }
            continue;
        }
        if f.cls == Rgbg {
            // G per pixel; R and B are the pair's mean
            check_nearest(o, f, 1, U(8), px[1], rd(&dec, 4 * i + 1, Prec::F32), i, None, int_line);
            let x0 = x & !1;
            let other = if x0 + 1 < img.w { img.px[y * img.w + (x0 + 1 - (x - x0)) .max(x0)] } else { px };
            let other = if x0 + 1 < img.w { img.px[y * img.w + if x == x0 { x0 + 1 } else { x0 }] } else { other };
            for c in [0usize, 2] {
                if let Some(m) = clamp_sum_half(FC::Fin(clamp01(px[c].class())), FC::Fin(clamp01(other[c].class()))) {
                    if let FC::Fin(dq) = dec_f32_q(rd(&dec, 4 * i + c, Prec::F32)) {
                        // the mean of two values has exact ties; either neighbour is within half a step
                        let bound = Q::new(1, 510).add(Q::pow2(-24)).add(if int_line { Q::int(0) } else { Q::new(1, 255).mul(Q::pow2(-12)) });
                        // out-of-range inputs: the code averages before clamping; only claim for in-range pairs
                        let inr = |v: V| matches!(v.class(), FC::Fin(q) if q.n >= 0 && q.le(Q::int(1)));
                        if inr(px[c]) && inr(other[c]) && !dq.sub(m).abs().le(bound) {
                            o.say(format!(
                                "nearest: {} pixel {i} channel {} pair mean {} decoded {}: more than half a step",
                                f.name,
                                ["R", "G", "B"][c],
                                m.show(),
                                dq.show()
                            ));
                        }
                    }
                }
            }
            continue;
        }
        let e9sc = if f.k[0] == E9 {
            let cs = [e9_clamp(px[0].class()), e9_clamp(px[1].class()), e9_clamp(px[2].class())];
            let mut mx = cs[0];
            for c in &cs[1..] {
                if mx.lt(*c) {
                    mx = *c;
                }
            }
            e9_scale(mx, true)
        } else {
            None
        };
        for c in 0..4 {
            if stored[c] {
                check_nearest(o, f, c, f.k[c], px[c], rd(&dec, 4 * i + c, Prec::F32), i, e9sc, int_line);
            }
        }
    }
}

// ------------------------------------------------------------------------------------------
// one case

fn loose_mask(f: &Fm, img: &Img, int_line: bool) -> Vec<bool> {
    // per encoded byte: true = zero before hashing
    let (w, h) = (img.w, img.h);
    let mut mask = vec![false; f.enc_len(w, h)];
    let pl: Vec<bool> = img.px.iter().map(|p| pixel_loose(f, *p, int_line)).collect();
    let at = |x: usize, y: usize| y * w + x.min(w - 1);
    match f.cls {
        Plain | Yuv(_) => {
            for i in 0..w * h {
                if pl[i] {
                    for b in 0..f.unit {
                        mask[i * f.unit + b] = true;
                    }
                }
            }
        }
        Rgbg | SubYuv(_) => {
            let bw = (w + 1) / 2;
            for y in 0..h {
                for bx in 0..bw {
                    let (i0, i1) = (at(2 * bx, y), at(2 * bx + 1, y));
                    let mut l = pl[i0] || pl[i1];
                    if f.cls == Rgbg {
                        l = l || rgbg_pair_loose(img.px[i0], img.px[i1]);
                    }
                    if l {
                        for b in 0..f.unit {
                            mask[(y * bw + bx) * f.unit + b] = true;
                        }
                    }
                }
            }
        }
        R1 => {
            let bw = (w + 7) / 8;
            for y in 0..h {
                for bx in 0..bw {
                    if (0..8).any(|j| pl[at(8 * bx + j, y)]) {
                        mask[y * bw + bx] = true;
                    }
                }
            }
        }
        Bi(_) => {
            let p1 = w * h * f.unit;
            for by in 0..h / 2 {
                for bx in 0..w / 2 {
                    let idx = [at(2 * bx, 2 * by), at(2 * bx + 1, 2 * by), at(2 * bx, 2 * by + 1), at(2 * bx + 1, 2 * by + 1)];
                    if idx.iter().any(|i| pl[*i]) {
                        for i in idx {
                            for b in 0..f.unit {
                                mask[i * f.unit + b] = true;
                            }
                        }
                        for b in 0..2 * f.unit {
                            mask[p1 + (by * (w / 2) + bx) * 2 * f.unit + b] = true;
                        }
                    }
                }
            }
        }
    }
    mask
}

fn run_image(f: &Fm, fam: Fam, img: &Img, precs: &[Prec], p_logical: Prec, int_line: bool) -> (String, Vec<String>) {
    let mut o = Oracle { msgs: vec![] };
    let mut first: Option<Result<Vec<u8>, String>> = None;
    let mut first_desc = String::new();
    for (chs, ch) in carriers(fam) {
        for &p in precs {
            for (pad, off) in [(0usize, 0usize), (5, 0), (0, 1), (12, 3)] {
                for par in [false, true] {
                    // keep the cross product affordable: the unaligned variants only sequentially
                    if off != 0 && par {
                        continue;
                    }
                    let Some(r) = encode_one(f, img, chs, ch, p, pad, off, par) else {
                        continue;
                    };
                    let desc = format!("{chs:?}/{p:?} pad={pad} off={off} par={par}");
                    match &first {
                        None => {
                            first = Some(r);
                            first_desc = desc;
                        }
                        Some(fr) => {
                            if *fr != r {
                                let at = match (fr, &r) {
                                    (Ok(a), Ok(b)) => {
                                        let i = a.iter().zip(b.iter()).position(|(x, y)| x != y);
                                        format!("len {} vs {}, first difference at byte {:?}", a.len(), b.len(), i)
                                    }
                                    (a, b) => format!("{:?} vs {:?}", a.as_ref().map(|v| v.len()), b.as_ref().map(|v| v.len())),
                                };
                                o.say(format!("carrier: {} encoded bytes differ between [{first_desc}] and [{desc}]: {at}", f.name));
                            }
                        }
                    }
                }
            }
        }
    }
    let Some(first) = first else {
        return ("bad-case".into(), vec![]);
    };
    match first {
        Err(e) => (format!("err {e}"), o.msgs),
        Ok(bytes) => {
            if bytes.len() != f.enc_len(img.w, img.h) {
                o.say(format!("length: {} encoded {} bytes, layout says {}", f.name, bytes.len(), f.enc_len(img.w, img.h)));
                return (format!("ok {} -", bytes.len()), o.msgs);
            }
            run_oracle(&mut o, f, img, p_logical, &bytes, int_line);
            // the exactness clause carries no "without dithering" qualifier: where the format can hold the input,
            // the round trip is the identity whatever dithering is requested
            if f.exact_for(p_logical) && precs.contains(&p_logical) {
                if let Some((chs, ch)) = carriers(fam).into_iter().next() {
                    for (dn, d) in [("color", Dithering::Color), ("alpha", Dithering::Alpha), ("both", Dithering::ColorAndAlpha)] {
                        if let Some(Ok(db)) = encode_one_d(f, img, chs, ch, p_logical, 0, 0, dn == "both", d) {
                            let mut o2 = Oracle { msgs: vec![] };
                            if db.len() != bytes.len() {
                                o2.say(format!("length {} vs {}", db.len(), bytes.len()));
                            } else {
                                run_oracle(&mut o2, f, img, p_logical, &db, int_line);
                            }
                            for m in o2.msgs {
                                o.say(format!("dithering={dn}: {m}"));
                            }
                        }
                    }
                }
            }
            let mask = loose_mask(f, img, int_line);
            let mut hb = bytes.clone();
            for (b, m) in hb.iter_mut().zip(mask.iter()) {
                if *m {
                    *b = 0;
                }
            }
            (format!("ok {} {:016x}", bytes.len(), fnv(&hb)), o.msgs)
        }
    }
}

fn logical_px(fam: Fam, v: [V; 4], one: V, zero: V) -> [V; 4] {
    match fam {
        Fam::G => [v[0], v[0], v[0], one],
        Fam::A => [zero, zero, zero, v[3]],
        Fam::Rgb => [v[0], v[1], v[2], one],
        Fam::Rgba => v,
    }
}

pub fn run(line: &str) -> Option<(String, Vec<String>)> {
    let t = toks(line);
    match *t.first()? {
        "q32" => {
            if t.len() != 3 {
                return None;
            }
            let vals: Option<Vec<u32>> = t[2].split(',').map(|h| if h.is_empty() || h.len() > 8 { None } else { u32::from_str_radix(h, 16).ok() }).collect();
            q32_run(t[1], &vals?)
        }
        "carrier" => carrier_run(&t),
        "sup" => {
            let f = find(t.get(1)?)?;
            let s = f.fmt.encoding_support()?;
            let d = s.dithering();
            let sh = s.split_height().map(|x| x.get() as u32).unwrap_or(0);
            let sm = s.size_multiple().map(|(a, b)| (a.get(), b.get())).unwrap_or((1, 1));
            Some((format!("sup dc={} da={} sh={} sm={}x{} local={}", d.color() as u8, d.alpha() as u8, sh, sm.0, sm.1, s.local_dithering() as u8), vec![]))
        }
        "int" => {
            let f = find(t.get(1)?)?;
            let bits = p_u32(t.get(2)?)?;
            if bits != 8 && bits != 16 {
                return None;
            }
            let fam = fam_of(t.get(3)?)?;
            let pat = p_u32(t.get(4)?)?;
            let w = p_usize(t.get(5)?)?;
            let h = p_usize(t.get(6)?)?;
            let start = p_u64(t.get(7)?)?;
            if pat > 3 || w == 0 || h == 0 || w * h > 1 << 20 {
                return None;
            }
            let bi = matches!(f.cls, Bi(_));
            let one = V::I((1 << bits) - 1, bits);
            let zero = V::I(0, bits);
            let mut px = Vec::with_capacity(w * h);
            for y in 0..h {
                for x in 0..w {
                    let k = pix_index(pat, bi, w, x, y, start);
                    let v = [0, 1, 2, 3].map(|c| V::I(int_chan(pat, bits, c, k), bits));
                    px.push(logical_px(fam, v, one, zero));
                }
            }
            let img = Img { w, h, px };
            let (precs, pl): (&[Prec], Prec) = if bits == 8 { (&[Prec::U8, Prec::U16, Prec::F32], Prec::U8) } else { (&[Prec::U16, Prec::F32], Prec::U16) };
            Some(run_image(f, fam, &img, precs, pl, true))
        }
        kind @ ("f32" | "f32s" | "f32x") => {
            let f = find(t.get(1)?)?;
            let fam = fam_of(t.get(2)?)?;
            let w = p_usize(t.get(3)?)?;
            let h = p_usize(t.get(4)?)?;
            let vals: Option<Vec<u32>> = t.get(5)?.split(',').map(|s| u32::from_str_radix(s, 16).ok()).collect();
            let vals = vals?;
            if vals.is_empty() || w == 0 || h == 0 || w * h > 1 << 20 {
                return None;
            }
            // `f32`: every value 0 or in [2^-14, 1]; `f32s`: every value in [0, 1]; `f32x`: anything
            if kind != "f32x" && vals.iter().any(|v| *v > 0x3F80_0000) {
                return None;
            }
            if kind == "f32" && vals.iter().any(|v| *v != 0 && *v < 0x3880_0000) {
                return None;
            }
            let nch = match fam {
                Fam::G | Fam::A => 1,
                Fam::Rgb => 3,
                Fam::Rgba => 4,
            };
            let one = V::F(0x3F80_0000);
            let zero = V::F(0);
            let mut px = Vec::with_capacity(w * h);
            for i in 0..w * h {
                // block-constant on the 2x1 / 2x2 blocked formats (the wider-bound clause is per block)
                let (x, y) = (i % w, i / w);
                let i = match f.cls {
                    Rgbg | SubYuv(_) => y * ((w + 1) / 2) + x / 2,
                    Bi(_) => (y / 2) * (w / 2) + x / 2,
                    _ => i,
                };
                let g = |j: usize| V::F(vals[(i * nch + j) % vals.len()]);
                let v = match fam {
                    Fam::G => [g(0), zero, zero, one],
                    Fam::A => [zero, zero, zero, g(0)],
                    Fam::Rgb => [g(0), g(1), g(2), one],
                    Fam::Rgba => [g(0), g(1), g(2), g(3)],
                };
                px.push(logical_px(fam, v, one, zero));
            }
            let img = Img { w, h, px };
            Some(run_image(f, fam, &img, &[Prec::F32], Prec::F32, false))
        }
        _ => None,
    }
}

// ------------------------------------------------------------------------------------------
// `q32 <quantiser> <hex,…>`: the binary32 quantisers `nK::from_f32`, `s8::from_uf32` one value at a time
// (tie of the bit-level models `QuantBits.*` / `QuantF32.*`; no tolerance in the tie, the model is bit-exact)

/// (name, format, rgba carrier, field kind, shift, mask)
const Q32: [(&str, Format, bool, K, u32, u32); 8] = [
    ("n2", Format::R10G10B10A2_UNORM, true, U(2), 30, 3),
    ("n4", Format::B4G4R4A4_UNORM, true, U(4), 0, 15),
    ("n5", Format::B5G6R5_UNORM, true, U(5), 0, 31),
    ("n6", Format::B5G6R5_UNORM, true, U(6), 5, 63),
    ("n8", Format::R8_UNORM, false, U(8), 0, 255),
    ("n10", Format::R10G10B10A2_UNORM, true, U(10), 0, 1023),
    ("n16", Format::R16_UNORM, false, U(16), 0, 65535),
    ("s8", Format::R8_SNORM, false, S(8), 0, 255),
];

fn q32_run(name: &str, vals: &[u32]) -> Option<(String, Vec<String>)> {
    let &(_, fmt, rgba, kind, shift, mask) = Q32.iter().find(|q| q.0 == name)?;
    if vals.is_empty() || vals.len() > 4096 {
        return None;
    }
    let mut data: Vec<u8> = vec![];
    for v in vals {
        for _ in 0..(if rgba { 4 } else { 1 }) {
            data.extend_from_slice(&f32::from_bits(*v).to_ne_bytes());
        }
    }
    let color = ColorFormat::new(if rgba { Channels::Rgba } else { Channels::Grayscale }, Precision::F32);
    let view = ImageView::new(&data, Size::new(vals.len() as u32, 1), color)?;
    let mut out = Vec::new();
    let mut opt = EncodeOptions::default();
    opt.parallel = false;
    if let Err(e) = encode(&mut out, view, fmt, None, &opt) {
        return Some((format!("err {}", err_name(&e)), vec![]));
    }
    let unit = out.len() / vals.len();
    let mut codes = vec![];
    let mut o = Oracle { msgs: vec![] };
    for (i, v) in vals.iter().enumerate() {
        let mut word: u32 = 0;
        for j in 0..unit {
            word |= (out[i * unit + j] as u32) << (8 * j);
        }
        let code = (word >> shift) & mask;
        codes.push(code.to_string());
        // the property's own clause: the stored code decodes to within half a step of the clamped input
        // (tie tolerance of binary32-evaluated fields as in `pixel_loose`); nothing is demanded for NaN
        let c = classify_f32(*v);
        if c == FC::Nan {
            continue;
        }
        let l = levels(kind);
        let stored = match kind {
            S(_) => ((code as u8).wrapping_add(128)).saturating_sub(1) as i128, // `s8::norm`
            _ => code as i128,
        };
        let ideal = clamp01(c).mul(Q::int(l));
        let bound = Q::new(1, 2).add(tol_steps(kind));
        if !Q::int(stored).sub(ideal).abs().le(bound) {
            o.say(format!("nearest: {name}::from_f32 input f32:{v:08x} stored {stored} ideal {} of {l}", ideal.show()));
        }
    }
    Some((format!("q {}", codes.join(",")), o.msgs))
}

// ------------------------------------------------------------------------------------------
// `carrier <fmt> <u8|u16|f32> <g|a|rgb|rgba> <hex,…>`: ONE row of up to 64 pixels in ONE colour format through
// `dds::encode`; result = the encoded bytes.  Tie of the bit-level conversion chain of `EncCarrier.lean`
// (`pick_encoder` path, `convert_channels`, `as_rgba_f32`, the closures) — no tolerance, no masking.  The
// property's own predicate about carriers is the `carrier:` oracle of the `int` / `f32` lines.

/// the formats whose whole chain is bit-level in the model (`EncCarrier.bitLevelNames`)
const BITLEVEL: [&str; 30] = [
    "R8G8B8_UNORM", "B8G8R8_UNORM", "R8G8B8A8_UNORM", "R8G8B8A8_SNORM", "B8G8R8A8_UNORM", "B8G8R8X8_UNORM", "B5G6R5_UNORM",
    "B5G5R5A1_UNORM", "B4G4R4A4_UNORM", "A4B4G4R4_UNORM", "R8_SNORM", "R8_UNORM", "R8G8_UNORM", "R8G8_SNORM", "A8_UNORM",
    "R16_UNORM", "R16_SNORM", "R16G16_UNORM", "R16G16_SNORM", "R16G16B16A16_UNORM", "R16G16B16A16_SNORM", "R10G10B10A2_UNORM",
    "R9G9B9E5_SHAREDEXP", "R32_FLOAT", "R32G32_FLOAT", "R32G32B32_FLOAT", "R32G32B32A32_FLOAT", "R1_UNORM", "R8G8_B8G8_UNORM",
    "G8R8_G8B8_UNORM",
];

fn carrier_run(t: &[&str]) -> Option<(String, Vec<String>)> {
    if t.len() != 5 {
        return None;
    }
    let f = find(t[1])?;
    if !BITLEVEL.contains(&f.name) {
        return None;
    }
    let (p, bound): (Prec, u64) = match t[2] {
        "u8" => (Prec::U8, 1 << 8),
        "u16" => (Prec::U16, 1 << 16),
        "f32" => (Prec::F32, 1 << 32),
        _ => return None,
    };
    let (chs, nch) = match t[3] {
        "g" => (Channels::Grayscale, 1),
        "a" => (Channels::Alpha, 1),
        "rgb" => (Channels::Rgb, 3),
        "rgba" => (Channels::Rgba, 4),
        _ => return None,
    };
    let vals: Option<Vec<u32>> = t[4]
        .split(',')
        .map(|h| if h.is_empty() || h.len() > 8 || !h.bytes().all(|c| c.is_ascii_hexdigit()) { None } else { u32::from_str_radix(h, 16).ok() })
        .collect();
    let vals = vals?;
    if vals.iter().any(|v| *v as u64 >= bound) || vals.len() % nch != 0 {
        return None;
    }
    let n = vals.len() / nch;
    if n == 0 || n > 64 {
        return None;
    }
    let mut data: Vec<u8> = vec![];
    for v in &vals {
        match p {
            Prec::U8 => data.push(*v as u8),
            Prec::U16 => data.extend_from_slice(&(*v as u16).to_ne_bytes()),
            Prec::F32 => data.extend_from_slice(&v.to_ne_bytes()),
        }
    }
    let view = ImageView::new(&data, Size::new(n as u32, 1), ColorFormat::new(chs, precision(p)))?;
    let mut out = Vec::new();
    if let Err(e) = encode(&mut out, view, f.fmt, None, &EncodeOptions::default()) {
        return Some((format!("err {}", err_name(&e)), vec![]));
    }
    let hex: String = out.iter().map(|b| format!("{b:02x}")).collect();
    Some((format!("c {hex}"), vec![]))
}

fn gen_carrier(out: &mut Vec<String>, rng: &mut Rng, thorough: bool) {
    let reps = if thorough { 8 } else { 2 };
    let b8: [u32; 10] = [0, 1, 2, 63, 127, 128, 129, 253, 254, 255];
    let b16: [u32; 14] = [0, 1, 128, 255, 256, 257, 32767, 32768, 32769, 65279, 65280, 65534, 65535, 514];
    let mut f32s: Vec<u32> = vec![];
    f32s.extend_from_slice(&SPEC_IN);
    f32s.extend_from_slice(&SPEC_SMALL);
    f32s.extend_from_slice(&SPEC_OUT);
    f32s.extend_from_slice(&NONFINITE);
    for name in BITLEVEL {
        for (ps, pi) in [("u8", 0), ("u16", 1), ("f32", 2)] {
            for (cs, nch) in [("g", 1usize), ("a", 1), ("rgb", 3), ("rgba", 4)] {
                for r in 0..reps {
                    // odd pixel counts exercise the padded last block of the 2x1 / 8x1 formats
                    let n = [16usize, 13, 7, 1, 9, 64, 2, 3][r % 8];
                    let mut vals: Vec<u32> = vec![];
                    for i in 0..n * nch {
                        let v = match pi {
                            0 => if rng.chance(1, 2) { *rng.pick(&b8) } else { rng.below(256) as u32 },
                            1 => match rng.below(3) {
                                0 => *rng.pick(&b16),
                                1 => rng.below(256) as u32 * 257,
                                _ => rng.below(65536) as u32,
                            },
                            _ => match (r + i) % 6 {
                                0 | 1 => *rng.pick(&f32s),
                                2 => nearest_f32(rng.below(256) as u128, 255),
                                3 => nearest_f32(rng.below(65536) as u128, 65535),
                                // around the ties of 8 / 5 / 16-bit fields
                                4 => {
                                    let l = *rng.pick(&[255u128, 254, 31, 63, 15, 3, 1023, 65535, 65534]);
                                    let k = 1 + rng.below(l as u64) as u128;
                                    nearest_f32(2 * k - 1, 2 * l).wrapping_add(rng.below(5) as u32).wrapping_sub(2)
                                }
                                _ => rng.next() as u32,
                            },
                        };
                        vals.push(v);
                    }
                    out.push(format!("carrier {name} {ps} {cs} {}", hexlist(&vals)));
                }
            }
        }
    }
}

fn gen_q32(out: &mut Vec<String>, rng: &mut Rng, thorough: bool) {
    for &(name, _, _, kind, _, _) in Q32.iter() {
        let l = levels(kind) as u128;
        let mut vals: Vec<u32> = vec![];
        // every tie (2k-1)/(2L): the nearest float and its two neighbours on each side (the first pattern of the
        // code k, its predecessor and its successor are among them); for 16 bits a sample in the quick tier
        for k in 1..=l {
            let all = l <= 1023 || thorough || k <= 300 || k + 300 > l || (k + 300 > 32768 && k < 32768 + 300) || k % 61 == 0;
            if !all {
                continue;
            }
            let m = nearest_f32(2 * k - 1, 2 * l);
            for d in 0..5u32 {
                vals.push(m.wrapping_add(d).wrapping_sub(2));
            }
        }
        // grid points and random values
        for k in 0..=l.min(1023) {
            vals.push(nearest_f32(k * (l / l.min(1023)), l));
        }
        for _ in 0..(if thorough { 20000 } else { 2000 }) {
            vals.push(match rng.below(4) {
                0 => rng.below(1 << 32) as u32,
                1 => 0x3F80_0000 - rng.below(1 << 24) as u32,
                2 => nearest_f32(rng.below(1 << 24) as u128, 1 << 24),
                _ => 0x3000_0000 + rng.below(0x1000_0000) as u32,
            });
        }
        // classes: zeros, subnormals, negatives, > 1, huge, infinities, NaNs (quiet / signalling, both signs)
        vals.extend(SPEC_IN);
        vals.extend(SPEC_SMALL);
        vals.extend(SPEC_OUT);
        vals.extend(NONFINITE);
        vals.extend([0x7F80_0001, 0x7FFF_FFFF, 0xFF80_0001, 0xFFFF_FFFF, 0x7FA0_0000, 0x0000_0000, 0x8000_0000, 0x0040_0000,
            0x8040_0000, 0x3F80_0001, 0x3F7F_FFFF, 0x4380_0000, 0x4780_0000, 0x4F00_0000, 0xCF00_0000, 0x7F7F_FFFF]);
        for chunk in vals.chunks(64) {
            out.push(format!("q32 {name} {}", hexlist(chunk)));
        }
    }
}

// ------------------------------------------------------------------------------------------
// generator

fn f32_kind(v: &[u32]) -> &'static str {
    if v.iter().any(|x| *x > 0x3F80_0000) {
        "f32x"
    } else if v.iter().any(|x| *x != 0 && *x < 0x3880_0000) {
        "f32s"
    } else {
        "f32"
    }
}
fn hexlist(v: &[u32]) -> String {
    v.iter().map(|x| format!("{x:08x}")).collect::<Vec<_>>().join(",")
}

/// interesting binary32 inputs for a field with `l` levels (grid points, midpoints +-1 ulp, ...)
fn f32_grid(l: u32, rng: &mut Rng, n: usize) -> Vec<u32> {
    let mut v = vec![];
    for _ in 0..n {
        let k = rng.below(l as u64 + 1) as u128;
        match rng.below(4) {
            0 => v.push(nearest_f32(k, l as u128)),
            1 => {
                // midpoint (2k+1)/(2l), +-1 ulp  (near-tie probes: oracle only)
                if k < l as u128 {
                    let m = nearest_f32(2 * k + 1, 2 * l as u128);
                    v.push(m.wrapping_add(rng.below(3) as u32).wrapping_sub(1));
                }
            }
            2 => v.push(nearest_f32(k, l as u128).wrapping_add(rng.below(5) as u32).wrapping_sub(2).min(0x3F80_0000)),
            _ => v.push(nearest_f32(rng.below(1 << 24) as u128, 1 << 24)),
        }
    }
    v
}

/// in [0,1], zero or at least 2^-14
pub const SPEC_IN: [u32; 12] = [
    0x0000_0000, 0x3F80_0000, 0x3F7F_FFFF, 0x3F00_0000, 0x3EFF_FFFF, 0x3F00_0001, 0x3DCC_CCCD, 0x3880_0000, 0x3880_0001,
    0x3B80_8081, 0x3C00_0000, 0x3E80_0000,
];
/// positive, below 2^-14 (binary32 subnormals, binary16 / 11-bit / 10-bit float subnormal range)
pub const SPEC_SMALL: [u32; 14] = [
    0x0000_0001, 0x007F_FFFF, 0x0080_0000, 0x3380_0000, 0x3300_0000, 0x3300_0001, 0x387F_C000, 0x3580_0000, 0x35F3_3333,
    0x3639_999A, 0x3400_0001, 0x37FF_E000, 0x3600_0000, 0x3640_0000,
];
/// outside [0,1], -0, huge
pub const SPEC_OUT: [u32; 14] = [
    0x8000_0000, 0x8000_0001, 0x3F80_0001, 0x4000_0000, 0x4120_0000, 0xBF80_0000, 0xBDCC_CCCD, 0x7F7F_FFFF, 0xFF7F_FFFF,
    0x477F_E000, 0x42C8_0000, 0x3FA0_0000, 0xBE80_0000, 0x3F00_0000,
];
pub const NONFINITE: [u32; 4] = [0x7F80_0000, 0xFF80_0000, 0x7FC0_0000, 0xFFC0_0001];

fn geoms(f: &Fm, thorough: bool) -> Vec<(usize, usize)> {
    // widths across the 512-pixel and 4096-byte chunk boundaries; several rows so that rows of a
    // padded view straddle chunk boundaries
    let bi = matches!(f.cls, Bi(_));
    let mut g: Vec<(usize, usize)> = if bi {
        vec![(510, 2), (512, 2), (514, 2), (1022, 2), (1026, 2), (4098, 2), (6, 6), (342, 4)]
    } else {
        vec![(511, 1), (512, 1), (513, 1), (1023, 1), (1025, 1), (4097, 1), (5, 3), (341, 3), (171, 7)]
    };
    if thorough {
        if bi {
            g.extend([(2, 2), (2, 514), (2050, 2), (686, 6)]);
        } else {
            g.extend([(1, 1), (1, 513), (7, 75), (2047, 1), (2049, 2), (8193, 1), (683, 3)]);
        }
    }
    g
}

pub fn gen(seed: u64, thorough: bool) -> Vec<String> {
    let mut rng = Rng::new(seed);
    let mut out = vec![];
    for f in FORMATS.iter() {
        out.push(format!("sup {}", f.name));
    }
    gen_q32(&mut out, &mut rng, thorough);
    // own generator state: the lines that follow do not move when the `carrier` lines change
    gen_carrier(&mut out, &mut Rng::new(seed ^ 0x6361_7272_6965_72), thorough);
    let fams = [Fam::G, Fam::A, Fam::Rgb, Fam::Rgba];
    let head = std::mem::take(&mut out);
    let mut per_format: Vec<Vec<String>> = vec![];
    for f in FORMATS.iter() {
        let mut out: Vec<String> = vec![];
        let blocky = f.cls != Plain && !matches!(f.cls, Yuv(_));
        // ---- 8-bit: every channel value, every colour format, every geometry
        for (gi, &(w, h)) in geoms(f, thorough).iter().enumerate() {
            for fam in fams {
                let pats: &[u32] = if blocky { &[0, 1, 3] } else { &[0] };
                for &pat in pats {
                    // start so that consecutive geometries continue the ramp; every geometry >= 256 px
                    // covers all values on its own except the tiny ones
                    let start = (gi * 37) as u64;
                    out.push(format!("int {} 8 {} {} {} {} {}", f.name, fam_name(fam), pat, w, h, start));
                }
            }
        }
        // ---- 8-bit pairs (channel interaction: shared exponent, YUV matrix): 65536 pixels
        if f.k[0] == E9 || f.is_yuv() {
            let (w, h) = if matches!(f.cls, Bi(_)) { (512, 2) } else { (1024, 1) };
            // shared exponent: all 65536 (r,g) pairs also in the quick tier (the borderline mantissas sit at single
            // pairs such as (255,127))
            let step = if thorough || f.k[0] == E9 { 1 } else { 4 };
            for s in (0..64).step_by(step) {
                out.push(format!("int {} 8 rgb 2 {} {} {}", f.name, w, h, s * 1024));
                if blocky {
                    out.push(format!("int {} 8 rgb 1 {} {} {}", f.name, w, h, s * 1024 + 7));
                }
            }
        }
        // ---- 16-bit: every channel value once (quick: one geometry, 513-pixel rows)
        let (w, h) = if matches!(f.cls, Bi(_)) { (514, 2) } else { (513, 2) };
        let per = (w * h) as u64;
        let lines = (65536 + per - 1) / per;
        for i in 0..lines {
            out.push(format!("int {} 16 rgba 0 {} {} {}", f.name, w, h, i * per));
            if blocky {
                // block-constant ramps: the wider-bound clause is checked on these
                out.push(format!("int {} 16 rgb 1 {} {} {}", f.name, w, h, 2 * i * per));
            }
            if thorough || i % 16 == 3 {
                for fam in [Fam::G, Fam::A, Fam::Rgb] {
                    out.push(format!("int {} 16 {} {} {} {} {}", f.name, fam_name(fam), if blocky { 3 } else { 0 }, w, h, i * per + 11));
                }
            }
        }
        if thorough {
            for &(w, h) in geoms(f, false).iter().take(6) {
                let per = (w * h) as u64;
                for i in 0..(65536 + per - 1) / per {
                    for fam in [Fam::A, Fam::Rgb] {
                        out.push(format!("int {} 16 {} {} {} {} {}", f.name, fam_name(fam), if blocky { 3 } else { 0 }, w, h, i * per));
                    }
                }
            }
        }
        // ---- f32
        let lv: Vec<u32> = {
            let mut v: Vec<u32> = f.k.iter().filter_map(|k| match k { U(b) => Some((1u32 << b) - 1), S(b) => Some((1u32 << b) - 2), Xr => Some(510), _ => None }).collect();
            if f.is_yuv() {
                v.push((1u32 << f.yuv_bits()) - 1);
            }
            if v.is_empty() {
                v.push(255);
                v.push(65535);
            }
            v.sort();
            v.dedup();
            v
        };
        let (w, h) = if matches!(f.cls, Bi(_)) { (514, 2) } else { (513, 1) };
        let reps = if thorough { 24 } else { 3 };
        for fam in fams {
            // finite specials: in range, subnormal range, out of range / -0 / huge
            out.push(format!("f32 {} {} {} {} {}", f.name, fam_name(fam), w, h, hexlist(&SPEC_IN)));
            out.push(format!("f32s {} {} {} {} {}", f.name, fam_name(fam), w, h, hexlist(&SPEC_SMALL)));
            out.push(format!("f32x {} {} {} {} {}", f.name, fam_name(fam), w, h, hexlist(&SPEC_OUT)));
            for r in 0..reps {
                let l = lv[r % lv.len()];
                let vals = f32_grid(l, &mut rng, 61);
                out.push(format!("{} {} {} {} {} {}", f32_kind(&vals), f.name, fam_name(fam), w, h, hexlist(&vals)));
            }
            // non-finite input, alone on small lines
            for nf in NONFINITE {
                out.push(format!("f32x {} {} {} {} {}", f.name, fam_name(fam), if matches!(f.cls, Bi(_)) { 2 } else { 3 }, if matches!(f.cls, Bi(_)) { 2 } else { 1 }, hexlist(&[nf, 0x3F00_0000, nf, 0x3E80_0000, 0x3F40_0000])));
            }
        }
        // one odd size for the bi-planar formats (InvalidSize)
        if matches!(f.cls, Bi(_)) {
            out.push(format!("int {} 8 rgb 0 3 2 0", f.name));
            out.push(format!("int {} 8 rgb 0 2 3 0", f.name));
        }
        per_format.push(out);
    }
    // round-robin over the formats so that contiguous chunks of the stream cost about the same
    let mut out = head;
    let longest = per_format.iter().map(|v| v.len()).max().unwrap_or(0);
    for i in 0..longest {
        for v in per_format.iter() {
            if let Some(l) = v.get(i) {
                out.push(l.clone());
            }
        }
    }
    out
}
