//! `ddsv`: implementation side of the correspondence checks.
//!
//! `ddsv gen <prop> <seed> <tier>`  prints one case per line
//! `ddsv impl <prop>`               reads cases on stdin; for every case prints
//!                                  `R <n> <canonical result>` and, when the property's own
//!                                  predicate fails on the implementation, `O <n> <what>`.
#![allow(clippy::all)]
#![allow(dead_code)]

mod c02;
mod c08;
mod c20;
mod common;

use std::io::{BufRead, Write};

fn main() {
    // panics are results, not noise
    std::panic::set_hook(Box::new(|_| {}));

    let args: Vec<String> = std::env::args().collect();
    if args.len() < 3 {
        eprintln!("usage: ddsv gen <prop> <seed> <tier> | ddsv impl <prop>");
        std::process::exit(2);
    }
    let cmd = args[1].as_str();
    let prop = args[2].clone();
    let prop = prop.as_str();
    let stdout = std::io::stdout();
    let mut out = std::io::BufWriter::new(stdout.lock());
    match cmd {
        "gen" => {
            let seed: u64 = args.get(3).and_then(|s| s.parse().ok()).unwrap_or(1);
            let thorough = args.get(4).map(|s| s == "thorough").unwrap_or(false);
            let cases = match prop {
                "C02" => c02::gen(seed, thorough),
                "C08" => c08::gen(seed, thorough),
                "C20" => c20::gen(seed, thorough),
                _ => {
                    eprintln!("unknown property {prop}");
                    std::process::exit(2);
                }
            };
            for c in cases {
                writeln!(out, "{c}").unwrap();
            }
        }
        "impl" => {
            let stdin = std::io::stdin();
            for (n, line) in stdin.lock().lines().enumerate() {
                let line = line.unwrap();
                let line = line.trim();
                if line.is_empty() {
                    continue;
                }
                let l = line.to_string();
                let pr = args[2].clone();
                let r = std::panic::catch_unwind(move || match prop_run(&pr, &l) {
                    Some(r) => r,
                    None => ("bad-case".to_string(), vec![]),
                });
                match r {
                    Ok((res, oracle)) => {
                        writeln!(out, "R {n} {res}").unwrap();
                        for o in oracle {
                            writeln!(out, "O {n} {o}").unwrap();
                        }
                    }
                    Err(e) => {
                        let msg = common::panic_msg(&e);
                        writeln!(out, "R {n} panic").unwrap();
                        writeln!(out, "O {n} panic: {msg}").unwrap();
                    }
                }
            }
        }
        _ => {
            eprintln!("unknown command {cmd}");
            std::process::exit(2);
        }
    }
    out.flush().unwrap();
    let _ = prop;
}

fn prop_run(prop: &str, line: &str) -> Option<(String, Vec<String>)> {
    match prop {
        "C02" => c02::run(line),
        "C08" => c08::run(line),
        "C20" => c20::run(line),
        _ => None,
    }
}
