//! `ddsv`: implementation side of the correspondence checks.
//!
//! `ddsv gen <prop> <seed> <tier>`  prints one case per line
//! `ddsv impl <prop>`               reads cases on stdin; for every case prints
//!                                  `R <n> <canonical result>` and, when the property's own
//!                                  predicate fails on the implementation, `O <n> <what>`.
#![allow(clippy::all)]
#![allow(dead_code)]

mod alloc_count;
mod c01;
mod c02;
mod c03;
mod c03x;
mod c04;
mod c05;
mod c06;
mod c07;
mod c08;
mod c09;
mod c10;
mod c11;
mod c12;
mod c13;
mod c14;
mod c15;
mod c16;
mod c17;
mod c18;
mod c19;
mod c20;
mod common;

use std::io::{BufRead, Write};

// counting allocator for C07 (inactive outside `alloc_count::measure`)
#[global_allocator]
static GLOBAL: alloc_count::Counting = alloc_count::Counting;

fn main() {
    // panics are results, not noise
    if std::env::var("DDSV_SHOW_PANIC").is_err() {
        std::panic::set_hook(Box::new(|_| {}));
    }

    let args: Vec<String> = std::env::args().collect();
    if args.len() < 3 {
        eprintln!("usage: ddsv gen <prop> <seed> <tier> | ddsv impl <prop>");
        std::process::exit(2);
    }
    let cmd = args[1].as_str();
    let prop = args[2].clone();
    let prop = prop.as_str();
    let stdout = std::io::stdout();
    let mut out = std::io::BufWriter::new(stdout.lock());
    match cmd {
        "gen" => {
            let seed: u64 = args.get(3).and_then(|s| s.parse().ok()).unwrap_or(1);
            let thorough = args.get(4).map(|s| s == "thorough").unwrap_or(false);
            let cases = match prop {
                "C01" => c01::gen(seed, thorough),
                "C02" => c02::gen(seed, thorough),
                "C03" => c03::gen(seed, thorough),
                "C03x" => c03x::gen(seed, thorough),
                "C04" => c04::gen(seed, thorough),
                "C05" => c05::gen(seed, thorough),
                "C06" => c06::gen(seed, thorough),
                "C07" => c07::gen(seed, thorough),
                "C08" => c08::gen(seed, thorough),
                "C09" => c09::gen(seed, thorough),
                "C10" => c10::gen(seed, thorough),
                "C11" => c11::gen(seed, thorough),
                "C12" => c12::gen(seed, thorough),
                "C13" => c13::gen(seed, thorough),
                "C14" => c14::gen(seed, thorough),
                "C15" => c15::gen(seed, thorough),
                "C16" => c16::gen(seed, thorough),
                "C17" => c17::gen(seed, thorough),
                "C18" => c18::gen(seed, thorough),
                "C19" => c19::gen(seed, thorough),
                "C20" => c20::gen(seed, thorough),
                _ => {
                    eprintln!("unknown property {prop}");
                    std::process::exit(2);
                }
            };
            for c in cases {
                writeln!(out, "{c}").unwrap();
            }
        }
        "impl" => {
            // Every case runs on a worker thread and the main thread waits with a time-out: a call of the library that
            // does not return (a retry loop that never ends, a deadlock) is reported as result `hang` with an oracle
            // line instead of stalling the whole check. A stuck thread cannot be killed; it is abandoned, a new
            // process ends after reporting it (check.py starts a fresh process for the cases behind it).
            let watchdog = std::time::Duration::from_millis(
                std::env::var("DDSV_WATCHDOG_MS").ok().and_then(|s| s.parse().ok()).unwrap_or(60_000u64),
            );
            type Res = std::thread::Result<(String, Vec<String>)>;
            let spawn = |prop: String| {
                let (tx, wrx) = std::sync::mpsc::channel::<String>();
                let (wtx, rx) = std::sync::mpsc::channel::<Res>();
                std::thread::Builder::new()
                    .name("case-worker".into())
                    .stack_size(64 << 20)
                    .spawn(move || {
                        for l in wrx {
                            let pr = prop.clone();
                            let r = std::panic::catch_unwind(move || match prop_run(&pr, &l) {
                                Some(r) => r,
                                None => ("bad-case".to_string(), vec![]),
                            });
                            if wtx.send(r).is_err() {
                                break;
                            }
                        }
                    })
                    .expect("spawn case worker");
                (tx, rx)
            };
            let mut worker = spawn(args[2].clone());
            let mut hangs = 0u32;
            let stdin = std::io::stdin();
            for (n, line) in stdin.lock().lines().enumerate() {
                let line = line.unwrap();
                let line = line.trim();
                if line.is_empty() {
                    continue;
                }
                let r: Res = if worker.0.send(line.to_string()).is_err() {
                    worker = spawn(args[2].clone());
                    Ok(("worker-died".to_string(), vec!["abort: the worker thread died".to_string()]))
                } else {
                    // giant cases (`G ...`: multi-GiB views, ~10 s on an idle machine) get a quarter of an hour: under
                    // load they were reported as hangs (a false alarm seen when four mutation runs shared the machine)
                    let limit = if line.starts_with("G ") { watchdog.max(std::time::Duration::from_secs(900)) } else { watchdog };
                    match worker.1.recv_timeout(limit) {
                        Ok(r) => r,
                        Err(std::sync::mpsc::RecvTimeoutError::Timeout) => {
                            hangs += 1;
                            writeln!(out, "R {n} hang").unwrap();
                            writeln!(out, "O {n} hang: the call did not return within {} ms", watchdog.as_millis()).unwrap();
                            out.flush().unwrap();
                            // the stuck thread keeps spinning: do not let it eat the machine — end the process, check.py
                            // starts a fresh one for the cases behind this one
                            let _ = hangs;
                            eprintln!("watchdog: hang, ending the process");
                            std::process::exit(86);
                        }
                        Err(std::sync::mpsc::RecvTimeoutError::Disconnected) => {
                            worker = spawn(args[2].clone());
                            Ok(("worker-died".to_string(), vec!["abort: the worker thread died".to_string()]))
                        }
                    }
                };
                match r {
                    Ok((res, oracle)) => {
                        writeln!(out, "R {n} {res}").unwrap();
                        for o in oracle {
                            writeln!(out, "O {n} {o}").unwrap();
                        }
                    }
                    Err(e) => {
                        let msg = common::panic_msg(&e);
                        writeln!(out, "R {n} panic").unwrap();
                        writeln!(out, "O {n} panic: {msg}").unwrap();
                    }
                }
                if prop == "C01" {
                    // C01 counts a dying process as a failure of the first case without a result
                    out.flush().unwrap();
                }
            }
        }
        _ => {
            eprintln!("unknown command {cmd}");
            std::process::exit(2);
        }
    }
    out.flush().unwrap();
    let _ = prop;
}

fn prop_run(prop: &str, line: &str) -> Option<(String, Vec<String>)> {
    match prop {
        "C01" => c01::run(line),
        "C02" => c02::run(line),
        "C03" => c03::run(line),
        "C03x" => c03x::run(line),
        "C04" => c04::run(line),
        "C05" => c05::run(line),
        "C06" => c06::run(line),
        "C07" => c07::run(line),
        "C08" => c08::run(line),
        "C09" => c09::run(line),
        "C10" => c10::run(line),
        "C11" => c11::run(line),
        "C12" => c12::run(line),
        "C13" => c13::run(line),
        "C14" => c14::run(line),
        "C15" => c15::run(line),
        "C16" => c16::run(line),
        "C17" => c17::run(line),
        "C18" => c18::run(line),
        "C19" => c19::run(line),
        "C20" => c20::run(line),
        _ => None,
    }
}
