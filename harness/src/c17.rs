//! C17 — progress only moves forward to 100 % and cancellation is honoured.
//!
//! Case line
//!   run API FORMAT W H COLOR DITH QUALITY MIPS PAR THREADS ORDER REPORTER CANCEL SEED nf=N
//!     nf=N      number of fragments `SplitView::new` cuts the level-0 surface into (checked against
//!               the implementation and against the model; identifies the code path in the case line)
//!     API       E = `Encoder::write_surface_with_progress`, F = free function `dds::encode`
//!     MIPS      0/1: declare a full mip chain and let the encoder generate it (E only)
//!     PAR       0/1: `EncodeOptions.parallel`
//!     THREADS   size of the rayon pool the call runs in
//!     ORDER     nat/rev/rnd/free: fragment completion order imposed through the `dds_verif` hook
//!     REPORTER  mt = `Progress::new` (Send closure), st = `Progress::new_single_threaded`
//!     CANCEL    -  : never
//!               pre: token cancelled before the call; afterwards reset and retry (a fresh `Progress` value per call)
//!               pres: as `pre`, but ONE `Progress` value is lent to both calls (a `Progress` is only borrowed
//!                      by a call: cancel -> call -> `token.reset()` -> retry through the same object)
//!               kN : the reporter closure cancels the token when it receives report number N (0-based)
//!               sweep: first an uncancelled run, then one run per report index k (all k, at most 96
//!                      evenly spread) cancelling at k
//!               ioA/B: no cancellation, FAILING WRITER: an unfailed run tells the number T of bytes the call writes,
//!                      then the call is repeated with a writer that accepts exactly (T-1)*A/B bytes and returns an
//!                      I/O error from then on (A = 0: the first byte fails, A = B: the last byte fails)
//!               iosweep: the unfailed run, then one failing run per A/8, A = 0..8
//!
//! Result line (canonical, compared with the Lean model with 1e-6 slack on progress values):
//!   -     : `<res> n=<reports> late=<bytes written after the first 1.0 report> seq=<f32 bits,...>`
//!           when the sequence is schedule independent
//!           `<res> n=<reports> last=<v> dif=<sorted successive differences of 0,r0,r1,.. as f32 bits>`
//!           otherwise (the multiset of increments does not depend on the completion order: the
//!           multi-fragment levels are a prefix of the levels and each ends with its range's end)
//!   pre   : `<res> n=<reports> written=<bytes> retry=<res> n2=<reports>`
//!   kN    : `<res> n=<reports>` (sequential) / `<res>` (parallel: later reports are schedule dependent)
//!   sweep : `sweep n=<reports> cancelled=<runs that returned Cancelled> ok=<runs that returned Ok>`
//!   pres  : as pre
//!   ioA/B : `<res>` and, when the first or the last byte fails (the reports made before the first / the last write
//!           do not depend on how the output is cut into `write` calls), ` n=<reports>`
//!   iosweep: `iosweep <res of the unfailed run> n=<its reports> io=all|<fail points whose run was not err:Io>
//!           nfirst=<reports of the run failing at the first byte> nlast=<… at the last byte>`
//!
//! Oracle (on the recorded values of the implementation alone): every value within [0,1]; never
//! decreasing by more than 1e-6; in a run in which cancellation is never requested the last value is
//! exactly 1.0 iff the call returned Ok (both APIs; the free function on its sequential /
//! single-fragment path is known finding F8); cancelling at a report below 100 % or before the call
//! gives Err(Cancelled) (a request at a 1.0 report may give either outcome); a pre-cancelled call
//! reports nothing, writes nothing, and succeeds when retried after `reset` — with a fresh `Progress` and with
//! the same one; a call that fails with an I/O error of the writer is a call that does not succeed: its reports
//! are in range, monotone and do NOT end with 1.0.
use crate::c14::*;
use crate::common::*;
use dds::*;
use std::sync::{Arc, Mutex};

pub fn err_name(e: &EncodingError) -> String {
    let s = format!("{e:?}");
    s.split(|c: char| !c.is_alphanumeric()).next().unwrap_or("?").to_string()
}

#[derive(Clone, Copy, PartialEq, Eq, Debug)]
pub enum Cancel {
    Never,
    Pre,
    /// pre-cancel, reset, retry with the same `Progress` value
    PreSame,
    At(usize),
    Sweep,
    /// failing writer: accepts (T-1)*a/b of the T bytes of the call
    Io(u32, u32),
    IoSweep,
}

pub struct Case {
    pub api_encoder: bool,
    pub name: String,
    pub format: Format,
    pub w: u32,
    pub h: u32,
    pub color: ColorFormat,
    pub opts: EncodeOptions,
    pub mips: bool,
    /// declared number of levels when the chain is partial (token `m<N>`, N >= 2); None = full chain
    pub mipn: Option<u32>,
    pub threads: usize,
    pub order: Order,
    pub mt: bool,
    pub cancel: Cancel,
    pub seed: u64,
    /// number of fragments of the level-0 surface (`SplitView::new(..).len()`), part of the case line
    /// so that the code path (sequential / single fragment / multi fragment) is visible in it
    pub nf: u32,
    /// fragment geometry per encoded level as (count, nominal height), taken from the real SplitView by the
    /// generator (`nf=N@n0:f0,n1:f1,…`); None: legacy token, the model computes the split itself
    pub geo: Option<Vec<(u32, u32)>>,
}

pub fn parse(line: &str) -> Option<Option<Case>> {
    let t = toks(line);
    if t.len() != 16 || t[0] != "run" {
        return None;
    }
    let nft = t[15].strip_prefix("nf=")?;
    let (nf, geo): (u32, Option<Vec<(u32, u32)>>) = match nft.split_once('@') {
        None => (nft.parse().ok()?, None),
        Some((a, g)) => {
            let mut v = vec![];
            for part in g.split(',') {
                let (n, f) = part.split_once(':')?;
                v.push((n.parse().ok()?, f.parse().ok()?));
            }
            (a.parse().ok()?, Some(v))
        }
    };
    let api_encoder = match t[1] {
        "E" => true,
        "F" => false,
        _ => return None,
    };
    let format = match parse_format(t[2]) {
        Some(f) => f,
        None => return Some(None),
    };
    let (w, h) = (p_u32(t[3])?, p_u32(t[4])?);
    let color = parse_color(t[5])?;
    let d = parse_dith(t[6])?;
    let q = parse_quality(t[7])?;
    let (mips, mipn) = match t[8] {
        "0" => (false, None),
        "1" => (true, None),
        s if s.starts_with('m') => {
            let n = p_u32(&s[1..])?;
            if n < 2 || n > 32 {
                return None;
            }
            (true, Some(n))
        }
        _ => return None,
    };
    let par = match t[9] {
        "0" => false,
        "1" => true,
        _ => return None,
    };
    let threads = p_usize(t[10])?;
    let order = parse_order(t[11])?;
    let mt = match t[12] {
        "mt" => true,
        "st" => false,
        _ => return None,
    };
    let cancel = match t[13] {
        "-" => Cancel::Never,
        "pre" => Cancel::Pre,
        "pres" => Cancel::PreSame,
        "sweep" => Cancel::Sweep,
        "iosweep" => Cancel::IoSweep,
        s if s.starts_with("io") => {
            let (a, b) = s[2..].split_once('/')?;
            let (a, b) = (p_u32(a)?, p_u32(b)?);
            if b == 0 || a > b || b > 1 << 16 {
                return None;
            }
            Cancel::Io(a, b)
        }
        s if s.starts_with('k') => Cancel::At(p_usize(&s[1..])?),
        _ => return None,
    };
    let seed = p_u64(t[14])?;
    if threads == 0 || threads > 64 || (mips && !api_encoder) || w as u64 * h as u64 > 1 << 24 {
        return None;
    }
    Some(Some(Case {
        api_encoder,
        name: t[2].to_string(),
        format,
        w,
        h,
        color,
        opts: options(d, q, ErrorMetric::Uniform, par),
        mips,
        mipn,
        threads,
        order,
        mt,
        cancel,
        seed,
        nf,
        geo,
    }))
}

pub struct Outcome {
    pub result: Result<(), EncodingError>,
    pub reports: Vec<f32>,
    /// bytes written by the call itself (the DDS header written by `Encoder::new` is not counted)
    pub written: usize,
    pub forced: usize,
    pub timeouts: usize,
    /// bytes written by the call after its first report of 1.0 (0 = 100 % only after the write-out)
    pub late: usize,
}

struct Shared {
    reports: Mutex<Vec<f32>>,
    /// bytes counted when the first 1.0 report arrived
    at100: Mutex<Option<usize>>,
}

/// sizes of the surfaces one call encodes (level 0 and, with generated mipmaps, all further levels)
pub fn level_sizes(c: &Case) -> Vec<Size> {
    let mut v = vec![Size::new(c.w, c.h)];
    if c.mips {
        let mut l = 1u8;
        loop {
            let prev = *v.last().unwrap();
            if (prev.width <= 1 && prev.height <= 1) || c.mipn.is_some_and(|n| v.len() as u32 >= n) {
                break;
            }
            v.push(Size::new(c.w, c.h).get_mipmap(l));
            l += 1;
        }
    }
    v
}

/// fragment heights of every level (through the public `SplitView`), used only to size the
/// scheduler and to decide which canonical form the result line takes
/// (count, nominal height) per level when every level's fragments are uniform except the last and non-empty
pub fn geo_of(frs: &[Vec<u32>]) -> Option<Vec<(u32, u32)>> {
    let mut v = vec![];
    for f in frs {
        let n = f.len();
        if n == 0 || f.iter().any(|&x| x == 0) || f[..n - 1].iter().any(|&x| x != f[0]) || f[n - 1] > f[0] {
            return None;
        }
        v.push((n as u32, f[0]));
    }
    Some(v)
}

pub fn level_fragments(c: &Case) -> Vec<Vec<u32>> {
    let mut out = vec![];
    for s in level_sizes(c) {
        let data = vec![0u8; s.width as usize * s.height as usize];
        let img = match ImageView::new(&data, s, ColorFormat::GRAYSCALE_U8) {
            Some(i) => i,
            None => {
                out.push(vec![s.height]);
                continue;
            }
        };
        let sv = SplitView::new(img, c.format, &c.opts);
        out.push((0..sv.len()).map(|i| sv.get(i).map(|f| f.height()).unwrap_or(0)).collect());
    }
    out
}

/// counts the bytes it is given; accepts at most `limit` bytes in total (usize::MAX: all) and returns an
/// I/O error from then on (a short write up to the limit first, as a full disk does)
struct CountW {
    count: Arc<std::sync::atomic::AtomicUsize>,
    limit: Arc<std::sync::atomic::AtomicUsize>,
}
impl std::io::Write for CountW {
    fn write(&mut self, buf: &[u8]) -> std::io::Result<usize> {
        use std::sync::atomic::Ordering::SeqCst;
        let have = self.count.load(SeqCst);
        let room = self.limit.load(SeqCst).saturating_sub(have);
        if buf.is_empty() {
            return Ok(0);
        }
        if room == 0 {
            return Err(std::io::Error::new(std::io::ErrorKind::Other, "writer full"));
        }
        let n = buf.len().min(room);
        self.count.fetch_add(n, SeqCst);
        Ok(n)
    }
    fn flush(&mut self) -> std::io::Result<()> {
        Ok(())
    }
}

/// what is done around the call(s) of one `execute`
#[derive(Clone, Copy, Default)]
pub struct Plan {
    /// the token is cancelled before the first call
    pub pre_cancel: bool,
    /// the reporter closure cancels the token when it receives this report (0-based)
    pub cancel_at: Option<usize>,
    /// after the first call: `token.reset()` and the same call again
    pub retry: bool,
    /// all calls borrow ONE `Progress` value (otherwise every call gets a fresh one)
    pub same_progress: bool,
    /// the writer accepts this many bytes of the (first) call and fails afterwards
    pub fail_after: Option<usize>,
}

struct Env<'a> {
    c: &'a Case,
    plan: Plan,
    sched: &'a Arc<Sched>,
    token: &'a CancellationToken,
    shared: &'a Arc<Shared>,
    count: &'a Arc<std::sync::atomic::AtomicUsize>,
    limit: &'a Arc<std::sync::atomic::AtomicUsize>,
}

/// the calls of one `execute`: `call` is the API under test, lent a `Progress` built over `record`
fn attempts<R, F>(env: &Env, record: &mut R, mut call: F) -> Vec<Outcome>
where
    R: FnMut(f32) + Send,
    F: FnMut(&mut Progress) -> Result<(), EncodingError> + Send,
{
    use std::sync::atomic::Ordering::SeqCst;
    let Env { c, plan, sched, token, shared, count, limit } = *env;
    let n = 1 + plan.retry as usize;
    let before_call = |attempt: usize| -> usize {
        if attempt == 1 {
            token.reset();
        }
        let before = count.load(SeqCst);
        limit.store(if attempt == 0 { plan.fail_after.map(|k| before + k).unwrap_or(usize::MAX) } else { usize::MAX }, SeqCst);
        before
    };
    let after_call = |result: Result<(), EncodingError>, before: usize| -> Outcome {
        limit.store(usize::MAX, SeqCst);
        let now = count.load(SeqCst);
        let reports = std::mem::take(&mut *shared.reports.lock().unwrap_or_else(|e| e.into_inner()));
        let late = shared.at100.lock().unwrap_or_else(|e| e.into_inner()).take().map(|a| now - a).unwrap_or(0);
        let (forced, timeouts) = sched.stats();
        Outcome { result, reports, written: now - before, forced, timeouts, late }
    };
    let mt = c.mt;
    if plan.same_progress {
        with_hook(sched, || {
            pool(c.threads).install(|| {
                let mut progress =
                    if mt { Progress::new(record) } else { Progress::new_single_threaded(record) }.with_cancellation(token);
                (0..n)
                    .map(|attempt| {
                        let before = before_call(attempt);
                        let result = call(&mut progress);
                        after_call(result, before)
                    })
                    .collect()
            })
        })
    } else {
        let mut out = vec![];
        for attempt in 0..n {
            let before = before_call(attempt);
            let result = with_hook(sched, || {
                pool(c.threads).install(|| {
                    let mut progress =
                        if mt { Progress::new(record) } else { Progress::new_single_threaded(record) }.with_cancellation(token);
                    call(&mut progress)
                })
            });
            out.push(after_call(result, before));
        }
        out
    }
}

/// One call of the API under test with a recording reporter and a cancellation token; with `retry`
/// the token is reset afterwards and the same call is made again (second outcome).
pub fn execute(c: &Case, data: &[u8], pre_cancel: bool, cancel_at: Option<usize>, retry: bool) -> Vec<Outcome> {
    execute_plan(c, data, Plan { pre_cancel, cancel_at, retry, ..Plan::default() })
}

pub fn execute_plan(c: &Case, data: &[u8], plan: Plan) -> Vec<Outcome> {
    use std::sync::atomic::Ordering::SeqCst;
    let Plan { pre_cancel, cancel_at, .. } = plan;
    // every third case (seed % 3 == 1; the generator rotates the residue) hands the image over as a strided view whose
    // row pitch is not a multiple of the pixel size: the report arithmetic must not depend on how the rows are stored
    let bpp = c.color.bytes_per_pixel() as usize;
    let row = c.w as usize * bpp;
    let strided_len = if c.seed % 3 == 1 && c.w > 0 && c.h > 0 && data.len() == (row + 3) * c.h as usize { row + 3 } else { 0 };
    let image = if strided_len > 0 {
        ImageView::new_with(data, strided_len, Size::new(c.w, c.h), c.color).expect("strided image")
    } else {
        ImageView::new(data, Size::new(c.w, c.h), c.color).expect("image")
    };
    let token = CancellationToken::new();
    let shared = Arc::new(Shared { reports: Mutex::new(vec![]), at100: Mutex::new(None) });
    let lens: Vec<usize> = if c.opts.parallel {
        level_fragments(c).iter().map(|f| f.len()).filter(|&n| n > 1).collect()
    } else {
        vec![]
    };
    let strict = c.mt && cancel_at.is_none() && !pre_cancel;
    let sched = Sched::new(&lens, c.threads, c.order, c.seed, strict);

    let count = Arc::new(std::sync::atomic::AtomicUsize::new(0));
    let limit = Arc::new(std::sync::atomic::AtomicUsize::new(usize::MAX));
    let tok2 = token.clone();
    let sh2 = shared.clone();
    let sc2 = sched.clone();
    let cnt2 = count.clone();
    let mut record = move |p: f32| {
        if p == 1.0 {
            let mut a = sh2.at100.lock().unwrap_or_else(|e| e.into_inner());
            if a.is_none() {
                *a = Some(cnt2.load(SeqCst));
            }
        }
        let idx = {
            let mut g = sh2.reports.lock().unwrap_or_else(|e| e.into_inner());
            g.push(p);
            g.len() - 1
        };
        if Some(idx) == cancel_at {
            tok2.cancel();
            sc2.open();
        }
        sc2.note_submit();
    };

    let mut writer = CountW { count: count.clone(), limit: limit.clone() };
    if pre_cancel {
        token.cancel();
    }
    let env = Env { c, plan, sched: &sched, token: &token, shared: &shared, count: &count, limit: &limit };
    if c.api_encoder {
        // the DDS header is written here, before the writer is armed
        let made = match c.mipn {
            None => Encoder::new_image(&mut writer, Size::new(c.w, c.h), c.format, c.mips),
            Some(n) => Encoder::new(&mut writer, c.format, &dds::header::Header::new_image(c.w, c.h, c.format).with_mipmap_count(n)),
        };
        let mut encoder = match made {
            Ok(e) => e,
            Err(e) => return vec![Outcome { result: Err(e), reports: vec![], written: 0, forced: 0, timeouts: 0, late: 0 }],
        };
        encoder.options = c.opts.clone();
        encoder.mipmaps.generate = c.mips;
        attempts(&env, &mut record, |progress| encoder.write_surface_with_progress(image, progress))
    } else {
        attempts(&env, &mut record, |progress| encode(&mut writer, image, c.format, Some(progress), &c.opts))
    }
}

fn res_name(r: &Result<(), EncodingError>) -> String {
    match r {
        Ok(()) => "ok".into(),
        Err(EncodingError::Cancelled) => "cancelled".into(),
        Err(e) => format!("err:{}", err_name(e)),
    }
}

fn bits(v: &[f32]) -> String {
    v.iter().map(|x| format!("{:08x}", x.to_bits())).collect::<Vec<_>>().join(",")
}

const SLACK: f32 = 1e-6;

/// the property's clauses that concern one recorded run
fn check_sequence(tag: &str, c: &Case, o: &Outcome, pre_cancelled: bool, cancel_at: Option<usize>, orc: &mut Vec<String>) {
    let r = &o.reports;
    for (i, &p) in r.iter().enumerate() {
        if !(p >= 0.0 && p <= 1.0) {
            orc.push(format!("{tag}: report {i} = {p:e} is outside [0,1]"));
            break;
        }
    }
    for i in 1..r.len() {
        if r[i] < r[i - 1] - SLACK {
            orc.push(format!(
                "{tag}: progress decreased at report {i}: {:e} after {:e} (bits {:08x} after {:08x})",
                r[i],
                r[i - 1],
                r[i].to_bits(),
                r[i - 1].to_bits()
            ));
            break;
        }
    }
    // "ends with 1.0 exactly when the call succeeds" is about runs in which cancellation is never
    // requested (a request at a 1.0 report may legitimately give either outcome)
    let requested = pre_cancelled || cancel_at.map(|k| k < r.len()).unwrap_or(false);
    let ends_100 = r.last().map(|&p| p == 1.0).unwrap_or(false);
    if !requested {
        if o.result.is_ok() && !ends_100 {
            let last = r.last().map(|p| format!("{p:e}")).unwrap_or("none".into());
            if c.api_encoder {
                orc.push(format!("{tag}: call succeeded but the last report is {last}, not 1.0"));
            } else {
                orc.push(format!("free encode returned Ok without a final 1.0 report (last={last})"));
            }
        }
        if o.result.is_err() && ends_100 {
            orc.push(format!("{tag}: call failed ({}) after reporting 1.0", res_name(&o.result)));
        }
    }
    if o.timeouts > 0 {
        // not a property failure; visible in the evidence through the result line only if it changes a result
    }
}

fn n_fragments(name: &str, w: u32, h: u32, d: &str, q: &str) -> u32 {
    let f = parse_format(name).unwrap();
    let data = vec![0u8; w as usize * h as usize];
    let img = ImageView::new(&data, Size::new(w, h), ColorFormat::GRAYSCALE_U8).unwrap();
    let o = options(parse_dith(d).unwrap(), parse_quality(q).unwrap(), ErrorMetric::Uniform, true);
    SplitView::new(img, f, &o).len()
}

/// (format, color, dithering, quality): one entry per encoder function / pick_encoder branch
const SHAPES: &[(&str, &str, &str, &str)] = &[
    // copy_directly
    ("R8G8B8A8_UNORM", "rgba8", "none", "fast"),
    ("R32G32B32A32_FLOAT", "rgba32", "all", "fast"),
    ("R16_UNORM", "g16", "color", "fast"),
    // uncompressed_untyped
    ("R8G8B8A8_UNORM", "rgb8", "none", "fast"),
    ("B8G8R8A8_UNORM", "rgba8", "all", "fast"),
    ("R8G8B8A8_SNORM", "g8", "none", "fast"),
    ("R32G32B32_FLOAT", "g32", "none", "fast"),
    // uncompressed_universal
    ("R8G8B8A8_UNORM", "rgba32", "none", "fast"),
    ("B5G6R5_UNORM", "rgba8", "none", "fast"),
    ("R16G16B16A16_FLOAT", "rgba8", "all", "fast"),
    ("R9G9B9E5_SHAREDEXP", "g8", "color", "fast"),
    ("AYUV", "rgb16", "none", "fast"),
    // uncompressed_universal_dither
    ("B5G6R5_UNORM", "rgba8", "color", "fast"),
    ("R8G8B8A8_UNORM", "rgba32", "all", "fast"),
    ("A8_UNORM", "rgba16", "alpha", "fast"),
    ("R16G16B16A16_UNORM", "rgba32", "color", "fast"),
    ("B4G4R4A4_UNORM", "g8", "alpha", "fast"),
    ("R10G10B10A2_UNORM", "rgb8", "all", "fast"),
    // sub-sampled
    ("R1_UNORM", "g8", "none", "fast"),
    ("R1_UNORM", "rgba8", "color", "fast"),
    ("YUY2", "rgba8", "none", "fast"),
    ("Y210", "rgb16", "none", "fast"),
    ("R8G8_B8G8_UNORM", "rgb8", "all", "fast"),
    // bi-planar
    ("NV12", "rgba8", "none", "fast"),
    ("P010", "rgb16", "none", "fast"),
    // block compression
    ("BC1_UNORM", "rgba8", "none", "fast"),
    ("BC1_UNORM", "rgb8", "all", "normal"),
    ("BC3_UNORM", "rgba8", "alpha", "fast"),
    ("BC4_UNORM", "g8", "color", "fast"),
    ("BC5_SNORM", "rgb16", "none", "normal"),
    ("BC7_UNORM", "rgba8", "none", "fast"),
    ("BC7_UNORM", "rgba32", "all", "fast"),
    ("BC3_UNORM_RXGB", "rgba8", "color", "fast"),
];

fn size_mult(name: &str) -> (u32, u32) {
    parse_format(name)
        .and_then(|f| f.encoding_support())
        .and_then(|s| s.size_multiple())
        .map(|(a, b)| (a.get(), b.get()))
        .unwrap_or((1, 1))
}

fn sizes_for(name: &str, q: &str, rng: &mut Rng, thorough: bool) -> Vec<(u32, u32)> {
    let mut v: Vec<(u32, u32)> = vec![(0, 0), (1, 1), (4, 4), (5, 3), (16, 16), (33, 17), (64, 64)];
    if is_bc(name) {
        let t: u32 = if name.starts_with("BC7") {
            256
        } else if q == "fast" {
            4096
        } else if name.starts_with("BC4") || name.starts_with("BC5") {
            2048
        } else {
            1024
        };
        // at the split threshold, two fragments, uneven last fragment, many fragments, wide
        v.push((16, t / 16));
        v.push((16, t / 16 + 1));
        v.push((16, 2 * (t / 16)));
        v.push((32, 3 * (t / 32) + 5));
        v.push((24, 7 * ((t / 24) / 4 * 4) + 2));
        v.push((20, 20 * ((t / 20) / 4 * 4)));
        v.push((t + 9, 11));
        v.push((128, 128));
        v.push((rng.range(40, 90) as u32, rng.range(100, 300) as u32));
        if thorough {
            v.push((256, 256));
            v.push((512, 260)); // > 8192 blocks: a second sequential report at Fast
        }
    } else {
        v.push((3, 4100)); // many row chunks (dither / sub-sampled report frequency)
        v.push((2, 8200));
        v.push((700, 3));
        v.push((rng.range(1, 200) as u32, rng.range(1, 200) as u32));
    }
    let (mw, mh) = size_mult(name);
    for s in v.iter_mut() {
        s.0 = s.0 / mw * mw;
        s.1 = s.1 / mh * mh;
    }
    v.dedup();
    v
}

#[allow(clippy::too_many_arguments)]
fn push_case(
    out: &mut Vec<String>,
    api: &str,
    sh: &(&str, &str, &str, &str),
    w: u32,
    h: u32,
    mips: u32,
    par: bool,
    rep: &str,
    cancel: String,
    k: &mut usize,
    rng: &mut Rng,
) {
    let orders = ["nat", "rev", "rnd", "free"];
    *k += 1;
    let th = 1 + (*k * 7) % 16;
    let o = orders[(*k / 3) % 4];
    let nf = n_fragments(sh.0, w, h, sh.2, sh.3);
    let line = format!(
        "run {api} {} {w} {h} {} {} {} {} {} {th} {o} {rep} {cancel} {} nf={nf}",
        sh.0,
        sh.1,
        sh.2,
        sh.3,
        if mips >= 2 { format!("m{mips}") } else { mips.to_string() },
        par as u8,
        rng.below(1 << 28) * 3 + (*k as u64 % 3)
    );
    // the split rule is C14's subject: hand the real fragment geometry of every level to the model
    let geo = match parse(&line) {
        Some(Some(c)) => geo_of(&level_fragments(&c)),
        _ => None,
    };
    match geo {
        Some(g) => out.push(format!("{line}@{}", g.iter().map(|(n, f)| format!("{n}:{f}")).collect::<Vec<_>>().join(","))),
        None => out.push(line),
    }
}

/// Calls that do not succeed for a reason other than cancellation, and sequences of calls on one `Progress`:
///  * a FAILING WRITER (`ioA/B`, `iosweep`): the writer returns an I/O error at byte k of the output, k from the
///    first to the last byte — the only way besides cancellation in which an encode of a valid image fails, hence
///    the other half of "ends with 1.0 exactly when the call succeeds";
///  * `pres`: cancelled before the call -> `Cancelled`, nothing written -> `token.reset()` -> the retry borrows the
///    SAME `Progress` value (a `Progress` is only lent to a call and outlives it).
/// Own PRNG stream and counter: the cases above stay what they were.
fn gen_faults(seed: u64, thorough: bool) -> (Vec<String>, Vec<String>) {
    let mut rng = Rng::new(seed ^ 0xFA17_10E5);
    let mut k: usize = 0;
    let mut out = vec![];
    let points: [(u32, u32); 6] = [(0, 1), (1, 1), (1, 2), (1, 3), (7, 8), (2, 5)];
    for sh in SHAPES {
        let (mw, mh) = size_mult(sh.0);
        let can_mip = mw == 1 && mh == 1;
        for (si, (w, h)) in sizes_for(sh.0, sh.3, &mut rng, thorough).into_iter().enumerate() {
            if w == 0 || h == 0 {
                continue; // nothing is written: there is no byte to fail at
            }
            let big = w as u64 * h as u64 > 20_000;
            let multi = n_fragments(sh.0, w, h, sh.2, sh.3) > 1;
            for api in ["E", "F"] {
                for mips in [0u32, 1, 2] {
                    if mips > 0 && (api == "F" || !can_mip) {
                        continue;
                    }
                    if mips == 2 && (w.max(h) < 4 || !multi) {
                        continue;
                    }
                    for par in [false, true] {
                        if par && !is_bc(sh.0) && si % 3 != 0 {
                            continue;
                        }
                        let rep = if par && (si + mips as usize) % 4 == 1 { "st" } else { "mt" };
                        if !big || thorough || (par && multi) {
                            push_case(&mut out, api, sh, w, h, mips, par, rep, "pres".into(), &mut k, &mut rng);
                        }
                        if (par && multi && (!big || mips == 0)) || (thorough && (!big || (par && multi))) || (!big && (si + k) % 3 == 0) {
                            push_case(&mut out, api, sh, w, h, mips, par, rep, "iosweep".into(), &mut k, &mut rng);
                        } else {
                            let (a, b) = points[(si + k) % points.len()];
                            push_case(&mut out, api, sh, w, h, mips, par, rep, format!("io{a}/{b}"), &mut k, &mut rng);
                        }
                    }
                }
            }
        }
    }
    let structured = std::mem::take(&mut out);
    // PRNG: multi-fragment parallel BC encodes, every pool size / completion order
    let n_rand = if thorough { 4_500 } else { 1_500 };
    let bc_shapes: Vec<&(&str, &str, &str, &str)> = SHAPES.iter().filter(|s| is_bc(s.0)).collect();
    for _ in 0..n_rand {
        let sh = **rng.pick(&bc_shapes);
        let t: u64 = if sh.0.starts_with("BC7") { 256 } else if sh.3 == "fast" { 4096 } else { 1024 };
        let w = rng.range(4, 70);
        let fh = ((t / w) / 4 * 4).max(4);
        let h = match rng.below(3) {
            0 => fh * rng.range(2, 12),
            1 => fh * rng.range(1, 12) + rng.range(1, fh - 1),
            _ => rng.range(fh + 1, 4 * fh),
        };
        if w * h > 120_000 {
            continue;
        }
        let api = if rng.chance(1, 2) { "E" } else { "F" };
        let mips = if api == "E" && rng.chance(1, 3) { *rng.pick(&[1u32, 1, 2, 3]) } else { 0 };
        let mips = if mips >= 2 && w.max(h) < (1 << mips) { 1 } else { mips };
        let rep = if rng.chance(1, 8) { "st" } else { "mt" };
        let cancel = match rng.below(6) {
            0 | 1 => "pres".to_string(),
            2 => "iosweep".to_string(),
            3 => "io0/1".to_string(),
            4 => "io1/1".to_string(),
            _ => format!("io{}/64", rng.below(65)),
        };
        push_case(&mut out, api, &sh, w as u32, h as u32, mips, true, rep, cancel, &mut k, &mut rng);
    }
    (structured, out)
}

pub fn gen(seed: u64, thorough: bool) -> Vec<String> {
    let mut rng = Rng::new(seed);
    let mut out = vec![];
    let mut k: usize = 0;
    let push = push_case;
    // structured: every shape x sizes x API x mips x parallel x cancellation mode
    for sh in SHAPES {
        let (mw, mh) = size_mult(sh.0);
        let can_mip = mw == 1 && mh == 1;
        for (si, (w, h)) in sizes_for(sh.0, sh.3, &mut rng, thorough).into_iter().enumerate() {
            let big = w as u64 * h as u64 > 20_000;
            for api in ["E", "F"] {
                if api == "E" && (w == 0 || h == 0) {
                    continue; // a DDS header cannot declare an empty surface
                }
                // 0 = no mipmaps, 1 = full chain, n >= 2 = a partial chain of n declared levels (the last generated
                // level may then still be split into fragments)
                for mips in [0u32, 1, 2, 3] {
                    if mips > 0 && (api == "F" || !can_mip || w == 0) {
                        continue;
                    }
                    if mips >= 2 && (w.max(h) < (1 << mips) || (si + mips as usize) % 2 == 0) {
                        continue;
                    }
                    for par in [false, true] {
                        if par && !is_bc(sh.0) && si % 3 != 0 {
                            continue; // never split: one in three sizes is enough
                        }
                        let rep = if par && si % 4 == 1 { "st" } else { "mt" };
                        push(&mut out, api, sh, w, h, mips, par, rep, "-".into(), &mut k, &mut rng);
                        if !big || thorough {
                            push(&mut out, api, sh, w, h, mips, par, rep, "pre".into(), &mut k, &mut rng);
                        }
                        if (!big && (si + k) % 2 == 0) || thorough {
                            push(&mut out, api, sh, w, h, mips, par, "mt", "sweep".into(), &mut k, &mut rng);
                        } else {
                            let c = format!("k{}", rng.below(6));
                            push(&mut out, api, sh, w, h, mips, par, "mt", c, &mut k, &mut rng);
                        }
                    }
                }
            }
        }
    }
    // a few large surfaces so that every family reports more than once sequentially
    let large: &[(&str, &str, &str, &str, u32, u32)] = &[
        ("B5G6R5_UNORM", "g8", "none", "fast", 1100, 1000),     // universal: 2149 chunks
        ("R8G8B8A8_UNORM", "rgb8", "none", "fast", 2100, 1000), // untyped: 2051 chunks
        ("NV12", "g8", "none", "fast", 65536, 20),              // bi-planar: frequency 8, 10 groups
        ("BC1_UNORM", "rgba8", "none", "fast", 512, 260),       // 8320 blocks
        ("BC4_UNORM", "g8", "none", "normal", 256, 260),        // 4160 blocks, frequency 4096
    ];
    for l in large {
        let sh = (l.0, l.1, l.2, l.3);
        for (api, par, cancel) in [("E", false, "-"), ("F", false, "-"), ("E", true, "-"), ("E", false, "k1"), ("F", true, "k1")] {
            push(&mut out, api, &sh, l.4, l.5, 0, par, "mt", cancel.into(), &mut k, &mut rng);
        }
        // partial chains whose last level is still multi-fragment, cancelled at every report
        if is_bc(l.0) {
            for m in [2u32, 3] {
                push(&mut out, "E", &sh, l.4, l.5, m, true, "mt", "sweep".into(), &mut k, &mut rng);
                push(&mut out, "E", &sh, l.4, l.5, m, false, "mt", "sweep".into(), &mut k, &mut rng);
            }
        }
    }
    let structured = std::mem::take(&mut out);
    // PRNG: parallel BC encodes with every pool size / order, random cancellation points
    let n_rand = if thorough { 30_000 } else { 6_000 };
    let bc_shapes: Vec<&(&str, &str, &str, &str)> = SHAPES.iter().filter(|s| is_bc(s.0)).collect();
    for _ in 0..n_rand {
        let sh = **rng.pick(&bc_shapes);
        let t: u64 = if sh.0.starts_with("BC7") { 256 } else if sh.3 == "fast" { 4096 } else { 1024 };
        let w = rng.range(4, 70);
        let fh = ((t / w) / 4 * 4).max(4);
        let h = match rng.below(3) {
            0 => fh * rng.range(2, 12),
            1 => fh * rng.range(1, 12) + rng.range(1, fh - 1),
            _ => rng.range(1, 4 * fh),
        };
        if w * h > 120_000 {
            continue;
        }
        let api = if rng.chance(1, 2) { "E" } else { "F" };
        let mips = if api == "E" && rng.chance(1, 3) { *rng.pick(&[1u32, 1, 2, 3]) } else { 0 };
        let mips = if mips >= 2 && w.max(h) < (1 << mips) { 1 } else { mips };
        let rep = if rng.chance(1, 8) { "st" } else { "mt" };
        let cancel = match rng.below(4) {
            0 => "-".to_string(),
            1 => "pre".to_string(),
            _ => format!("k{}", rng.below(14)),
        };
        push(&mut out, api, &sh, w as u32, h as u32, mips, true, rep, cancel, &mut k, &mut rng);
        if mips >= 2 && rng.chance(1, 2) {
            push(&mut out, api, &sh, w as u32, h as u32, mips, true, "mt", "sweep".into(), &mut k, &mut rng);
        }
    }
    // interleave the two lists so that check.py's chunks balance
    let mut structured = structured;
    let mut random = out;
    let (fs, fr) = gen_faults(seed, thorough);
    structured.extend(fs);
    random.extend(fr);
    let mut out = Vec::with_capacity(structured.len() + random.len());
    let (mut a, mut b) = (structured.into_iter().peekable(), random.into_iter().peekable());
    while a.peek().is_some() || b.peek().is_some() {
        if let Some(x) = a.next() {
            out.push(x);
        }
        if let Some(x) = b.next() {
            out.push(x);
        }
    }
    out
}

pub fn run(line: &str) -> Option<(String, Vec<String>)> {
    let c = match parse(line)? {
        Some(c) => c,
        None => return Some(("bad-case".into(), vec![])),
    };
    let data = make_image(c.w, c.h, c.color, c.seed);
    ImageView::new(&data, Size::new(c.w, c.h), c.color)?;
    // strided variant of the same pixels (see `execute`): rows 3 bytes apart
    let data = if c.seed % 3 == 1 && c.w > 0 && c.h > 0 {
        let row = c.w as usize * c.color.bytes_per_pixel() as usize;
        let mut buf = vec![0x5Au8; (row + 3) * c.h as usize];
        for y in 0..c.h as usize {
            buf[y * (row + 3)..y * (row + 3) + row].copy_from_slice(&data[y * row..(y + 1) * row]);
        }
        buf
    } else {
        data
    };
    let mut orc = vec![];
    let frs = level_fragments(&c);
    if frs[0].len() as u32 != c.nf {
        return Some((format!("bad-nf impl={}", frs[0].len()), vec![]));
    }
    if let Some(g) = &c.geo {
        if geo_of(&frs).as_ref() != Some(g) {
            return Some((format!("bad-geo impl={:?}", geo_of(&frs)), vec![]));
        }
    }
    // is the report sequence independent of the completion order?
    let order_free = !c.opts.parallel
        || !c.mt
        || frs.iter().all(|f| f.len() <= 1 || f.iter().all(|&x| x == f[0]));
    match c.cancel {
        Cancel::Never => {
            let o = execute(&c, &data, false, None, false).remove(0);
            check_sequence("run", &c, &o, false, None, &mut orc);
            let n = o.reports.len();
            let res = if order_free {
                format!("{} n={n} late={} seq={}", res_name(&o.result), o.late, bits(&o.reports))
            } else {
                let mut with0 = vec![0.0f32];
                with0.extend_from_slice(&o.reports);
                let mut d: Vec<f32> = with0.windows(2).map(|w| w[1] - w[0]).collect();
                d.sort_by(|a, b| a.partial_cmp(b).unwrap_or(std::cmp::Ordering::Equal));
                let last: Vec<f32> = o.reports.last().copied().into_iter().collect();
                format!("{} n={n} late={} last={} dif={}", res_name(&o.result), o.late, bits(&last), bits(&d))
            };
            Some((res, orc))
        }
        Cancel::Pre | Cancel::PreSame => {
            // `pres`: both calls borrow one `Progress` value (cancel -> call -> reset -> retry on the same object)
            let same_progress = c.cancel == Cancel::PreSame;
            let mut os = execute_plan(&c, &data, Plan { pre_cancel: true, retry: true, same_progress, ..Plan::default() });
            if os.len() != 2 {
                let o = os.remove(0);
                return Some((res_name(&o.result), orc));
            }
            let o2 = os.remove(1);
            let o1 = os.remove(0);
            check_sequence("pre-cancelled", &c, &o1, true, None, &mut orc);
            check_sequence("retry", &c, &o2, false, None, &mut orc);
            if !matches!(o1.result, Err(EncodingError::Cancelled)) {
                orc.push(format!("token cancelled before the call, result {}", res_name(&o1.result)));
            }
            if !o1.reports.is_empty() {
                orc.push(format!("pre-cancelled call made {} progress reports", o1.reports.len()));
            }
            if o2.result.is_err() {
                let how = if same_progress { " (same Progress value as the cancelled call)" } else { "" };
                orc.push(format!("retry after reset failed{how}: {}", res_name(&o2.result)));
            }
            let written1 = o1.written;
            if written1 != 0 {
                orc.push(format!("pre-cancelled call wrote {written1} bytes"));
            }
            Some((
                format!(
                    "{} n={} written={written1} retry={} n2={}",
                    res_name(&o1.result),
                    o1.reports.len(),
                    res_name(&o2.result),
                    o2.reports.len()
                ),
                orc,
            ))
        }
        Cancel::At(k) => {
            let o = execute(&c, &data, false, Some(k), false).remove(0);
            check_sequence("cancel", &c, &o, false, Some(k), &mut orc);
            check_cancel_at(&c, k, &o, &mut orc);
            let res = if !c.opts.parallel || !c.mt || frs.iter().all(|f| f.len() <= 1) {
                format!("{} n={}", res_name(&o.result), o.reports.len())
            } else {
                res_name(&o.result)
            };
            Some((res, orc))
        }
        Cancel::Io(..) | Cancel::IoSweep => {
            // the unfailed run tells how many bytes the call writes (its sequence is judged by the `-` case of the
            // same shape)
            let o = execute(&c, &data, false, None, false).remove(0);
            let total = o.written;
            if o.result.is_err() || total == 0 {
                return Some((if total == 0 && o.result.is_ok() { "no-output".into() } else { res_name(&o.result) }, orc));
            }
            let point = |a: u32, b: u32| ((total as u128 - 1) * a as u128 / b as u128) as usize;
            let fail = |k: usize, orc: &mut Vec<String>| -> Outcome {
                let f = execute_plan(&c, &data, Plan { fail_after: Some(k), ..Plan::default() }).remove(0);
                check_sequence(&format!("writer failing at byte {k} of {total}"), &c, &f, false, None, orc);
                f
            };
            match c.cancel {
                Cancel::Io(a, b) => {
                    let f = fail(point(a, b), &mut orc);
                    let res = if a == 0 || a == b { format!("{} n={}", res_name(&f.result), f.reports.len()) } else { res_name(&f.result) };
                    Some((res, orc))
                }
                _ => {
                    let mut ks: Vec<usize> = (0..=8).map(|a| point(a, 8)).collect();
                    ks.dedup();
                    let mut not_io = vec![];
                    let (mut first, mut last) = (0, 0);
                    for &k in &ks {
                        let f = fail(k, &mut orc);
                        if !matches!(f.result, Err(EncodingError::Io(_))) {
                            not_io.push(format!("{k}:{}", res_name(&f.result)));
                        }
                        if k == 0 {
                            first = f.reports.len();
                        }
                        if k == total - 1 {
                            last = f.reports.len();
                        }
                        if orc.len() > 8 {
                            break;
                        }
                    }
                    let io = if not_io.is_empty() { "all".to_string() } else { not_io.join(",") };
                    Some((format!("iosweep {} n={} io={io} nfirst={first} nlast={last}", res_name(&o.result), o.reports.len()), orc))
                }
            }
        }
        Cancel::Sweep => {
            let o = execute(&c, &data, false, None, false).remove(0);
            check_sequence("run", &c, &o, false, None, &mut orc);
            let n = o.reports.len();
            let ks: Vec<usize> = if n <= 96 { (0..n).collect() } else { (0..96).map(|i| i * (n - 1) / 95).collect() };
            let (mut nc, mut nok) = (0, 0);
            for k in ks {
                let ok = execute(&c, &data, false, Some(k), false).remove(0);
                check_sequence(&format!("cancel at {k}"), &c, &ok, false, Some(k), &mut orc);
                check_cancel_at(&c, k, &ok, &mut orc);
                match ok.result {
                    Err(EncodingError::Cancelled) => nc += 1,
                    Ok(()) => nok += 1,
                    _ => {}
                }
                if orc.len() > 8 {
                    break;
                }
            }
            Some((format!("sweep {} n={n} cancelled={nc} ok={nok}", res_name(&o.result)), orc))
        }
    }
}

fn check_cancel_at(_c: &Case, k: usize, o: &Outcome, orc: &mut Vec<String>) {
    if let Some(&p) = o.reports.get(k) {
        if p < 1.0 && !matches!(o.result, Err(EncodingError::Cancelled)) {
            orc.push(format!(
                "cancelled at report {k} (value {p:e} < 1) but the call returned {}",
                res_name(&o.result)
            ));
        }
    }
}
