//! C05 — a decoded pixel does not depend on how it was asked for.
//!
//! Case kinds (one line each):
//!   R <fmt> <W> <H> <ox> <oy> <w> <h> <color> <pitch> <bufoff> <api> <seed>
//!       rectangle decode of a random surface into a padded / offset / prefilled view
//!   F <fmt> <W> <H> <color> <pitch> <bufoff> <seed>
//!       full decode into a padded / offset / prefilled view (vs. the tight full decode)
//!   L <fmt> <W> <H> <color> <seed>
//!       locality: changing one encoded unit changes only the pixels of that unit
//!
//! Result line (compared with the Lean model `Drv/C05.lean`):
//!   ok wr=<bytes written> rg=<merged ranges> bh=<hash of ranges>  sm=<hash of source map> un=<n> oob=0
//! `wr/rg/bh` are obtained from the implementation by decoding twice with prefill 0x00 / 0xFF
//! (a byte that differs was not written).  `sm` is obtained, for the probe formats, by decoding
//! synthetic surfaces whose pixels carry (bit slices of) their own coordinates and reading the
//! coordinates back from the output pixels (value -> code tables come from flat surfaces).
//!
//! Oracle (independent of the model): rect bytes == crop of the tight full decode; padding,
//! prefix and suffix bytes keep the prefill; non-native channels == native decode + mapping
//! (implemented here from the documented rules); probe read-back == identity crop; locality.

use crate::common::{p_u32, p_u64, p_usize, toks, Rng};
use dds::header::Header;
use dds::{
    Channels, ColorFormat, DecodeOptions, Decoder, Format, ImageViewMut, Offset, PixelInfo,
    Precision, Size,
};
use std::cell::RefCell;
use std::collections::HashMap;
use std::io::Cursor;

macro_rules! formats {
    ($($n:ident),* $(,)?) => { pub const FORMATS: &[(&str, Format)] = &[$((stringify!($n), Format::$n)),*]; };
}
formats!(
    R8G8B8_UNORM, B8G8R8_UNORM, R8G8B8A8_UNORM, R8G8B8A8_SNORM, B8G8R8A8_UNORM, B8G8R8X8_UNORM,
    B5G6R5_UNORM, B5G5R5A1_UNORM, B4G4R4A4_UNORM, A4B4G4R4_UNORM, R8_SNORM, R8_UNORM, R8G8_UNORM,
    R8G8_SNORM, A8_UNORM, R16_UNORM, R16_SNORM, R16G16_UNORM, R16G16_SNORM, R16G16B16A16_UNORM,
    R16G16B16A16_SNORM, R10G10B10A2_UNORM, R11G11B10_FLOAT, R9G9B9E5_SHAREDEXP, R16_FLOAT,
    R16G16_FLOAT, R16G16B16A16_FLOAT, R32_FLOAT, R32G32_FLOAT, R32G32B32_FLOAT,
    R32G32B32A32_FLOAT, R10G10B10_XR_BIAS_A2_UNORM, AYUV, Y410, Y416, R1_UNORM, R8G8_B8G8_UNORM,
    G8R8_G8B8_UNORM, UYVY, YUY2, Y210, Y216, NV12, P010, P016, BC1_UNORM, BC2_UNORM,
    BC2_UNORM_PREMULTIPLIED_ALPHA, BC3_UNORM, BC3_UNORM_PREMULTIPLIED_ALPHA, BC4_UNORM, BC4_SNORM,
    BC5_UNORM, BC5_SNORM, BC6H_UF16, BC6H_SF16, BC7_UNORM, ASTC_4X4_UNORM, ASTC_5X4_UNORM,
    ASTC_5X5_UNORM, ASTC_6X5_UNORM, ASTC_6X6_UNORM, ASTC_8X5_UNORM, ASTC_8X6_UNORM, ASTC_8X8_UNORM,
    ASTC_10X5_UNORM, ASTC_10X6_UNORM, ASTC_10X8_UNORM, ASTC_10X10_UNORM, ASTC_12X10_UNORM,
    ASTC_12X12_UNORM, BC3_UNORM_RXGB, BC3_UNORM_NORMAL,
);

fn format_of(name: &str) -> Option<Format> {
    FORMATS.iter().find(|(n, _)| *n == name).map(|(_, f)| *f)
}

const CHANNELS: [Channels; 4] = [Channels::Grayscale, Channels::Alpha, Channels::Rgb, Channels::Rgba];
const PRECISIONS: [Precision; 3] = [Precision::U8, Precision::U16, Precision::F32];

/// colour index = precision * 4 + channels (the 12 colour formats)
fn color_of(idx: usize) -> Option<ColorFormat> {
    if idx >= 12 {
        return None;
    }
    Some(ColorFormat::new(CHANNELS[idx % 4], PRECISIONS[idx / 4]))
}
fn ch_idx(c: Channels) -> usize {
    CHANNELS.iter().position(|x| *x == c).unwrap()
}

/// geometry of the encoded units, from the public `PixelInfo`
#[derive(Clone, Copy, Debug)]
enum Geo {
    Pixel { bytes: usize },
    Block { bw: usize, bh: usize, bytes: usize },
    Planar { p1: usize, p2: usize, ssx: usize, ssy: usize },
}
fn geo_of(f: Format) -> Geo {
    match PixelInfo::from(f) {
        PixelInfo::Fixed { bytes_per_pixel } => Geo::Pixel { bytes: bytes_per_pixel as usize },
        PixelInfo::Block(b) => Geo::Block {
            bw: b.size().0 as usize,
            bh: b.size().1 as usize,
            bytes: b.bytes_per_block() as usize,
        },
        PixelInfo::BiPlanar(p) => Geo::Planar {
            p1: p.plane1_bytes_per_pixel() as usize,
            p2: p.plane2_bytes_per_sample() as usize,
            ssx: p.plane2_sub_sampling().0 as usize,
            ssy: p.plane2_sub_sampling().1 as usize,
        },
    }
}
fn surface_bytes(f: Format, w: usize, h: usize) -> usize {
    PixelInfo::from(f).surface_bytes(Size::new(w as u32, h as u32)).unwrap() as usize
}

fn random_bytes(seed: u64, n: usize) -> Vec<u8> {
    let mut r = Rng::new(seed ^ 0xC05C05);
    let mut v = Vec::with_capacity(n + 8);
    while v.len() < n {
        v.extend_from_slice(&r.next().to_le_bytes());
    }
    v.truncate(n);
    v
}

// ------------------------------------------------------------------------------------------
// calling the implementation

fn decode_full_tight(f: Format, data: &[u8], w: usize, h: usize, c: ColorFormat) -> Result<Vec<u8>, String> {
    let bpp = c.bytes_per_pixel() as usize;
    let mut out = vec![0xA5u8; w * h * bpp];
    let view = ImageViewMut::new(&mut out, Size::new(w as u32, h as u32), c).ok_or("view")?;
    let mut rd: &[u8] = data;
    dds::decode(&mut rd, view, f, &DecodeOptions::default()).map_err(|e| format!("{e:?}"))?;
    if !rd.is_empty() {
        return Err(format!("full decode left {} bytes unread", rd.len()));
    }
    Ok(out)
}

/// view geometry inside a larger buffer
#[derive(Clone, Copy)]
struct ViewGeo {
    w: usize,
    h: usize,
    pitch: usize,
    buf_off: usize,
    color: ColorFormat,
}
impl ViewGeo {
    fn bpp(&self) -> usize {
        self.color.bytes_per_pixel() as usize
    }
    fn addr_len(&self) -> usize {
        self.pitch * (self.h - 1) + self.w * self.bpp()
    }
    const TAIL: usize = 9;
    fn buf_len(&self) -> usize {
        self.buf_off + self.addr_len() + Self::TAIL
    }
}

/// `rect = None`: full decode (`dds::decode` / `Decoder::read_surface`), else rectangle decode
/// (`dds::decode_rect` / `Decoder::read_surface_rect`).  Returns the whole buffer.
fn decode_into(
    f: Format,
    data: &[u8],
    sw: usize,
    sh: usize,
    rect: Option<(usize, usize)>,
    v: ViewGeo,
    prefill: u8,
    api: u32,
) -> Result<Vec<u8>, String> {
    let mut buf = vec![prefill; v.buf_len()];
    {
        // the slice handed to the view is longer than needed (new_with truncates it)
        let view = ImageViewMut::new_with(&mut buf[v.buf_off..], v.pitch, Size::new(v.w as u32, v.h as u32), v.color)
            .ok_or("view")?;
        let opts = DecodeOptions::default();
        let size = Size::new(sw as u32, sh as u32);
        match (rect, api) {
            (Some((ox, oy)), 0) => {
                let mut cur = Cursor::new(data);
                dds::decode_rect(&mut cur, view, Offset::new(ox as u32, oy as u32), size, f, &opts)
                    .map_err(|e| format!("{e:?}"))?;
                if cur.position() as usize != data.len() {
                    return Err(format!("reader at {} of {}", cur.position(), data.len()));
                }
            }
            (Some((ox, oy)), _) => {
                let header = Header::new_image(sw as u32, sh as u32, f);
                let mut d = Decoder::from_header_with(Cursor::new(data), header, f).map_err(|e| format!("{e:?}"))?;
                d.read_surface_rect(view, Offset::new(ox as u32, oy as u32)).map_err(|e| format!("{e:?}"))?;
            }
            (None, 0) => {
                let mut rd: &[u8] = data;
                dds::decode(&mut rd, view, f, &opts).map_err(|e| format!("{e:?}"))?;
            }
            (None, _) => {
                let header = Header::new_image(sw as u32, sh as u32, f);
                let mut d = Decoder::from_header_with(Cursor::new(data), header, f).map_err(|e| format!("{e:?}"))?;
                d.read_surface(view).map_err(|e| format!("{e:?}"))?;
            }
        }
    }
    Ok(buf)
}

// ------------------------------------------------------------------------------------------
// channel mapping, written from the documented rules (not from the code):
//   grey -> rgb replicates, colour -> grey takes the first (red) channel, missing alpha is opaque,
//   an alpha-only source has black colour, colour/grey -> alpha-only of a source without alpha is opaque.

fn one_bytes(p: Precision) -> Vec<u8> {
    match p {
        Precision::U8 => vec![0xFF],
        Precision::U16 => 0xFFFFu16.to_ne_bytes().to_vec(),
        Precision::F32 => 1.0f32.to_ne_bytes().to_vec(),
    }
}
fn zero_bytes(p: Precision) -> Vec<u8> {
    vec![0u8; p.size() as usize]
}

fn map_channels(src: &[u8], from: Channels, to: Channels, p: Precision) -> Vec<u8> {
    let s = p.size() as usize;
    let nf = from.count() as usize;
    let nt = to.count() as usize;
    let n = src.len() / (s * nf);
    let one = one_bytes(p);
    let zero = zero_bytes(p);
    let mut out = Vec::with_capacity(n * nt * s);
    for i in 0..n {
        let px = &src[i * nf * s..(i + 1) * nf * s];
        let chan = |k: usize| &px[k * s..(k + 1) * s];
        // source as (r, g, b, a)
        let (r, g, b, a): (&[u8], &[u8], &[u8], &[u8]) = match from {
            Channels::Grayscale => (chan(0), chan(0), chan(0), &one),
            Channels::Alpha => (&zero, &zero, &zero, chan(0)),
            Channels::Rgb => (chan(0), chan(1), chan(2), &one),
            Channels::Rgba => (chan(0), chan(1), chan(2), chan(3)),
        };
        match to {
            Channels::Grayscale => out.extend_from_slice(r),
            Channels::Alpha => out.extend_from_slice(a),
            Channels::Rgb => {
                out.extend_from_slice(r);
                out.extend_from_slice(g);
                out.extend_from_slice(b);
            }
            Channels::Rgba => {
                out.extend_from_slice(r);
                out.extend_from_slice(g);
                out.extend_from_slice(b);
                out.extend_from_slice(a);
            }
        }
    }
    out
}

/// does the target layout carry any information of the native pixel?
fn observable(native: Channels, target: Channels) -> bool {
    !matches!(
        (native, target),
        (Channels::Grayscale, Channels::Alpha)
            | (Channels::Rgb, Channels::Alpha)
            | (Channels::Alpha, Channels::Grayscale)
            | (Channels::Alpha, Channels::Rgb)
    )
}

// ------------------------------------------------------------------------------------------
// summaries (must match Drv/C05.lean)

const FNV_INIT: u64 = 0xcbf29ce484222325;
fn fnv(h: u64, v: u64) -> u64 {
    (h ^ v).wrapping_mul(0x100000001b3)
}
fn pack4(a: u64, b: u64, c: u64, d: u64) -> u64 {
    a.wrapping_add(b.wrapping_mul(16384))
        .wrapping_add(c.wrapping_mul(268435456))
        .wrapping_add(d.wrapping_mul(4398046511104))
        .wrapping_add(1)
}

/// `written[i]` for the bytes of the view (relative to the view start)
fn bytes_summary(written: &[bool]) -> String {
    let mut total = 0usize;
    let mut ranges = 0usize;
    let mut h = FNV_INIT;
    let mut i = 0;
    while i < written.len() {
        if written[i] {
            let lo = i;
            while i < written.len() && written[i] {
                i += 1;
            }
            total += i - lo;
            ranges += 1;
            h = fnv(fnv(h, lo as u64), i as u64);
        } else {
            i += 1;
        }
    }
    format!("wr={total} rg={ranges} bh={h}")
}

// ------------------------------------------------------------------------------------------
// probe formats: synthetic surfaces whose pixels carry codes

#[derive(Clone, Copy, PartialEq, Eq, Hash, Debug)]
enum Plane {
    Main,   // the only plane / luma
    Chroma, // NV12 plane 2
}

#[derive(Clone, Copy, PartialEq, Eq, Hash, Debug)]
enum ProbeKind {
    Rgba8,
    Bc4,
    R1,
    Yuy2,
    Nv12,
}
fn probe_of(name: &str) -> Option<ProbeKind> {
    match name {
        "R8G8B8A8_UNORM" => Some(ProbeKind::Rgba8),
        "BC4_UNORM" => Some(ProbeKind::Bc4),
        "R1_UNORM" => Some(ProbeKind::R1),
        "YUY2" => Some(ProbeKind::Yuy2),
        "NV12" => Some(ProbeKind::Nv12),
        _ => None,
    }
}
impl ProbeKind {
    fn format(self) -> Format {
        match self {
            ProbeKind::Rgba8 => Format::R8G8B8A8_UNORM,
            ProbeKind::Bc4 => Format::BC4_UNORM,
            ProbeKind::R1 => Format::R1_UNORM,
            ProbeKind::Yuy2 => Format::YUY2,
            ProbeKind::Nv12 => Format::NV12,
        }
    }
    /// code bits a pixel can carry in one pass
    fn bits(self) -> u32 {
        match self {
            ProbeKind::Rgba8 => 8,
            ProbeKind::Bc4 => 3,
            ProbeKind::R1 => 1,
            ProbeKind::Yuy2 => 7,
            ProbeKind::Nv12 => 7,
        }
    }
    /// encoded surface in which main-plane pixel (x, y) carries `code(x, y)`; for NV12 with
    /// `plane = Chroma` the chroma sample (cx, cy) carries `code(cx, cy)` and the luma is constant
    fn encode(self, w: usize, h: usize, plane: Plane, code: &dyn Fn(usize, usize) -> u32) -> Vec<u8> {
        match self {
            ProbeKind::Rgba8 => {
                let mut v = Vec::with_capacity(w * h * 4);
                for y in 0..h {
                    for x in 0..w {
                        let c = code(x, y) as u8;
                        v.extend_from_slice(&[c, c, c, c]);
                    }
                }
                v
            }
            ProbeKind::R1 => {
                let wb = w.div_ceil(8);
                let mut v = vec![0u8; wb * h];
                for y in 0..h {
                    for x in 0..w {
                        if code(x, y) & 1 == 1 {
                            v[y * wb + x / 8] |= 0x80 >> (x % 8);
                        }
                    }
                }
                v
            }
            ProbeKind::Yuy2 => {
                let wb = w.div_ceil(2);
                let mut v = vec![128u8; wb * h * 4];
                for y in 0..h {
                    for bx in 0..wb {
                        let o = (y * wb + bx) * 4;
                        v[o] = 16 + code(bx * 2, y) as u8;
                        v[o + 2] = 16 + if bx * 2 + 1 < w { code(bx * 2 + 1, y) as u8 } else { 0 };
                    }
                }
                v
            }
            ProbeKind::Bc4 => {
                let wb = w.div_ceil(4);
                let hb = h.div_ceil(4);
                let mut v = Vec::with_capacity(wb * hb * 8);
                for by in 0..hb {
                    for bx in 0..wb {
                        let mut idx: u64 = 0;
                        for py in 0..4 {
                            for px in 0..4 {
                                let (x, y) = (bx * 4 + px, by * 4 + py);
                                let c = if x < w && y < h { code(x, y) as u64 & 7 } else { 0 };
                                idx |= c << (3 * (py * 4 + px));
                            }
                        }
                        v.push(255);
                        v.push(0);
                        v.extend_from_slice(&idx.to_le_bytes()[..6]);
                    }
                }
                v
            }
            ProbeKind::Nv12 => {
                let cw = w.div_ceil(2);
                let chh = h.div_ceil(2);
                let mut v = Vec::with_capacity(w * h + cw * chh * 2);
                for y in 0..h {
                    for x in 0..w {
                        v.push(match plane {
                            Plane::Main => 16 + code(x, y) as u8,
                            Plane::Chroma => 126,
                        });
                    }
                }
                for cy in 0..chh {
                    for cx in 0..cw {
                        v.push(128);
                        v.push(match plane {
                            Plane::Main => 128,
                            Plane::Chroma => 64 + code(cx, cy) as u8,
                        });
                    }
                }
                v
            }
        }
    }
}

thread_local! {
    static TABLES: RefCell<HashMap<(ProbeKind, Plane, usize), HashMap<Vec<u8>, u32>>> = RefCell::new(HashMap::new());
}

/// decoded pixel bytes -> code, learnt from flat surfaces (every pixel carries the same code, so
/// no addressing is trusted)
fn table(kind: ProbeKind, plane: Plane, color_idx: usize) -> Result<HashMap<Vec<u8>, u32>, String> {
    if let Some(t) = TABLES.with(|t| t.borrow().get(&(kind, plane, color_idx)).cloned()) {
        return Ok(t);
    }
    let c = color_of(color_idx).unwrap();
    let bpp = c.bytes_per_pixel() as usize;
    let mut t = HashMap::new();
    for code in 0..(1u32 << kind.bits()) {
        let (w, h) = (8usize, 4usize);
        let data = kind.encode(w, h, plane, &|_, _| code);
        let out = decode_full_tight(kind.format(), &data, w, h, c)?;
        let first = out[..bpp].to_vec();
        if out.chunks(bpp).any(|p| p != &first[..]) {
            return Err(format!("calibration: flat surface of code {code} does not decode flat"));
        }
        if t.insert(first, code).is_some() {
            return Err(format!("calibration: code {code} is not distinguishable in colour {color_idx}"));
        }
    }
    TABLES.with(|tt| tt.borrow_mut().insert((kind, plane, color_idx), t.clone()));
    Ok(t)
}

fn bitlen(x: usize) -> u32 {
    usize::BITS - x.leading_zeros()
}

const GARBAGE: u64 = u64::MAX;

/// Reads back, for every pixel of the view, the coordinate field `field(x, y)` of the source
/// pixel (or chroma sample) it was decoded from.  `maxv` = largest field value in the surface.
#[allow(clippy::too_many_arguments)]
fn read_back(
    kind: ProbeKind,
    plane: Plane,
    sw: usize,
    sh: usize,
    rect: Option<(usize, usize)>,
    v: ViewGeo,
    color_idx: usize,
    api: u32,
    maxv: usize,
    field: &dyn Fn(usize, usize) -> usize,
) -> Result<Vec<u64>, String> {
    let bits = kind.bits();
    let passes = (bitlen(maxv).div_ceil(bits)).max(1);
    let t = table(kind, plane, color_idx)?;
    let bpp = v.bpp();
    let mut acc = vec![0u64; v.w * v.h];
    for p in 0..passes {
        let data = kind.encode(sw, sh, plane, &|x, y| ((field(x, y) >> (p * bits)) as u32) & ((1 << bits) - 1));
        let buf = decode_into(kind.format(), &data, sw, sh, rect, v, 0x5A, api)?;
        for j in 0..v.h {
            for i in 0..v.w {
                let o = v.buf_off + j * v.pitch + i * bpp;
                let a = &mut acc[j * v.w + i];
                match t.get(&buf[o..o + bpp]) {
                    Some(code) if *a != GARBAGE => *a |= (*code as u64) << (p * bits),
                    _ => *a = GARBAGE,
                }
            }
        }
    }
    Ok(acc)
}

/// source map of the implementation: per view pixel the packed source coordinates
fn source_map(
    kind: ProbeKind,
    sw: usize,
    sh: usize,
    rect: Option<(usize, usize)>,
    v: ViewGeo,
    color_idx: usize,
    api: u32,
) -> Result<Vec<u64>, String> {
    let xs = read_back(kind, Plane::Main, sw, sh, rect, v, color_idx, api, sw - 1, &|x, _| x)?;
    let ys = read_back(kind, Plane::Main, sw, sh, rect, v, color_idx, api, sh - 1, &|_, y| y)?;
    let (cxs, cys) = if kind == ProbeKind::Nv12 {
        let cw = sw.div_ceil(2);
        let chh = sh.div_ceil(2);
        (
            read_back(kind, Plane::Chroma, sw, sh, rect, v, color_idx, api, cw - 1, &|x, _| x)?,
            read_back(kind, Plane::Chroma, sw, sh, rect, v, color_idx, api, chh - 1, &|_, y| y)?,
        )
    } else {
        (vec![0; xs.len()], vec![0; xs.len()])
    };
    Ok((0..xs.len())
        .map(|k| {
            if xs[k] == GARBAGE || ys[k] == GARBAGE || cxs[k] == GARBAGE || cys[k] == GARBAGE {
                GARBAGE
            } else {
                pack4(xs[k], ys[k], cxs[k], cys[k])
            }
        })
        .collect())
}

// ------------------------------------------------------------------------------------------
// one decode, observed

thread_local! {
    static FULL_CACHE: RefCell<Option<((usize, usize, usize, u64, usize), Vec<u8>)>> = RefCell::new(None);
}
fn cached_full(fi: usize, f: Format, data: &[u8], w: usize, h: usize, seed: u64, ci: usize) -> Result<Vec<u8>, String> {
    let key = (fi, w, h, seed, ci);
    if let Some(v) = FULL_CACHE.with(|c| c.borrow().as_ref().filter(|(k, _)| *k == key).map(|(_, v)| v.clone())) {
        return Ok(v);
    }
    let v = decode_full_tight(f, data, w, h, color_of(ci).unwrap())?;
    FULL_CACHE.with(|c| *c.borrow_mut() = Some((key, v.clone())));
    Ok(v)
}

#[allow(clippy::too_many_arguments)]
fn observe(
    name: &str,
    f: Format,
    sw: usize,
    sh: usize,
    rect: Option<(usize, usize)>,
    v: ViewGeo,
    ci: usize,
    api: u32,
    seed: u64,
) -> (String, Vec<String>) {
    let mut orc: Vec<String> = vec![];
    let fi = FORMATS.iter().position(|(n, _)| *n == name).unwrap();
    let data = random_bytes(seed, surface_bytes(f, sw, sh));
    let bpp = v.bpp();
    let (ox, oy) = rect.unwrap_or((0, 0));

    let full = match cached_full(fi, f, &data, sw, sh, seed, ci) {
        Ok(x) => x,
        Err(e) => return (format!("err full {e}"), vec![format!("full decode failed: {e}")]),
    };
    let mut bufs = vec![];
    for prefill in [0x00u8, 0xFF] {
        match decode_into(f, &data, sw, sh, rect, v, prefill, api) {
            Ok(b) => bufs.push(b),
            Err(e) => return (format!("err decode {e}"), vec![format!("decode failed: {e}")]),
        }
    }
    // (1) the addressed bytes equal the crop of the tight full decode, whatever pitch / alignment /
    //     previous contents; (2) everything else keeps its previous contents
    for (k, prefill) in [0x00u8, 0xFF].iter().enumerate() {
        let b = &bufs[k];
        'rows: for j in 0..v.h {
            let o = v.buf_off + j * v.pitch;
            let e = ((oy + j) * sw + ox) * bpp;
            if b[o..o + v.w * bpp] != full[e..e + v.w * bpp] {
                let i = (0..v.w * bpp).find(|i| b[o + i] != full[e + i]).unwrap() / bpp;
                orc.push(format!(
                    "pixel ({i},{j}) of the view differs from pixel ({},{}) of the full decode (prefill {prefill:#x}): {:?} vs {:?}",
                    ox + i, oy + j, &b[o + i * bpp..o + (i + 1) * bpp], &full[e + i * bpp..e + (i + 1) * bpp]
                ));
                break 'rows;
            }
        }
        let mut touched = None;
        for (i, x) in b.iter().enumerate() {
            if x == prefill {
                continue;
            }
            let inside = i >= v.buf_off && {
                let r = i - v.buf_off;
                r < v.addr_len() && r % v.pitch < v.w * bpp && r / v.pitch < v.h
            };
            if !inside {
                touched = Some(i);
                break;
            }
        }
        if let Some(i) = touched {
            orc.push(format!(
                "byte {i} of the buffer (view starts at {}, pitch {}, row bytes {}) is outside the addressed rows but was changed (prefill {prefill:#x})",
                v.buf_off, v.pitch, v.w * bpp
            ));
        }
    }
    // written set: bytes of the view that do not depend on the prefill
    let n = v.addr_len();
    let written: Vec<bool> = (0..n).map(|i| bufs[0][v.buf_off + i] == bufs[1][v.buf_off + i]).collect();
    let bsum = bytes_summary(&written);

    // (3) non-native channel layout == native layout of the same precision + documented mapping
    let color = v.color;
    let native_ch = f.channels();
    if color.channels != native_ch {
        let nc = ColorFormat::new(native_ch, color.precision);
        let nv = ViewGeo { w: v.w, h: v.h, pitch: v.w * nc.bytes_per_pixel() as usize, buf_off: 0, color: nc };
        match decode_into(f, &data, sw, sh, rect, nv, 0, 0) {
            Ok(nb) => {
                let mapped = map_channels(&nb[..nv.addr_len()], native_ch, color.channels, color.precision);
                for j in 0..v.h {
                    let o = v.buf_off + j * v.pitch;
                    let e = j * v.w * bpp;
                    if bufs[0][o..o + v.w * bpp] != mapped[e..e + v.w * bpp] {
                        orc.push(format!(
                            "row {j}: decode into {:?} differs from native {:?} decode + channel mapping",
                            color, nc
                        ));
                        break;
                    }
                }
            }
            Err(e) => orc.push(format!("native decode failed: {e}")),
        }
    }

    // (3b) ASTC (no probe possible through flat blocks): the U8 RGBA full decode must put pixel (px, py) of
    //      block (bx, by), decoded independently block by block with the astc-decode crate, at
    //      (bx*bw + px, by*bh + py).  This observes the position inside non-square blocks.
    if name.starts_with("ASTC") && rect.is_none() {
        if let Geo::Block { bw, bh, bytes } = geo_of(f) {
            match cached_full(fi, f, &data, sw, sh, seed, 3) {
                Ok(rgba) => {
                    let wb = sw.div_ceil(bw);
                    let fp = astc_decode::Footprint::new(bw as u32, bh as u32);
                    let mut bad: Option<(usize, usize)> = None;
                    for by in 0..sh.div_ceil(bh) {
                        for bx in 0..wb {
                            let o = (by * wb + bx) * bytes;
                            let blk: [u8; 16] = data[o..o + 16].try_into().unwrap();
                            astc_decode::astc_decode_block(&blk, fp, |x, y, c| {
                                let (gx, gy) = (bx * bw + x as usize, by * bh + y as usize);
                                if gx < sw && gy < sh && bad.is_none() && rgba[(gy * sw + gx) * 4..][..4] != c {
                                    bad = Some((gx, gy));
                                }
                            });
                        }
                    }
                    if let Some((x, y)) = bad {
                        orc.push(format!(
                            "ASTC: pixel ({x},{y}) of the full decode is not pixel ({},{}) of block ({},{}) decoded on its own",
                            x % bw, y % bh, x / bw, y / bh
                        ));
                    }
                }
                Err(e) => orc.push(format!("ASTC reference decode failed: {e}")),
            }
        }
    }

    // (4) probe formats: where did every pixel come from?
    let mut ssum = "sm=-".to_string();
    if let Some(kind) = probe_of(name) {
        if observable(native_ch, color.channels) {
            match source_map(kind, sw, sh, rect, v, ci, api) {
                Ok(map) => {
                    let mut h = FNV_INIT;
                    let mut un = 0;
                    let mut bad = None;
                    for j in 0..v.h {
                        for i in 0..v.w {
                            let wr = (0..bpp).all(|b| written[j * v.pitch + i * bpp + b]);
                            let m = if wr { map[j * v.w + i] } else { 0 };
                            if !wr {
                                un += 1;
                            }
                            h = fnv(h, m);
                            let (x, y) = ((ox + i) as u64, (oy + j) as u64);
                            let want = if kind == ProbeKind::Nv12 { pack4(x, y, x / 2, y / 2) } else { pack4(x, y, 0, 0) };
                            if m != want && bad.is_none() {
                                bad = Some((i, j, m));
                            }
                        }
                    }
                    if let Some((i, j, m)) = bad {
                        let d = m.wrapping_sub(1);
                        orc.push(format!(
                            "probe: view pixel ({i},{j}) should come from source pixel ({},{}) but came from {}",
                            ox + i,
                            oy + j,
                            if m == 0 { "nowhere (not written)".to_string() }
                            else if m == GARBAGE { "an unidentifiable source".to_string() }
                            else { format!("x={} y={} cx={} cy={}", d % 16384, (d >> 14) % 16384, (d >> 28) % 16384, d >> 42) }
                        ));
                    }
                    ssum = format!("sm={h} un={un} oob=0");
                }
                Err(e) => {
                    orc.push(format!("probe failed: {e}"));
                    ssum = format!("sm=err");
                }
            }
        }
    }
    (format!("ok {bsum} {ssum}"), orc)
}

fn locality(f: Format, w: usize, h: usize, ci: usize, seed: u64) -> (String, Vec<String>) {
    let c = color_of(ci).unwrap();
    let bpp = c.bytes_per_pixel() as usize;
    let data = random_bytes(seed, surface_bytes(f, w, h));
    let a = match decode_full_tight(f, &data, w, h, c) {
        Ok(x) => x,
        Err(e) => return (format!("err {e}"), vec![e]),
    };
    let mut r = Rng::new(seed ^ 0x10CA1);
    // (byte offset, byte len, footprint x0, y0, x1, y1)
    let (off, len, x0, y0, x1, y1) = match geo_of(f) {
        Geo::Pixel { bytes } => {
            let (x, y) = (r.below(w as u64) as usize, r.below(h as u64) as usize);
            ((y * w + x) * bytes, bytes, x, y, x + 1, y + 1)
        }
        Geo::Block { bw, bh, bytes } => {
            let (wb, hb) = (w.div_ceil(bw), h.div_ceil(bh));
            let (bx, by) = (r.below(wb as u64) as usize, r.below(hb as u64) as usize);
            ((by * wb + bx) * bytes, bytes, bx * bw, by * bh, (bx + 1) * bw, (by + 1) * bh)
        }
        Geo::Planar { p1, p2, ssx, ssy } => {
            if r.chance(1, 2) {
                let (x, y) = (r.below(w as u64) as usize, r.below(h as u64) as usize);
                ((y * w + x) * p1, p1, x, y, x + 1, y + 1)
            } else {
                let (cw, chh) = (w.div_ceil(ssx), h.div_ceil(ssy));
                let (cx, cy) = (r.below(cw as u64) as usize, r.below(chh as u64) as usize);
                (w * h * p1 + (cy * cw + cx) * p2, p2, cx * ssx, cy * ssy, (cx + 1) * ssx, (cy + 1) * ssy)
            }
        }
    };
    let mut data2 = data.clone();
    for b in &mut data2[off..off + len] {
        *b ^= (r.below(255) + 1) as u8;
    }
    let b = match decode_full_tight(f, &data2, w, h, c) {
        Ok(x) => x,
        Err(e) => return (format!("err {e}"), vec![e]),
    };
    let mut orc = vec![];
    'o: for y in 0..h {
        for x in 0..w {
            let inside = x >= x0 && x < x1 && y >= y0 && y < y1;
            let o = (y * w + x) * bpp;
            if !inside && a[o..o + bpp] != b[o..o + bpp] {
                orc.push(format!(
                    "pixel ({x},{y}) changed although only the encoded unit covering [{x0},{x1})x[{y0},{y1}) was modified"
                ));
                break 'o;
            }
        }
    }
    ("ok".to_string(), orc)
}

pub fn run(line: &str) -> Option<(String, Vec<String>)> {
    let t = toks(line);
    match t.as_slice() {
        ["R", name, rest @ ..] if rest.len() == 11 => {
            let f = format_of(name)?;
            let n: Vec<usize> = rest[..10].iter().map(|s| p_usize(s)).collect::<Option<_>>()?;
            let seed = p_u64(rest[10])?;
            let (sw, sh, ox, oy, w, h, ci, pitch, buf_off, api) = (n[0], n[1], n[2], n[3], n[4], n[5], n[6], n[7], n[8], n[9]);
            let color = color_of(ci)?;
            if w == 0 || h == 0 || ox + w > sw || oy + h > sh || pitch < w * color.bytes_per_pixel() as usize {
                return None;
            }
            let v = ViewGeo { w, h, pitch, buf_off, color };
            Some(observe(name, f, sw, sh, Some((ox, oy)), v, ci, api as u32, seed))
        }
        ["F", name, rest @ ..] if rest.len() == 6 => {
            let f = format_of(name)?;
            let n: Vec<usize> = rest[..5].iter().map(|s| p_usize(s)).collect::<Option<_>>()?;
            let seed = p_u64(rest[5])?;
            let (sw, sh, ci, pitch, buf_off) = (n[0], n[1], n[2], n[3], n[4]);
            let color = color_of(ci)?;
            if sw == 0 || sh == 0 || pitch < sw * color.bytes_per_pixel() as usize {
                return None;
            }
            let v = ViewGeo { w: sw, h: sh, pitch, buf_off, color };
            Some(observe(name, f, sw, sh, None, v, ci, (seed % 2) as u32, seed))
        }
        ["L", name, rest @ ..] if rest.len() == 4 => {
            let f = format_of(name)?;
            let (w, h, ci) = (p_usize(rest[0])?, p_usize(rest[1])?, p_usize(rest[2])?);
            let seed = p_u64(rest[3])?;
            if w == 0 || h == 0 || ci >= 12 {
                return None;
            }
            Some(locality(f, w, h, ci, seed))
        }
        _ => None,
    }
}

// ------------------------------------------------------------------------------------------
// generator

const PROBES: [&str; 5] = ["R8G8B8A8_UNORM", "BC4_UNORM", "R1_UNORM", "YUY2", "NV12"];

fn pitch_for(mode: u64, min: usize) -> usize {
    match mode % 4 {
        0 => min,
        1 => min + 1,
        2 => min + 7,
        _ => 2 * min,
    }
}

struct Gen {
    rng: Rng,
    out: Vec<String>,
}
impl Gen {
    fn bpp(ci: usize) -> usize {
        color_of(ci).unwrap().bytes_per_pixel() as usize
    }
    #[allow(clippy::too_many_arguments)]
    fn rect(&mut self, name: &str, sw: usize, sh: usize, ox: usize, oy: usize, w: usize, h: usize, ci: usize, seed: u64) {
        let pitch = pitch_for(self.rng.next(), w * Self::bpp(ci));
        let buf_off = self.rng.below(4);
        let api = if self.rng.chance(1, 8) { 1 } else { 0 };
        self.out.push(format!("R {name} {sw} {sh} {ox} {oy} {w} {h} {ci} {pitch} {buf_off} {api} {seed}"));
    }
    fn full(&mut self, name: &str, sw: usize, sh: usize, ci: usize, seed: u64) {
        let pitch = pitch_for(self.rng.next(), sw * Self::bpp(ci));
        let buf_off = self.rng.below(4);
        self.out.push(format!("F {name} {sw} {sh} {ci} {pitch} {buf_off} {seed}"));
    }
    /// a random rectangle of one of the classes of the property's quantifier
    fn random_rect(&mut self, sw: usize, sh: usize, bw: usize, bh: usize) -> (usize, usize, usize, usize) {
        let r = &mut self.rng;
        let span = |r: &mut Rng, n: usize| -> (usize, usize) {
            let o = r.below(n as u64) as usize;
            let l = 1 + r.below((n - o) as u64) as usize;
            (o, l)
        };
        match r.below(9) {
            0 => {
                // 1x1
                (r.below(sw as u64) as usize, r.below(sh as u64) as usize, 1, 1)
            }
            1 => {
                let (ox, w) = span(r, sw);
                (ox, r.below(sh as u64) as usize, w, 1)
            }
            2 => {
                let (oy, h) = span(r, sh);
                (r.below(sw as u64) as usize, oy, 1, h)
            }
            3 => (0, 0, sw, sh),
            4 => {
                // touches the right / bottom edge
                let ox = r.below(sw as u64) as usize;
                let oy = r.below(sh as u64) as usize;
                (ox, oy, sw - ox, sh - oy)
            }
            5 => {
                // block aligned offset
                let ox = (r.below(sw as u64) as usize) / bw * bw;
                let oy = (r.below(sh as u64) as usize) / bh * bh;
                let w = 1 + r.below((sw - ox) as u64) as usize;
                let h = 1 + r.below((sh - oy) as u64) as usize;
                (ox, oy, w, h)
            }
            6 => {
                // inside one unit / one line of units
                let ox = r.below(sw as u64) as usize;
                let oy = r.below(sh as u64) as usize;
                let w = 1 + r.below(bw.min(sw - ox) as u64) as usize;
                let h = 1 + r.below(bh.min(sh - oy) as u64) as usize;
                (ox, oy, w, h)
            }
            _ => {
                let (ox, w) = span(r, sw);
                let (oy, h) = span(r, sh);
                (ox, oy, w, h)
            }
        }
    }
}

fn unit_size(f: Format) -> (usize, usize) {
    match geo_of(f) {
        Geo::Pixel { .. } => (1, 1),
        Geo::Block { bw, bh, .. } => (bw, bh),
        Geo::Planar { ssx, ssy, .. } => (ssx, ssy),
    }
}

pub fn gen(seed: u64, thorough: bool) -> Vec<String> {
    let mut g = Gen { rng: Rng::new(seed), out: vec![] };

    // (a) all rectangles of tiny surfaces, probe formats (one colour per surface, cycling)
    let tiny: &[(&str, &[(usize, usize)])] = &[
        ("R8G8B8A8_UNORM", &[(1, 1), (2, 3), (4, 3), (5, 5)]),
        ("YUY2", &[(1, 1), (2, 2), (3, 2), (5, 3), (6, 2)]),
        ("NV12", &[(1, 1), (2, 2), (3, 3), (5, 4), (4, 5)]),
        ("R1_UNORM", &[(1, 1), (7, 2), (8, 1), (9, 2), (17, 1)]),
        ("BC4_UNORM", &[(1, 1), (3, 5), (4, 4), (5, 5), (9, 6), (8, 8)]),
        ("ASTC_5X4_UNORM", &[(6, 5), (11, 4)]),
        ("BC1_UNORM", &[(5, 9)]),
    ];
    let mut cyc = 0usize;
    for (name, sizes) in tiny {
        for &(sw, sh) in sizes.iter() {
            let reps = if thorough { 24 } else { 2 };
            for _ in 0..reps {
                let ci = cyc % 12;
                cyc += 5;
                let s = g.rng.below(1 << 20);
                for oy in 0..sh {
                    for h in 1..=sh - oy {
                        for ox in 0..sw {
                            for w in 1..=sw - ox {
                                g.rect(name, sw, sh, ox, oy, w, h, ci, s);
                            }
                        }
                    }
                }
            }
        }
    }

    // (b) every format: widths and heights 1..=70 (all residues of every block size), all rect
    //     classes, all 12 colours, pitches, offsets
    let per_dim = if thorough { 120 } else { 8 };
    for round in 0..per_dim {
        for (fi, (name, f)) in FORMATS.iter().enumerate() {
            let (bw, bh) = unit_size(*f);
            let weight = if PROBES.contains(name) { 2 } else { 1 };
            for k in 1..=70usize {
                for _ in 0..weight {
                    // width k with a random height, height k with a random width
                    for flip in 0..2 {
                        if !thorough && (k + fi + flip) % 2 == 1 && !PROBES.contains(name) && k > 26 {
                            // quick tier: half of the large sizes per non-probe format
                            continue;
                        }
                        let bound = if g.rng.chance(1, 3) { 70 } else { 24 };
                        let other = 1 + g.rng.below(bound) as usize;
                        let (sw, sh) = if flip == 0 { (k, other) } else { (other, k) };
                        let ci = g.rng.below(12) as usize;
                        let s = g.rng.below(1 << 20) + round as u64;
                        let (ox, oy, w, h) = g.random_rect(sw, sh, bw, bh);
                        g.rect(name, sw, sh, ox, oy, w, h, ci, s);
                    }
                }
            }
        }
    }

    // (c) wide surfaces: crossing the 3072-byte conversion buffer and the 64 KiB line buffer
    let wide: &[(&str, &[usize])] = &[
        ("R8G8B8A8_UNORM", &[191, 192, 193, 385, 767, 768, 769, 1537, 2047, 2048, 2049, 4097, 8193, 16385]),
        ("R32G32B32A32_FLOAT", &[191, 193, 2047, 2048, 2049, 4095, 4096, 4097]),
        ("R8_UNORM", &[3071, 3072, 3073, 6145]),
        ("A8_UNORM", &[3073]),
        ("R16G16_FLOAT", &[255, 256, 257, 513]),
        ("R32G32B32_FLOAT", &[255, 256, 257]),
        ("BC4_UNORM", &[189, 191, 192, 193, 197, 383, 385, 765, 768, 771, 1539]),
        ("BC1_UNORM", &[47, 48, 49, 95, 97, 191, 193, 32772]),
        ("BC3_UNORM", &[193, 255, 257]),
        ("BC6H_UF16", &[65, 129, 255, 257]),
        ("R1_UNORM", &[767, 768, 769, 1537, 3071, 3073, 3080]),
        ("YUY2", &[255, 256, 257, 341, 1023, 1025, 2049]),
        ("Y216", &[257, 1025]),
        ("NV12", &[255, 256, 257, 341, 513, 1023, 1024, 1025, 2049]),
        ("P016", &[257, 1025]),
        ("ASTC_12X12_UNORM", &[13, 25, 61, 193]),
        ("ASTC_10X5_UNORM", &[31, 61, 101, 1021]),
        ("ASTC_5X5_UNORM", &[151, 153, 611]),
    ];
    for (name, widths) in wide {
        let f = format_of(name).unwrap();
        let (bw, bh) = unit_size(f);
        for &sw in widths.iter() {
            if sw > 9000 && !thorough && *name != "BC1_UNORM" && sw != 16385 {
                continue;
            }
            let reps = if thorough { 12 } else if sw > 3000 { 2 } else { 6 };
            for rep in 0..reps {
                let sh = 1 + g.rng.below(if sw > 3000 { 5 } else { 11 }) as usize;
                let ci = if rep < 3 { [3usize, 8, 10][rep] } else { g.rng.below(12) as usize };
                let s = g.rng.below(1 << 20);
                let (ox, oy, w, h) = if rep % 3 == 0 {
                    // wide rect starting unaligned
                    let ox = 1 + g.rng.below(bw.max(2) as u64) as usize;
                    (ox.min(sw - 1), 0, sw - ox.min(sw - 1), sh)
                } else {
                    g.random_rect(sw, sh, bw, bh)
                };
                g.rect(name, sw, sh, ox, oy, w, h, ci, s);
                if rep % 4 == 1 {
                    g.full(name, sw, sh, ci, s);
                }
            }
        }
    }

    // (c2) tall surfaces: rect heights crossing 256 and 65536 rows (u8 / u16 row counters inside a block line)
    let tall: &[(&str, &[usize])] = &[
        ("BC1_UNORM", &[257, 300, 515, 65541]),
        ("BC4_UNORM", &[259, 300, 70003]),
        ("ASTC_6X5_UNORM", &[261, 300]),
        ("ASTC_12X12_UNORM", &[267, 301]),
        ("YUY2", &[257, 300, 65537]),
        ("R1_UNORM", &[258, 300]),
        ("NV12", &[258, 301, 65538]),
        ("R8G8B8A8_UNORM", &[257, 300, 65537]),
        ("R8_UNORM", &[300]),
    ];
    for (name, heights) in tall {
        let f = format_of(name).unwrap();
        let (_bw, bh) = unit_size(f);
        for &sh in heights.iter() {
            if sh > 60000 && !thorough && *name != "BC1_UNORM" && *name != "NV12" {
                continue;
            }
            let reps = if thorough { 10 } else { 4 };
            for rep in 0..reps {
                let sw = 1 + g.rng.below(9) as usize;
                let ci = if rep < 2 { [3usize, 8][rep] } else { g.rng.below(12) as usize };
                let s = g.rng.below(1 << 20);
                // rect heights around the wrap points, at every in-block row offset
                let oy = g.rng.below(bh.max(1) as u64 + 2) as usize;
                let base = if sh > 60000 && rep % 2 == 0 { 65536 } else { 256 };
                let h = (base + rep).saturating_sub(oy % bh.max(1)).min(sh - oy).max(1);
                let ox = g.rng.below(sw as u64) as usize;
                let w = 1 + g.rng.below((sw - ox) as u64) as usize;
                g.rect(name, sw, sh, ox, oy, w, h, ci, s);
                if rep == 0 {
                    g.full(name, sw, sh, ci, s);
                }
            }
        }
    }

    // (d) full decodes into pitched views: every format x 12 colours (COPY fast paths included)
    for (name, _) in FORMATS.iter() {
        for ci in 0..12usize {
            let reps = if thorough { 30 } else if PROBES.contains(name) { 6 } else { 3 };
            for _ in 0..reps {
                let b1 = if g.rng.chance(1, 4) { 70 } else { 20 };
                let sw = 1 + g.rng.below(b1) as usize;
                let b2 = if g.rng.chance(1, 4) { 70 } else { 14 };
                let sh = 1 + g.rng.below(b2) as usize;
                let s = g.rng.below(1 << 20);
                g.full(name, sw, sh, ci, s);
            }
        }
    }

    // (d2) native colour (whole-image COPY fast paths where they exist) x every pitch mode x offsets
    for (name, f) in FORMATS.iter() {
        let nc = f.color();
        let ci = PRECISIONS.iter().position(|p| *p == nc.precision).unwrap() * 4 + ch_idx(nc.channels);
        for mode in 0..4u64 {
            for rep in 0..(if thorough { 6 } else { 2 }) {
                let sw = 1 + g.rng.below(if rep == 0 { 9 } else { 40 }) as usize;
                let sh = 2 + g.rng.below(12) as usize;
                let pitch = pitch_for(mode, sw * Gen::bpp(ci));
                let buf_off = g.rng.below(4);
                let s = g.rng.below(1 << 20);
                g.out.push(format!("F {name} {sw} {sh} {ci} {pitch} {buf_off} {s}"));
            }
        }
    }

    // (e) locality
    for (name, _) in FORMATS.iter() {
        let reps = if thorough { 200 } else { 12 };
        for _ in 0..reps {
            let sw = 1 + g.rng.below(40) as usize;
            let sh = 1 + g.rng.below(30) as usize;
            let ci = g.rng.below(12);
            let s = g.rng.below(1 << 20);
            g.out.push(format!("L {name} {sw} {sh} {ci} {s}"));
        }
    }
    let _ = p_u32;
    g.out
}
