//! C11 (and the byte accounting of C10): the encoder accepts surfaces only in layout order.
//!
//! `E <kind> <w> <h> <d|-> <mips> <px> <format> <mulW> <mulH> <op>...`
//! ops: w:W:H (write_surface)  k:W:H (write with a cancelled token)  g:0|1 (mipmaps.generate)  f (finish, last)
use crate::c02::{kind_parse, make_header, Kind, Px};
use crate::c08::{build_spec, Spec};
use crate::common::*;
use dds::header::*;
use dds::*;
use std::cell::RefCell;
use std::io::Write;
use std::rc::Rc;

/// the sink; `1` = the most bytes one `write` call accepts (short writes are legal for any `Write`; the
/// default `write_vectored` then forwards only the first non-empty buffer). The model does not depend on it.
#[derive(Clone)]
struct SharedVec(Rc<RefCell<Vec<u8>>>, usize);
impl Write for SharedVec {
    fn write(&mut self, buf: &[u8]) -> std::io::Result<usize> {
        let n = buf.len().min(self.1);
        self.0.borrow_mut().extend_from_slice(&buf[..n]);
        Ok(n)
    }
    fn flush(&mut self) -> std::io::Result<()> {
        Ok(())
    }
}

pub const FORMATS: &[(&str, Format, Px, u32, u32)] = &[
    ("R8G8B8A8_UNORM", Format::R8G8B8A8_UNORM, Px::F(4), 1, 1),
    ("BC1_UNORM", Format::BC1_UNORM, Px::B(8, 4, 4), 1, 1),
    ("R8G8_B8G8_UNORM", Format::R8G8_B8G8_UNORM, Px::B(4, 2, 1), 1, 1),
    ("NV12", Format::NV12, Px::P(1, 2, 2, 2), 2, 2),
    ("R8_UNORM", Format::R8_UNORM, Px::F(1), 1, 1),
    ("BC4_UNORM", Format::BC4_UNORM, Px::B(8, 4, 4), 1, 1),
    ("P010", Format::P010, Px::P(2, 4, 2, 2), 2, 2),
];

#[derive(Clone, Debug)]
enum Op {
    Write(u32, u32),
    Cancelled(u32, u32),
    Gen(bool),
    Finish,
}
impl Op {
    fn fmt(&self) -> String {
        match self {
            Op::Write(w, h) => format!("w:{w}:{h}"),
            Op::Cancelled(w, h) => format!("k:{w}:{h}"),
            Op::Gen(b) => format!("g:{}", *b as u8),
            Op::Finish => "f".into(),
        }
    }
    fn parse(s: &str) -> Option<Op> {
        let p: Vec<&str> = s.split(':').collect();
        let n = |i: usize| -> Option<u32> { p.get(i)?.parse().ok() };
        Some(match p[0] {
            "w" => Op::Write(n(1)?, n(2)?),
            "k" => Op::Cancelled(n(1)?, n(2)?),
            "g" => Op::Gen(n(1)? == 1),
            "f" => Op::Finish,
            _ => return None,
        })
    }
}

/// the specification: cursor over the flattened list + byte count
struct SpecEnc<'a> {
    spec: &'a Spec,
    k: usize,
    written: u64,
    generate: bool,
    mul: (u32, u32),
}
impl<'a> SpecEnc<'a> {
    fn size_ok(&self, w: u32, h: u32) -> bool {
        w % self.mul.0 == 0 && h % self.mul.1 == 0
    }
    /// Every ground for rejection that applies to the call. The property names the grounds (wrong size, too many
    /// surfaces, already cancelled) but not which one is reported when several apply, so any of them is accepted.
    fn grounds(&self, op: &Op) -> Vec<&'static str> {
        let n = self.spec.flat.len();
        let mut g = vec![];
        if let Op::Write(w, h) | Op::Cancelled(w, h) = op {
            if matches!(op, Op::Cancelled(..)) {
                g.push("Cancelled");
            }
            if self.k >= n {
                g.push("TooManySurfaces");
            } else {
                let (w, h) = if *w == 0 || *h == 0 { (0, 0) } else { (*w, *h) };
                let s = &self.spec.flat[self.k];
                if (s.w, s.h) != (w, h) {
                    g.push("UnexpectedSurfaceSize");
                } else if !self.size_ok(s.w, s.h) || self.gen_fail_index().is_some() {
                    // the surface itself, or a level that would have to be generated after it, has a size the
                    // format cannot encode
                    g.push("InvalidSize");
                }
            }
        }
        g
    }
    /// index of the first level that would be generated after the current surface and whose size the format cannot
    /// encode (None: generation off, a volume, or every generated level is encodable)
    fn gen_fail_index(&self) -> Option<usize> {
        let n = self.spec.flat.len();
        if !self.generate || self.spec.is_volume || self.k >= n {
            return None;
        }
        let mut j = self.k + 1;
        while j < n && self.spec.flat[j].level != 0 {
            if !self.size_ok(self.spec.flat[j].w, self.spec.flat[j].h) {
                return Some(j);
            }
            j += 1;
        }
        None
    }
    fn offset_of(&self, k: usize) -> u64 {
        self.spec.flat[..k].iter().map(|s| s.len).sum()
    }
    fn step(&mut self, op: &Op) -> String {
        let n = self.spec.flat.len();
        match op {
            Op::Gen(b) => {
                self.generate = *b;
                "ok".into()
            }
            Op::Finish => {
                if self.k == n {
                    "ok".into()
                } else {
                    "MissingSurfaces".into()
                }
            }
            Op::Write(w, h) | Op::Cancelled(w, h) => {
                if self.k >= n {
                    return "TooManySurfaces".into();
                }
                let (w, h) = if *w == 0 || *h == 0 { (0, 0) } else { (*w, *h) };
                let s = self.spec.flat[self.k].clone();
                if (s.w, s.h) != (w, h) {
                    return "UnexpectedSurfaceSize".into();
                }
                if matches!(op, Op::Cancelled(..)) {
                    return "Cancelled".into();
                }
                if !self.size_ok(s.w, s.h) {
                    return "InvalidSize".into();
                }
                self.written += s.len;
                self.k += 1;
                if self.generate && !self.spec.is_volume {
                    // the remaining mip levels of the same element are generated
                    while self.k < n && self.spec.flat[self.k].level != 0 {
                        let m = self.spec.flat[self.k].clone();
                        if !self.size_ok(m.w, m.h) {
                            return "InvalidSize".into();
                        }
                        self.written += m.len;
                        self.k += 1;
                    }
                }
                "ok".into()
            }
        }
    }
    fn info(&self) -> String {
        if self.k < self.spec.flat.len() {
            let s = &self.spec.flat[self.k];
            format!("{},{},{},{} more", s.w, s.h, s.len, (s.level != 0) as u8)
        } else {
            "- done".into()
        }
    }
}

struct LayoutSpec {
    kind: Kind,
    w: u32,
    h: u32,
    d: Option<u32>,
    mips: u32,
    /// exhaustive call trees (small layouts) or only walks + random sequences (large / long ones)
    tree: bool,
}

fn layouts() -> Vec<LayoutSpec> {
    let mut v = vec![];
    let mut push = |kind: Kind, w, h, d, mips| v.push(LayoutSpec { kind, w, h, d, mips, tree: true });
    let tex = Kind::Dx10 { cube: false, dim: 2, array: 1 };
    push(tex.clone(), 4, 4, None, 1);
    push(tex.clone(), 8, 4, None, 3);
    push(tex.clone(), 8, 8, None, 4);
    push(tex.clone(), 6, 2, None, 2);
    push(tex.clone(), 5, 3, None, 3);
    push(tex.clone(), 1, 1, None, 1);
    push(Kind::Dx10 { cube: false, dim: 2, array: 2 }, 4, 4, None, 1);
    push(Kind::Dx10 { cube: false, dim: 2, array: 3 }, 4, 8, None, 3);
    push(Kind::Dx10 { cube: false, dim: 2, array: 0 }, 4, 4, None, 2);
    push(Kind::Dx10 { cube: true, dim: 2, array: 1 }, 4, 4, None, 1);
    push(Kind::Dx10 { cube: true, dim: 2, array: 1 }, 4, 4, None, 3);
    push(Kind::Dx9 { caps2: 0x200 | (0b101101 << 10) }, 2, 2, None, 2);
    push(Kind::Dx10 { cube: false, dim: 3, array: 1 }, 4, 4, Some(1), 1);
    push(Kind::Dx10 { cube: false, dim: 3, array: 1 }, 4, 4, Some(3), 1);
    push(Kind::Dx10 { cube: false, dim: 3, array: 1 }, 4, 2, Some(4), 3);
    push(Kind::Dx9 { caps2: 0x200000 }, 2, 2, Some(2), 2);
    // seeds C11g / C11h: surfaces large enough to be split into fragments by the parallel encoder, and mip chains
    // longer than 32 levels (legal up to 255; every level >= 31 is 1x1(x1)) — walks and random sequences only
    let mut big = |kind: Kind, w, h, d, mips| v.push(LayoutSpec { kind, w, h, d, mips, tree: false });
    big(tex.clone(), 128, 128, None, 1);
    big(Kind::Dx10 { cube: false, dim: 2, array: 2 }, 192, 96, None, 2);
    big(tex.clone(), 3, 2, None, 36);
    big(Kind::Dx10 { cube: true, dim: 2, array: 1 }, 2, 2, None, 34);
    big(Kind::Dx10 { cube: false, dim: 3, array: 1 }, 4, 2, Some(2), 40);
    big(Kind::Dx10 { cube: false, dim: 3, array: 1 }, 1, 1, Some(3), 255);
    big(Kind::Dx9 { caps2: 0x200000 }, 2, 6, Some(5), 35);
    v
}

fn variants(spec: &Spec, k: usize, rng: &mut Rng, errors: bool) -> Vec<Op> {
    let (cw, ch) = if k < spec.flat.len() { (spec.flat[k].w, spec.flat[k].h) } else { (1, 1) };
    let mut v = vec![Op::Write(cw, ch), Op::Write(cw + 1, ch), Op::Cancelled(cw, ch), Op::Gen(false), Op::Gen(true)];
    if errors {
        v.push(Op::Write(ch.wrapping_add(3), cw));
        v.push(Op::Write(0, ch));
        v.push(Op::Cancelled(cw + 2, ch));
        v.push(Op::Write(cw, ch));
        v.push(Op::Write(cw, ch));
        let _ = rng;
    }
    v
}

pub fn gen(seed: u64, thorough: bool) -> Vec<String> {
    let mut rng = Rng::new(seed);
    let mut out = vec![];
    let depth = if thorough { 6 } else { 4 };
    for (li, l) in layouts().iter().enumerate() {
        for (fi, (fname, fmt, px, mw, mh)) in FORMATS.iter().enumerate() {
            if !thorough && (li + fi) % 2 == 1 && fi > 3 {
                continue;
            }
            // only consistent pairs: the header kind must be able to name the format (the property quantifies over
            // layouts x formats, not over headers that announce another pixel format than the one encoded)
            let expressible = match &l.kind {
                Kind::Dx10 { .. } => DxgiFormat::try_from(*fmt).is_ok(),
                Kind::Dx9 { .. } => Header::new_image(1, 1, *fmt).to_dx9().is_some(),
            };
            if !expressible {
                continue;
            }
            let spec = build_spec(&l.kind, l.w, l.h, l.d, l.mips, *px);
            let head = format!(
                "E {} {} {} {} {} {} {} {} {}",
                match &l.kind {
                    Kind::Dx10 { cube, dim, array } => format!("x:{}:{}:{}", *cube as u8, dim, array),
                    Kind::Dx9 { caps2 } => format!("n:{caps2}"),
                },
                l.w,
                l.h,
                l.d.map(|x| x.to_string()).unwrap_or("-".into()),
                l.mips,
                px.fmt(),
                fname,
                mw,
                mh
            );
            // exhaustive trees over the 5 call kinds (finish appended to every leaf and every second inner node)
            let mut stack: Vec<(SpecState, Vec<Op>)> = vec![(SpecState { k: 0, written: 0, generate: true }, vec![])];
            if !l.tree {
                stack.clear();
            }
            // walks: every surface of the layout written in order (generation off / on), finish; and walks with one
            // disturbing call (wrong size, cancelled, option change) inserted somewhere
            for variant in 0..(if l.tree { 3 } else { 6 }) {
                let mut se = SpecEnc { spec: &spec, k: 0, written: 0, generate: true, mul: (*mw, *mh) };
                let mut seq = vec![];
                if variant % 2 == 0 {
                    seq.push(Op::Gen(false));
                    se.step(&Op::Gen(false));
                }
                let disturb = if variant >= 2 { Some(rng.below(spec.flat.len() as u64 + 1) as usize) } else { None };
                let mut guard = 0;
                while se.k < spec.flat.len() && guard < 2000 {
                    guard += 1;
                    if Some(se.k) == disturb && guard < 1900 {
                        let vs = variants(&spec, se.k, &mut rng, true);
                        let op = vs[1 + rng.below(vs.len() as u64 - 1) as usize].clone();
                        se.step(&op);
                        seq.push(op);
                        guard = 1900;
                        continue;
                    }
                    let k0 = se.k;
                    let op = Op::Write(spec.flat[se.k].w, spec.flat[se.k].h);
                    se.step(&op);
                    seq.push(op);
                    if se.k == k0 {
                        break; // a surface the format cannot take (size multiple): the walk ends here
                    }
                }
                seq.push(Op::Finish);
                out.push(format!("{} {}", head, seq.iter().map(|o| o.fmt()).collect::<Vec<_>>().join(" ")));
            }
            while let Some((st, seq)) = stack.pop() {
                if seq.len() == depth {
                    let mut s = seq.clone();
                    s.push(Op::Finish);
                    out.push(format!("{} {}", head, s.iter().map(|o| o.fmt()).collect::<Vec<_>>().join(" ")));
                    continue;
                }
                for op in variants(&spec, st.k, &mut rng, false) {
                    let mut se = SpecEnc { spec: &spec, k: st.k, written: st.written, generate: st.generate, mul: (*mw, *mh) };
                    se.step(&op);
                    let mut s2 = seq.clone();
                    s2.push(op);
                    stack.push((SpecState { k: se.k, written: se.written, generate: se.generate }, s2));
                }
            }
            let nrand = if !l.tree { if thorough { 40 } else { 6 } } else if thorough { 300 } else { 40 };
            for _ in 0..nrand {
                let len = rng.range(3, 30) as usize;
                let mut se = SpecEnc { spec: &spec, k: 0, written: 0, generate: true, mul: (*mw, *mh) };
                let mut seq = vec![];
                for _ in 0..len {
                    let vs = variants(&spec, se.k, &mut rng, true);
                    let op = rng.pick(&vs).clone();
                    se.step(&op);
                    seq.push(op);
                }
                if rng.chance(2, 3) {
                    seq.push(Op::Finish);
                }
                out.push(format!("{} {}", head, seq.iter().map(|o| o.fmt()).collect::<Vec<_>>().join(" ")));
            }
        }
    }
    out
}
struct SpecState {
    k: usize,
    written: u64,
    generate: bool,
}

fn err_name(e: &EncodingError) -> String {
    match e {
        EncodingError::TooManySurfaces => "TooManySurfaces".into(),
        EncodingError::UnexpectedSurfaceSize => "UnexpectedSurfaceSize".into(),
        EncodingError::MissingSurfaces => "MissingSurfaces".into(),
        EncodingError::Cancelled => "Cancelled".into(),
        EncodingError::InvalidSize(..) => "InvalidSize".into(),
        EncodingError::UnsupportedFormat(_) => "UnsupportedFormat".into(),
        EncodingError::Layout(e) => format!("err {}", crate::c02::err_name(e)),
        EncodingError::Io(_) => "Io".into(),
        _ => "Other".into(),
    }
}

pub fn run(line: &str) -> Option<(String, Vec<String>)> {
    let t = toks(line);
    if t.len() < 10 || t[0] != "E" {
        return None;
    }
    let kind = kind_parse(t[1])?;
    let w = p_u32(t[2])?;
    let h = p_u32(t[3])?;
    let d = if t[4] == "-" { None } else { Some(p_u32(t[4])?) };
    let mips = p_u32(t[5])?;
    let px = Px::parse(t[6])?;
    let (_, format, fpx, fmw, fmh) = *FORMATS.iter().find(|f| f.0 == t[7])?;
    let (mw, mh) = (p_u32(t[8])?, p_u32(t[9])?);
    if fpx != px || (fmw, fmh) != (mw, mh) {
        return None;
    }
    let mut ops = vec![];
    for o in &t[10..] {
        ops.push(Op::parse(o)?);
    }
    let mut oracle = vec![];
    // the size multiple the library advertises must be the one of the case line
    let adv = format.encoding_support().and_then(|s| s.size_multiple()).map(|(a, b)| (a.get(), b.get())).unwrap_or((1, 1));
    if adv != (mw, mh) {
        oracle.push(format!("format advertises size multiple {:?}, case says {:?}", adv, (mw, mh)));
    }
    let mut header = make_header(&kind, w, h, d, mips)?;
    // give the header the pixel format of `format` where the header kind can express it
    let mut header_has_format = true;
    match &mut header {
        Header::Dx10(h10) => match DxgiFormat::try_from(format) {
            Ok(f) => h10.dxgi_format = f,
            Err(_) => header_has_format = false,
        },
        Header::Dx9(h9) => match Header::new_image(1, 1, format).to_dx9() {
            Some(x) => h9.pixel_format = x.pixel_format,
            None => header_has_format = false,
        },
    }
    let header_len = 4 + header.byte_len() as u64;
    // writer behaviour and the parallel switch are derived from the case line (a pure function of it, so a replay
    // reproduces them); the byte accounting of the property does not depend on either
    let hash = line.bytes().fold(0xcbf29ce484222325u64, |a, b| (a ^ b as u64).wrapping_mul(0x100000001b3));
    let limit = [usize::MAX, usize::MAX, 1000, 7, 4096, 100][(hash % 6) as usize];
    let parallel = (hash >> 11) % 2 == 1;
    let sink = SharedVec(Rc::new(RefCell::new(Vec::new())), limit);
    let mut enc = match Encoder::new(sink.clone(), format, &header) {
        Ok(e) => Some(e),
        Err(e) => return Some((err_name(&e), oracle)),
    };
    {
        let e = enc.as_mut().unwrap();
        e.options.quality = CompressionQuality::Fast;
        e.options.parallel = parallel;
    }
    let spec = build_spec(&kind, w, h, d, mips, px);
    let mut se = SpecEnc { spec: &spec, k: 0, written: 0, generate: true, mul: (mw, mh) };
    let data_written = |s: &SharedVec| -> i64 { s.0.borrow().len() as i64 - header_len as i64 };
    let info = |e: &Encoder<SharedVec>| -> String {
        match e.surface_info() {
            Some(s) => format!(
                "{},{},{},{} {}",
                s.size().width,
                s.size().height,
                s.data_len(),
                s.is_mipmap() as u8,
                if e.is_done() { "done" } else { "more" }
            ),
            None => format!("- {}", if e.is_done() { "done" } else { "more" }),
        }
    };
    let mut parts = vec![format!("new {} {}", info(enc.as_ref().unwrap()), data_written(&sink))];
    if data_written(&sink) != 0 {
        oracle.push(format!("header length: {} bytes after new(), expected {}", sink.0.borrow().len(), header_len));
    }
    let mut last_info = info(enc.as_ref().unwrap());
    for (i, op) in ops.iter().enumerate() {
        let before = (data_written(&sink), last_info.clone());
        let res: Result<(), EncodingError> = match op {
            Op::Gen(b) => {
                enc.as_mut()?.mipmaps.generate = *b;
                Ok(())
            }
            Op::Finish => {
                let e = enc.take()?;
                let inf = info(&e);
                let r = e.finish();
                last_info = inf;
                r
            }
            Op::Write(iw, ih) | Op::Cancelled(iw, ih) => {
                let e = enc.as_mut()?;
                let buf = vec![0x7Fu8; *iw as usize * *ih as usize * 4];
                let view = ImageView::new(&buf, Size::new(*iw, *ih), ColorFormat::RGBA_U8)?;
                if matches!(op, Op::Cancelled(..)) {
                    let token = CancellationToken::new();
                    token.cancel();
                    let mut progress = Progress::none().with_cancellation(&token);
                    e.write_surface_with_progress(view, &mut progress)
                } else if i % 2 == 1 {
                    // the same call through the progress-reporting entry point, with a live (never cancelled) token
                    let token = CancellationToken::new();
                    let mut seen = 0u32;
                    let mut rep = |_p: f32| seen += 1;
                    let mut progress = Progress::new(&mut rep).with_cancellation(&token);
                    e.write_surface_with_progress(view, &mut progress)
                } else {
                    e.write_surface(view)
                }
            }
        };
        if let Some(e) = enc.as_ref() {
            last_info = info(e);
        }
        let rname = match &res {
            Ok(()) => "ok".to_string(),
            Err(e) => err_name(e),
        };
        // oracle: the specification cursor
        let grounds = se.grounds(op);
        let (k_before, fail_at) = (se.k, se.gen_fail_index());
        let sres = se.step(op);
        // A write whose generated mipmap chain contains a level the format cannot encode fails with InvalidSize. The
        // property fixes the invariant (bytes written = layout offset of the surface reported as next), not how far
        // such a call gets before it fails: any stop between "nothing written" and "everything before the failing
        // level written" is accepted, and the specification cursor follows the implementation there.
        if let (Op::Write(..), Some(f), "InvalidSize", "InvalidSize") = (op, fail_at, sres.as_str(), rname.as_str()) {
            let w = data_written(&sink);
            if let Some(k2) = (k_before..=f).find(|&k2| se.offset_of(k2) as i64 == w) {
                se.k = k2;
                se.written = se.offset_of(k2);
            }
        }
        if sres != rname && !(grounds.len() > 1 && grounds.contains(&rname.as_str())) {
            oracle.push(format!("op {i} {}: result {rname}, specification says {sres}", op.fmt()));
        }
        if last_info != se.info() {
            oracle.push(format!("op {i} {}: next surface '{}', specification '{}'", op.fmt(), last_info, se.info()));
        }
        if data_written(&sink) != se.written as i64 {
            oracle.push(format!(
                "op {i} {}: {} data bytes written, header + layout offset of the next surface is {}",
                op.fmt(),
                data_written(&sink),
                se.written
            ));
        }
        if matches!(rname.as_str(), "TooManySurfaces" | "UnexpectedSurfaceSize" | "Cancelled") && (data_written(&sink), last_info.clone()) != before {
            oracle.push(format!("op {i} {}: rejected call changed the encoder", op.fmt()));
        }
        parts.push(format!("{} {} {}", rname, last_info, data_written(&sink)));
        if oracle.len() > 4 || enc.is_none() {
            break;
        }
    }
    // after a successful finish the file must be complete and re-readable
    if let Some(last) = ops.last() {
        if matches!(last, Op::Finish) && parts.last().map(|p| p.starts_with("ok ")).unwrap_or(false) {
            let bytes = sink.0.borrow().clone();
            if bytes.len() as u64 != header_len + spec.total {
                oracle.push(format!("finished file has {} bytes, expected {}", bytes.len(), header_len + spec.total));
            }
            if header_has_format {
              match Decoder::new(std::io::Cursor::new(&bytes)) {
                Ok(dec) => {
                    if dec.layout().data_len() != spec.total {
                        oracle.push("re-opened layout has a different data length".into());
                    }
                    if dec.header() != &header {
                        oracle.push("re-opened header differs".into());
                    }
                }
                Err(_) => oracle.push("finished file cannot be re-opened".into()),
              }
            }
        }
    }
    Some((parts.join(" | "), oracle))
}
