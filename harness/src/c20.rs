//! C20: image views exist only for addressable geometry.
//!
//! `N <s|m> <len> <w> <h> <color>`                         ImageView{,Mut}::new
//! `W <s|m> <len> <pitch> <w> <h> <color>`                 new_with (+ rows)
//! `C <s|m> <len> <pitch> <w> <h> <color> <ox> <oy> <cw> <ch>`   new_with, then cropped (+ rows)
//! `D <s|m> <len> <pitch> <w> <h> <color> <ox> <oy> <cw> <ch> <ox2> <oy2> <cw2> <ch2>`   new_with, cropped, cropped again
//!                                                         (tie of `C20.crop_crop`: chains of crops, padded parents)
use crate::common::*;
use dds::*;

pub fn colors() -> Vec<ColorFormat> {
    let mut v = vec![];
    for p in [Precision::U8, Precision::U16, Precision::F32] {
        for c in [Channels::Grayscale, Channels::Alpha, Channels::Rgb, Channels::Rgba] {
            v.push(ColorFormat::new(c, p));
        }
    }
    v
}

pub fn gen(seed: u64, thorough: bool) -> Vec<String> {
    let mut rng = Rng::new(seed);
    let n = if thorough { 3_000_000 } else { 200_000 };
    let mut out = Vec::with_capacity(n);
    let bset = boundary_u32();
    let pitches: Vec<u64> = {
        let mut v: Vec<u64> = vec![0, 1, 2, 3, 4, 5, 7, 8, 12, 15, 16, 17, 31, 32, 33, 48, 63, 64, 65, 100, 255, 256, 1000, 4095, 4096, 4097];
        for k in [16u32, 31, 32, 33, 47, 48, 52, 60, 61, 62, 63] {
            let p = 1u64 << k;
            v.push(p - 1);
            v.push(p);
            v.push(p + 1);
        }
        v.push(u64::MAX);
        v.push(u64::MAX - 1);
        v.push(u64::MAX / 2);
        v.push(u64::MAX / 2 + 1);
        v.push(u64::MAX / 3);
        v.push(u64::MAX / 3 + 1);
        v
    };
    let small = |rng: &mut Rng| -> u32 {
        match rng.below(10) {
            0 => 0,
            1..=6 => rng.range(1, 9) as u32,
            7 => rng.range(1, 70) as u32,
            8 => *rng.pick(&[65535u32, 65536, 65537, 1 << 20, (1 << 31) - 1, 1 << 31, u32::MAX - 1, u32::MAX]),
            _ => *rng.pick(&bset),
        }
    };
    while out.len() < n {
        let kind = if rng.chance(1, 2) { "s" } else { "m" };
        let color = rng.below(12);
        let bpp = colors()[color as usize].bytes_per_pixel() as u64;
        let w = small(&mut rng);
        let h = small(&mut rng);
        match rng.below(10) {
            0..=1 => {
                // contiguous constructor: exact length, off by one, arbitrary
                let exact = (w as u128 * h as u128 * bpp as u128).min(5000) as u64;
                let len = match rng.below(5) {
                    0..=1 => exact,
                    2 => exact.saturating_sub(1),
                    3 => exact + 1,
                    _ => rng.below(4097),
                };
                if len <= 4200 {
                    out.push(format!("N {kind} {len} {w} {h} {color}"));
                }
            }
            _ => {
                let bpr = w as u128 * bpp as u128;
                let pitch: u64 = match rng.below(10) {
                    0..=2 => bpr.min(u64::MAX as u128) as u64,
                    3 => (bpr.min(u64::MAX as u128) as u64).saturating_add(rng.range(1, 9)),
                    4 => (bpr.min(u64::MAX as u128) as u64).saturating_sub(1),
                    5..=6 => *rng.pick(&pitches),
                    7 => rng.below(200),
                    8 => {
                        // pitch such that pitch*(h-1) is near 2^64
                        let hm = (h as u64).saturating_sub(1).max(1);
                        (u64::MAX / hm).saturating_add(rng.below(3)).saturating_sub(rng.below(3))
                    }
                    _ => rng.next(),
                };
                let need = (pitch as u128) * (h.saturating_sub(1) as u128) + bpr;
                let len = match rng.below(6) {
                    0..=1 => need.min(4200) as u64,
                    2 => (need.min(4200) as u64).saturating_sub(1),
                    3 => need.min(4200) as u64 + rng.range(1, 5),
                    4 => rng.below(4097),
                    _ => *rng.pick(&[0u64, 1, 2, 64, 4096]),
                };
                if rng.chance(1, 2) {
                    out.push(format!("W {kind} {len} {pitch} {w} {h} {color}"));
                } else {
                    // crop rectangles: inside, touching the border, outside, empty, overflowing
                    let pick = |rng: &mut Rng, dim: u32| -> (u32, u32) {
                        match rng.below(8) {
                            0 => (0, dim),
                            1 => {
                                let o = rng.below(dim as u64 + 1) as u32;
                                (o, rng.below((dim - o) as u64 + 1) as u32)
                            }
                            2 => {
                                let o = rng.below(dim as u64 + 1) as u32;
                                (o, (dim - o).saturating_add(1))
                            }
                            3 => (rng.below(dim as u64 + 2) as u32, 0),
                            4 => (u32::MAX, rng.below(3) as u32),
                            5 => (rng.below(3) as u32, u32::MAX),
                            6 => (dim, 0),
                            _ => {
                                let o = rng.below(dim as u64 + 1) as u32;
                                (o, rng.range(0, 2).min((dim - o) as u64) as u32)
                            }
                        }
                    };
                    let (ox, cw) = pick(&mut rng, w);
                    let (oy, ch) = pick(&mut rng, h);
                    out.push(format!("C {kind} {len} {pitch} {w} {h} {color} {ox} {oy} {cw} {ch}"));
                }
            }
        }
    }
    // chains of two crops over addressable (often padded) parents; one in ten second crops leaves the first crop
    let cols = colors();
    for _ in 0..n / 10 {
        let kind = if rng.chance(1, 2) { "s" } else { "m" };
        let color = rng.below(cols.len() as u64) as usize;
        let bpp = cols[color].bytes_per_pixel() as u64;
        let (w, h) = (rng.range(1, 40), rng.range(1, 40));
        let pitch = w * bpp + if rng.chance(1, 3) { 0 } else { rng.range(1, 9) };
        let len = pitch * (h - 1) + w * bpp;
        let inside = |rng: &mut Rng, dim: u64| -> (u64, u64) {
            match rng.below(4) {
                0 => (0, dim),
                1 => { let o = rng.below(dim); (o, dim - o) }
                _ => { let o = rng.below(dim); (o, rng.range(1, dim - o)) }
            }
        };
        let (ox, cw) = inside(&mut rng, w);
        let (oy, ch) = inside(&mut rng, h);
        let (mut ox2, cw2) = inside(&mut rng, cw);
        let (mut oy2, ch2) = inside(&mut rng, ch);
        if rng.chance(1, 10) {
            if rng.chance(1, 2) { ox2 += cw - (ox2 + cw2) + 1 } else { oy2 += ch - (oy2 + ch2) + 1 }
        }
        out.push(format!("D {kind} {len} {pitch} {w} {h} {color} {ox} {oy} {cw} {ch} {ox2} {oy2} {cw2} {ch2}"));
    }
    out
}

fn fmt_rows(rows: &[(usize, usize)]) -> String {
    let mut s = format!("{};", rows.len());
    let show: Vec<usize> = if rows.len() <= 8 {
        (0..rows.len()).collect()
    } else {
        vec![0, 1, 2, rows.len() - 2, rows.len() - 1]
    };
    s += &show.iter().map(|i| format!("{}:{}", rows[*i].0, rows[*i].1)).collect::<Vec<_>>().join(",");
    s
}

struct Obs {
    w: u32,
    h: u32,
    pitch: usize,
    len: usize,
    base: usize,
    rows: Vec<(usize, usize)>,
}
impl Obs {
    fn fmt(&self) -> String {
        let base = if self.len == 0 { "-".to_string() } else { self.base.to_string() };
        format!("some {} {} {} {} {} {}", self.w, self.h, self.pitch, self.len, base, fmt_rows(&self.rows))
    }
}

fn observe_shared(v: ImageView, buf_base: usize) -> Obs {
    let base = (v.data().as_ptr() as usize).wrapping_sub(buf_base);
    let rows: Vec<(usize, usize)> = v.rows().map(|r| ((r.as_ptr() as usize).wrapping_sub(buf_base), r.len())).collect();
    Obs { w: v.width(), h: v.height(), pitch: v.row_pitch(), len: v.data().len(), base, rows }
}
fn observe_mut(mut v: ImageViewMut, buf_base: usize) -> Obs {
    let base = (v.data().as_ptr() as usize).wrapping_sub(buf_base);
    let (w, h, pitch, len) = (v.width(), v.height(), v.row_pitch(), v.data().len());
    let rows: Vec<(usize, usize)> = v.rows_mut().map(|r| ((r.as_ptr() as usize).wrapping_sub(buf_base), r.len())).collect();
    Obs { w, h, pitch, len, base, rows }
}

pub fn run(line: &str) -> Option<(String, Vec<String>)> {
    let t = toks(line);
    let mut oracle = vec![];
    let cols = colors();
    match t[0] {
        "N" => {
            let shared = t[1] == "s";
            let len = p_usize(t[2])?;
            let (w, h) = (p_u32(t[3])?, p_u32(t[4])?);
            let color = *cols.get(p_usize(t[5])?)?;
            let bpp = color.bytes_per_pixel() as u128;
            let mut buf = vec![0u8; len];
            let base = buf.as_ptr() as usize;
            let obs = if shared {
                ImageView::new(&buf, Size::new(w, h), color).map(|v| observe_shared(v, base))
            } else {
                ImageViewMut::new(&mut buf, Size::new(w, h), color).map(|v| observe_mut(v, base))
            };
            // oracle: exactly when the length matches
            let empty = w == 0 || h == 0;
            let expect = if empty { len == 0 } else { len as u128 == w as u128 * h as u128 * bpp };
            if obs.is_some() != expect {
                oracle.push(format!("new: returned {} but length match is {}", obs.is_some(), expect));
            }
            if let Some(o) = &obs {
                check_rows(o, bpp as usize, len, &mut oracle);
            }
            Some((obs.map(|o| o.fmt()).unwrap_or("none".into()), oracle))
        }
        "W" | "C" => {
            let shared = t[1] == "s";
            let len = p_usize(t[2])?;
            let pitch: usize = t[3].parse().ok()?;
            let (w, h) = (p_u32(t[4])?, p_u32(t[5])?);
            let color = *cols.get(p_usize(t[6])?)?;
            let bpp = color.bytes_per_pixel() as u128;
            let mut buf = vec![0u8; len];
            let base = buf.as_ptr() as usize;
            // oracle for the constructor, in u128
            let empty = w == 0 || h == 0;
            let expect = if empty {
                true
            } else {
                pitch as u128 >= w as u128 * bpp
                    && pitch as u128 * (h as u128 - 1) + w as u128 * bpp <= len as u128
            };
            if t[0] == "W" {
                let obs = if shared {
                    ImageView::new_with(&buf, pitch, Size::new(w, h), color).map(|v| observe_shared(v, base))
                } else {
                    ImageViewMut::new_with(&mut buf, pitch, Size::new(w, h), color).map(|v| observe_mut(v, base))
                };
                if obs.is_some() != expect {
                    oracle.push(format!("new_with: returned {} but addressable is {}", obs.is_some(), expect));
                }
                if let Some(o) = &obs {
                    check_rows(o, bpp as usize, len, &mut oracle);
                    // the row pitch matters to the rows only from the second row on: a one-row view may normalise it
                    // (as empty views already do); C20 speaks of the rows exposed, not of the accessor
                    if !empty && ((h >= 2 && o.pitch != pitch) || o.w != w || o.h != h) {
                        oracle.push("new_with: fields differ from the arguments".into());
                    }
                }
                Some((obs.map(|o| o.fmt()).unwrap_or("none".into()), oracle))
            } else {
                let (ox, oy, cw, ch) = (p_u32(t[7])?, p_u32(t[8])?, p_u32(t[9])?, p_u32(t[10])?);
                let inside = ox as u64 + cw as u64 <= (if empty { 0 } else { w }) as u64
                    && oy as u64 + ch as u64 <= (if empty { 0 } else { h }) as u64;
                let res = std::panic::catch_unwind(std::panic::AssertUnwindSafe(|| {
                    if shared {
                        ImageView::new_with(&buf, pitch, Size::new(w, h), color)
                            .map(|v| observe_shared(v.cropped(Offset::new(ox, oy), Size::new(cw, ch)), base))
                    } else {
                        ImageViewMut::new_with(&mut buf, pitch, Size::new(w, h), color)
                            .map(|v| observe_mut(v.cropped(Offset::new(ox, oy), Size::new(cw, ch)), base))
                    }
                }));
                match res {
                    Err(e) => {
                        if std::env::var("DDSV_DEBUG").is_ok() { eprintln!("panic: {}", crate::common::panic_msg(&e)); }
                        if !expect {
                            oracle.push("crop: panic although the parent view should not exist".into());
                        } else if inside {
                            oracle.push("crop: panic for a rectangle inside the parent".into());
                        }
                        Some(("panic".into(), oracle))
                    }
                    Ok(None) => {
                        if expect {
                            oracle.push("new_with: None for addressable geometry".into());
                        }
                        Some(("none".into(), oracle))
                    }
                    Ok(Some(o)) => {
                        if !expect {
                            oracle.push("new_with: Some for non-addressable geometry".into());
                        }
                        if !inside {
                            oracle.push("crop: accepted a rectangle outside the parent".into());
                        } else {
                            check_rows(&o, bpp as usize, len, &mut oracle);
                            let cempty = cw == 0 || ch == 0;
                            if !cempty {
                                // row j of the crop is the parent's row oy+j, starting at byte ox*bpp
                                for (j, r) in o.rows.iter().enumerate() {
                                    let exp = (oy as usize + j) * pitch + ox as usize * bpp as usize;
                                    if r.0 != exp || r.1 != cw as usize * bpp as usize {
                                        oracle.push(format!("crop: row {j} at {}+{} expected {}+{}", r.0, r.1, exp, cw as usize * bpp as usize));
                                        break;
                                    }
                                }
                                if o.rows.len() != ch as usize || o.w != cw || o.h != ch {
                                    oracle.push("crop: wrong size / row count".into());
                                }
                            } else if !o.rows.is_empty() || o.len != 0 {
                                oracle.push("crop: empty crop exposes data".into());
                            }
                        }
                        Some((o.fmt(), oracle))
                    }
                }
            }
        }
        "D" => {
            let shared = t[1] == "s";
            let len = p_usize(t[2])?;
            let pitch: usize = t[3].parse().ok()?;
            let (w, h) = (p_u32(t[4])?, p_u32(t[5])?);
            let color = *cols.get(p_usize(t[6])?)?;
            let bpp = color.bytes_per_pixel() as usize;
            let (ox, oy, cw, ch) = (p_u32(t[7])?, p_u32(t[8])?, p_u32(t[9])?, p_u32(t[10])?);
            let (ox2, oy2, cw2, ch2) = (p_u32(t[11])?, p_u32(t[12])?, p_u32(t[13])?, p_u32(t[14])?);
            let mut buf = vec![0u8; len];
            let base = buf.as_ptr() as usize;
            // the generator only builds addressable parents with a non-empty first crop inside them
            let inside2 = ox2 as u64 + cw2 as u64 <= cw as u64 && oy2 as u64 + ch2 as u64 <= ch as u64;
            let res = std::panic::catch_unwind(std::panic::AssertUnwindSafe(|| {
                if shared {
                    ImageView::new_with(&buf, pitch, Size::new(w, h), color).map(|v| {
                        observe_shared(v.cropped(Offset::new(ox, oy), Size::new(cw, ch)).cropped(Offset::new(ox2, oy2), Size::new(cw2, ch2)), base)
                    })
                } else {
                    ImageViewMut::new_with(&mut buf, pitch, Size::new(w, h), color).map(|v| {
                        observe_mut(v.cropped(Offset::new(ox, oy), Size::new(cw, ch)).cropped(Offset::new(ox2, oy2), Size::new(cw2, ch2)), base)
                    })
                }
            }));
            match res {
                Err(_) => {
                    if inside2 {
                        oracle.push("crop chain: panic for a rectangle inside the first crop".into());
                    }
                    Some(("panic".into(), oracle))
                }
                Ok(None) => {
                    oracle.push("crop chain: new_with returned None for addressable geometry".into());
                    Some(("none".into(), oracle))
                }
                Ok(Some(o)) => {
                    if !inside2 {
                        oracle.push("crop chain: accepted a rectangle outside the first crop".into());
                    } else {
                        check_rows(&o, bpp, len, &mut oracle);
                        // row j of the second crop is the ORIGINAL buffer's row oy+oy2+j from byte (ox+ox2)*bpp
                        for (j, r) in o.rows.iter().enumerate() {
                            let exp = (oy as usize + oy2 as usize + j) * pitch + (ox as usize + ox2 as usize) * bpp;
                            if r.0 != exp || r.1 != cw2 as usize * bpp {
                                oracle.push(format!("crop chain: row {j} at {}+{} expected {}+{}", r.0, r.1, exp, cw2 as usize * bpp));
                                break;
                            }
                        }
                        if o.rows.len() != ch2 as usize || o.w != cw2 || o.h != ch2 {
                            oracle.push("crop chain: wrong size / row count".into());
                        }
                    }
                    Some((o.fmt(), oracle))
                }
            }
        }
        _ => None,
    }
}

/// the rows a view exposes are exactly `height` slices of `width*bpp` bytes at multiples of the pitch, inside the buffer
fn check_rows(o: &Obs, bpp: usize, buf_len: usize, oracle: &mut Vec<String>) {
    let empty = o.w == 0 || o.h == 0;
    let expect_rows = if empty { 0 } else { o.h as usize };
    if o.rows.len() != expect_rows {
        oracle.push(format!("rows: {} rows exposed, height is {}", o.rows.len(), expect_rows));
        return;
    }
    for (y, r) in o.rows.iter().enumerate() {
        if r.0 != o.base + y * o.pitch || r.1 != o.w as usize * bpp {
            oracle.push(format!("rows: row {y} is {}+{}, expected {}+{}", r.0, r.1, o.base + y * o.pitch, o.w as usize * bpp));
            return;
        }
        if r.0 + r.1 > buf_len {
            oracle.push(format!("rows: row {y} reaches outside the buffer"));
            return;
        }
    }
}
