//! C07: the memory limit bounds allocation.
//!
//! case lines (see lean/DdsModel/DdsModel/Drv/C07.lean):
//!   full <fmt> <ch> <pr> <w> <h> <lim>   |   rect <fmt> <ch> <pr> <W> <H> <x> <y> <w> <h> <lim>
//! `lim`: a number, `d` (default), `n` (need), `n-1`.
//! implementation result: `<res> lim=<limit used> need=<observed need> peak=<measured peak> allocs=<count>`
//! model result:          `<res> lim=<limit used> need=<model need> granted=<bytes handed to the allocator>`
//! compared by tools/propcfg/C07.py as a refinement (observed need <= model need, peak <= granted + 4096).
//!
//! The decode runs on an intact synthetic stream; heap traffic of the calling thread is measured by
//! the counting global allocator (`alloc_count.rs`); the output image is allocated before the
//! measurement starts and the reader does not allocate.
//!
//! Oracle (implementation alone): measured peak <= memory_limit + 4096; the result is
//! MemoryLimitExceeded iff memory_limit < observed need (bisection, `c06::observed_need`);
//! with the default limit a full 4096x4096 decode succeeds.
use crate::alloc_count;
use crate::c06::{self, CallK, CallSpec, Chunk, FaultReader, FORMATS, REPRESENTATIVES};
use crate::common::*;

pub const SLACK: usize = 4096;

pub fn run(line: &str) -> Option<(String, Vec<String>)> {
    let t = toks(line);
    let (spec, rest) = CallSpec::parse(&t)?;
    if rest.len() != 1 {
        return None;
    }
    let (out_len, pitch) = spec.out_layout(0)?;
    let mut out = vec![0u8; out_len];
    let need = c06::observed_need(&spec, &mut out, pitch);
    let limit = c06::resolve_limit(rest[0], &spec, &mut out, pitch)?;
    let bytes = spec.surface_bytes().unwrap_or(u64::MAX / 4);
    let mut reader = FaultReader::new(0, bytes, None, false, Chunk::Full, 1);
    reader.quiet = true;
    let (res, m) = alloc_count::measure(|| spec.decode(&mut reader, &mut out, pitch, limit as usize));
    let name = c06::res_name(&res);
    drop(res);

    let mut o = vec![];
    if m.peak as u64 > limit.saturating_add(SLACK as u64) {
        o.push(format!(
            "peak heap use {} exceeds memory_limit {} + {} ({} allocations, {} bytes in total)",
            m.peak, limit, SLACK, m.count, m.total
        ));
    }
    let is_mem = name == "mem";
    if is_mem != (limit < need) {
        o.push(format!(
            "result {name} with memory_limit {limit}, but the observed need (least limit without MemoryLimitExceeded) is {need}"
        ));
    }
    if rest[0] == "d" {
        if let CallK::Full { w: 4096, h: 4096 } = spec.call {
            if name != "ok" {
                o.push(format!("4096x4096 does not decode with the default limit: {name}"));
            }
        }
    }
    Some((format!("{name} lim={limit} need={need} peak={} allocs={}", m.peak, m.count), o))
}

pub fn gen(seed: u64, thorough: bool) -> Vec<String> {
    let mut rng = Rng::new(seed);
    let mut v = vec![];
    let lims = ["0", "1", "1024", "65536", "n-1", "n", "d"];
    let sizes: Vec<(u32, u32)> = if thorough {
        vec![(1, 1), (2, 2), (7, 5), (64, 64), (100, 31), (257, 129), (1024, 16), (16, 1024), (1000, 1000),
             (65536, 1), (1, 65536), (4096, 2), (3, 4096), (16385, 3), (21846, 2)]
    } else {
        vec![(1, 1), (7, 5), (64, 64), (257, 129), (1024, 16), (16, 1024), (65536, 1), (1, 65536), (16385, 3)]
    };
    for (name, _) in FORMATS {
        let (nc, np) = c06::natural_colour(name);
        for &(w, h) in &sizes {
            let mut calls = vec![format!("{w} {h}")];
            // rects: interior, full-width strip, single pixel at the far corner
            let (x, y) = (w / 3, h / 3);
            calls.push(format!("{w} {h} {x} {y} {} {}", (w - x + 1) / 2, (h - y + 1) / 2));
            calls.push(format!("{w} {h} 0 {} {w} {}", h / 2, (h - h / 2).min(5)));
            calls.push(format!("{w} {h} {} {} 1 1", w - 1, h - 1));
            for (i, c) in calls.iter().enumerate() {
                let kind = if i == 0 { "full" } else { "rect" };
                for lim in lims {
                    let (ch, pr) = if rng.chance(1, 2) { (nc, np) } else { (rng.below(4) as u32, rng.below(3) as u32) };
                    v.push(format!("{kind} {name} {ch} {pr} {c} {lim}"));
                }
            }
        }
    }
    // larger surfaces for the representatives; 4096x4096 with the default limit
    let big: &[(u32, u32)] = if thorough { &[(2048, 2048), (4096, 4096)] } else { &[(1024, 1024)] };
    for name in REPRESENTATIVES {
        let (nc, np) = c06::natural_colour(name);
        for &(w, h) in big {
            for lim in ["n-1", "n", "d"] {
                v.push(format!("full {name} {nc} {np} {w} {h} {lim}"));
                v.push(format!("rect {name} {nc} {np} {w} {h} 1 1 {} {} {lim}", w - 2, h - 2));
            }
        }
    }
    // every format at 4096x4096 with the default limit (also in the quick tier)
    let four_k: Vec<&str> = FORMATS.iter().map(|(n, _)| *n).collect();
    for name in four_k {
        let (nc, np) = c06::natural_colour(name);
        v.push(format!("full {name} {nc} {np} 4096 4096 d"));
        if thorough {
            v.push(format!("full {name} 0 0 4096 4096 d"));
            v.push(format!("rect {name} {nc} {np} 4096 4096 0 0 4096 4096 d"));
        }
    }
    // PRNG
    let n = if thorough { 20000 } else { 2500 };
    for _ in 0..n {
        let (name, _) = rng.pick(FORMATS);
        let m = *rng.pick(&[8u64, 40, 300, 1500]);
        let w = 1 + rng.below(m) as u32;
        let h = 1 + rng.below(m) as u32;
        let (ch, pr) = (rng.below(4) as u32, rng.below(3) as u32);
        let lim = match rng.below(6) {
            0 => format!("{}", rng.below(200000)),
            k => lims[k as usize + 1].to_string(),
        };
        if rng.chance(1, 2) {
            v.push(format!("full {name} {ch} {pr} {w} {h} {lim}"));
        } else {
            let x = rng.below(w as u64) as u32;
            let y = rng.below(h as u64) as u32;
            let rw = 1 + rng.below((w - x) as u64) as u32;
            let rh = 1 + rng.below((h - y) as u64) as u32;
            v.push(format!("rect {name} {ch} {pr} {w} {h} {x} {y} {rw} {rh} {lim}"));
        }
    }
    v
}
