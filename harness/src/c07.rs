//! C07: the memory limit bounds allocation.
//!
//! case lines (see lean/DdsModel/DdsModel/Drv/C07.lean):
//!   full <fmt> <ch> <pr> <w> <h> <lim> [<view>]   |   rect <fmt> <ch> <pr> <W> <H> <x> <y> <w> <h> <lim> [<view>]
//! `lim`: a number, `d` (default), `n` (need), `n-1`.
//! `view` = the caller's output view the surface is decoded into (the model's answer does not depend on it:
//! no decode path may allocate because of the shape of the output):
//!   absent / `c`        contiguous (`row_pitch` = bytes per row)
//!   `p<N>`              `ImageViewMut::new_with` with `row_pitch` = bytes per row + N
//!   `x<l>:<t>:<r>:<b>`  `ImageViewMut::new(...).cropped(...)` out of an image with margins l/t/r/b pixels
//!   `cube`              (full only) the surface is every face of a cube-map file read with
//!                       `Decoder::read_cube_map` into the 4w x 3h atlas (six decodes into cropped views,
//!                       each with the whole `memory_limit`)
//! implementation result: `<res> lim=<limit used> need=<observed need> peak=<measured peak> allocs=<count>`
//! model result:          `<res> lim=<limit used> need=<model need> granted=<bytes handed to the allocator>`
//! compared by tools/propcfg/C07.py as a refinement (observed need <= model need, peak <= granted + 4096).
//!
//! The decode runs on an intact synthetic stream; heap traffic of the calling thread is measured by
//! the counting global allocator (`alloc_count.rs`); the output image (and the `Decoder` of a `cube`
//! case) is built before the measurement starts and the reader does not allocate.
//!
//! Oracle (implementation alone): measured peak <= memory_limit + 4096; the result is
//! MemoryLimitExceeded iff memory_limit < observed need (bisection on the limit with the same call and
//! the same output view); with the default limit a full 4096x4096 decode succeeds.
use crate::alloc_count::{self, Measured};
use crate::c06::{self, CallK, CallSpec, Chunk, FaultReader, FORMATS, REPRESENTATIVES};
use crate::common::*;
use dds::header::Header;
use dds::*;
use std::cell::RefCell;
use std::collections::HashMap;

pub const SLACK: usize = 4096;

/// the caller's output view
#[derive(Clone, Debug, PartialEq)]
pub enum View {
    Contig,
    Pad(usize),
    Crop { l: u32, t: u32, r: u32, b: u32 },
    Cube,
}
impl View {
    pub fn parse(tok: &str, call: &CallK) -> Option<View> {
        if tok == "c" {
            return Some(View::Contig);
        }
        if tok == "cube" {
            return match call {
                CallK::Full { .. } => Some(View::Cube),
                _ => None,
            };
        }
        if let Some(n) = tok.strip_prefix('p') {
            return Some(View::Pad(p_usize(n)?));
        }
        if let Some(m) = tok.strip_prefix('x') {
            let v: Vec<&str> = m.split(':').collect();
            if v.len() != 4 {
                return None;
            }
            return Some(View::Crop { l: p_u32(v[0])?, t: p_u32(v[1])?, r: p_u32(v[2])?, b: p_u32(v[3])? });
        }
        None
    }
    /// size of the image the caller owns (the view is all or a part of it) and its row pitch
    fn owned(&self, spec: &CallSpec) -> Option<(Size, usize)> {
        let s = spec.image_size();
        let bpp = spec.color.bytes_per_pixel() as usize;
        let (size, pad) = match *self {
            View::Contig => (s, 0),
            View::Pad(n) => (s, n),
            View::Crop { l, t, r, b } => (
                Size::new(s.width.checked_add(l)?.checked_add(r)?, s.height.checked_add(t)?.checked_add(b)?),
                0,
            ),
            View::Cube => (Size::new(s.width.checked_mul(4)?, s.height.checked_mul(3)?), 0),
        };
        let pitch = (size.width as usize).checked_mul(bpp)?.checked_add(pad)?;
        let len = pitch.checked_mul(size.height as usize)?;
        if len > (3usize << 30) {
            return None;
        }
        Some((size, pitch))
    }
    /// number of surfaces the call reads from the stream
    fn surfaces(&self) -> u64 {
        if *self == View::Cube { 6 } else { 1 }
    }
}

/// One call of the real decoder into the given view of `out`; only the decode itself is measured.
fn decode_view(
    spec: &CallSpec,
    view: &View,
    reader: &mut FaultReader,
    out: &mut [u8],
    limit: usize,
) -> (Result<(), DecodingError>, Measured) {
    let mut options = DecodeOptions::default();
    options.memory_limit = limit;
    let s = spec.image_size();
    let (owned, pitch) = view.owned(spec).expect("harness: output layout");
    if *view == View::Cube {
        let header = Header::new_cube_map(s.width, s.height, spec.format);
        let mut decoder = match Decoder::from_header_with(reader, header, spec.format) {
            Ok(d) => d,
            Err(e) => return (Err(e), Measured { peak: 0, total: 0, count: 0 }),
        };
        decoder.options = options;
        let image = ImageViewMut::new(out, owned, spec.color).expect("harness: cannot build the atlas view");
        return alloc_count::measure(|| decoder.read_cube_map(image));
    }
    let image = match *view {
        View::Crop { l, t, .. } => ImageViewMut::new(out, owned, spec.color)
            .expect("harness: cannot build the output image")
            .cropped(Offset::new(l, t), s),
        _ => ImageViewMut::new_with(out, pitch, s, spec.color).expect("harness: cannot build the output view"),
    };
    match spec.call {
        CallK::Full { .. } => alloc_count::measure(|| dds::decode(reader, image, spec.format, &options)),
        CallK::Rect { sw, sh, x, y, .. } => alloc_count::measure(|| {
            dds::decode_rect(reader, image, Offset::new(x, y), Size::new(sw, sh), spec.format, &options)
        }),
    }
}

thread_local! {
    static NEED_CACHE: RefCell<HashMap<String, u64>> = RefCell::new(HashMap::new());
}

/// The implementation's observed need of this call into this view: the least `memory_limit` for which
/// it does not fail with `MemoryLimitExceeded` (galloping + bisection; the probes run on an empty stream,
/// so they stop at the first read; 0 if the call fails the same way for every limit). Same procedure as
/// `c06::observed_need`, with the output view as part of the call.
fn observed_need(spec: &CallSpec, view: &View, out: &mut [u8]) -> u64 {
    let key = format!("{} {view:?}", spec.key());
    if let Some(v) = NEED_CACHE.with(|c| c.borrow().get(&key).copied()) {
        return v;
    }
    let mut probe = |limit: u64| -> bool {
        let mut r = FaultReader::new(0, 0, None, false, Chunk::Full, 1);
        let (res, _) = decode_view(spec, view, &mut r, out, limit as usize);
        matches!(res, Err(DecodingError::MemoryLimitExceeded))
    };
    let v = if probe(u64::MAX) || !probe(0) {
        0
    } else {
        // invariant: probe(lo) = mem, probe(hi) = not mem
        let mut lo = 0u64;
        let mut hi = 1u64;
        while probe(hi) {
            lo = hi;
            hi = hi.saturating_mul(2);
        }
        while hi - lo > 1 {
            let mid = lo + (hi - lo) / 2;
            if probe(mid) {
                lo = mid;
            } else {
                hi = mid;
            }
        }
        hi
    };
    NEED_CACHE.with(|c| c.borrow_mut().insert(key, v));
    v
}

pub fn run(line: &str) -> Option<(String, Vec<String>)> {
    let t = toks(line);
    let (spec, rest) = CallSpec::parse(&t)?;
    let view = match rest.len() {
        1 => View::Contig,
        2 => View::parse(rest[1], &spec.call)?,
        _ => return None,
    };
    let (owned, pitch) = view.owned(&spec)?;
    let mut out = vec![0u8; pitch * owned.height as usize];
    let need = observed_need(&spec, &view, &mut out);
    let limit = match rest[0] {
        "d" => DecodeOptions::default().memory_limit as u64,
        "n" => need,
        "n-1" => need.saturating_sub(1),
        tok => p_u64(tok)?,
    };
    let bytes = spec.surface_bytes().and_then(|b| b.checked_mul(view.surfaces())).unwrap_or(u64::MAX / 4);
    let mut reader = FaultReader::new(0, bytes, None, false, Chunk::Full, 1);
    reader.quiet = true;
    let (res, m) = decode_view(&spec, &view, &mut reader, &mut out, limit as usize);
    let name = c06::res_name(&res);
    drop(res);

    let mut o = vec![];
    if m.peak as u64 > limit.saturating_add(SLACK as u64) {
        o.push(format!(
            "peak heap use {} exceeds memory_limit {} + {} ({} allocations, {} bytes in total; output view {:?}, row pitch {})",
            m.peak, limit, SLACK, m.count, m.total, view, pitch
        ));
    }
    let is_mem = name == "mem";
    if is_mem != (limit < need) {
        o.push(format!(
            "result {name} with memory_limit {limit}, but the observed need (least limit without MemoryLimitExceeded) is {need}"
        ));
    }
    if rest[0] == "d" {
        if let CallK::Full { w: 4096, h: 4096 } = spec.call {
            if name != "ok" {
                o.push(format!("4096x4096 does not decode with the default limit: {name}"));
            }
        }
    }
    Some((format!("{name} lim={limit} need={need} peak={} allocs={}", m.peak, m.count), o))
}

pub fn gen(seed: u64, thorough: bool) -> Vec<String> {
    let mut rng = Rng::new(seed);
    let mut v = vec![];
    let lims = ["0", "1", "1024", "65536", "n-1", "n", "d"];
    let sizes: Vec<(u32, u32)> = if thorough {
        vec![(1, 1), (2, 2), (7, 5), (64, 64), (100, 31), (257, 129), (1024, 16), (16, 1024), (1000, 1000),
             (65536, 1), (1, 65536), (4096, 2), (3, 4096), (16385, 3), (21846, 2)]
    } else {
        vec![(1, 1), (7, 5), (64, 64), (257, 129), (1024, 16), (16, 1024), (65536, 1), (1, 65536), (16385, 3)]
    };
    for (name, _) in FORMATS {
        let (nc, np) = c06::natural_colour(name);
        for &(w, h) in &sizes {
            let mut calls = vec![format!("{w} {h}")];
            // rects: interior, full-width strip, single pixel at the far corner
            let (x, y) = (w / 3, h / 3);
            calls.push(format!("{w} {h} {x} {y} {} {}", (w - x + 1) / 2, (h - y + 1) / 2));
            calls.push(format!("{w} {h} 0 {} {w} {}", h / 2, (h - h / 2).min(5)));
            calls.push(format!("{w} {h} {} {} 1 1", w - 1, h - 1));
            for (i, c) in calls.iter().enumerate() {
                let kind = if i == 0 { "full" } else { "rect" };
                for lim in lims {
                    let (ch, pr) = if rng.chance(1, 2) { (nc, np) } else { (rng.below(4) as u32, rng.below(3) as u32) };
                    v.push(format!("{kind} {name} {ch} {pr} {c} {lim}"));
                }
            }
        }
    }
    // ---- output views: the caller's image need not be contiguous. Every format, full decodes in the
    // natural colour (the one with a specialised whole-image decoder, if any) into every kind of view
    // x limits; other colours and rects with one view per case.
    let view_sizes: Vec<(u32, u32)> = if thorough {
        vec![(1, 1), (7, 5), (64, 64), (257, 129), (1024, 16), (16, 1024), (3000, 3)]
    } else {
        vec![(1, 1), (7, 5), (64, 64), (257, 129)]
    };
    let strided = |rng: &mut Rng| -> String {
        match rng.below(3) {
            0 => format!("p{}", *rng.pick(&[1usize, 3, 16, 64, 1000])),
            1 => format!("x{}:{}:{}:{}", rng.below(4), rng.below(3), 1 + rng.below(3), rng.below(3)),
            _ => format!("x{}:{}:0:{}", 1 + rng.below(5), rng.below(3), rng.below(3)),
        }
    };
    for (name, _) in FORMATS {
        let (nc, np) = c06::natural_colour(name);
        for &(w, h) in &view_sizes {
            let pad = *rng.pick(&[1usize, 4, 64, 4096]);
            let views = [format!("p{pad}"), "x2:1:3:2".to_string(), "x0:0:1:0".to_string(), "cube".to_string()];
            for lim in ["0", "1024", "n-1", "n"] {
                for view in &views {
                    v.push(format!("full {name} {nc} {np} {w} {h} {lim} {view}"));
                }
                // another colour
                let (ch, pr) = (rng.below(4) as u32, rng.below(3) as u32);
                let view = if rng.chance(1, 4) { "cube".to_string() } else { strided(&mut rng) };
                v.push(format!("full {name} {ch} {pr} {w} {h} {lim} {view}"));
            }
            // rects: interior, full-width strip, everything
            let (x, y) = (w / 3, h / 3);
            let rects = [
                format!("{w} {h} {x} {y} {} {}", (w - x + 1) / 2, (h - y + 1) / 2),
                format!("{w} {h} 0 {} {w} {}", h / 2, (h - h / 2).min(5)),
                format!("{w} {h} 0 0 {w} {h}"),
            ];
            for r in &rects {
                for lim in ["0", "n-1", "n"] {
                    let view = strided(&mut rng);
                    v.push(format!("rect {name} {nc} {np} {r} {lim} {view}"));
                    let (ch, pr) = (rng.below(4) as u32, rng.below(3) as u32);
                    let view = strided(&mut rng);
                    v.push(format!("rect {name} {ch} {pr} {r} {lim} {view}"));
                }
            }
        }
    }
    // larger surfaces for the representatives; 4096x4096 with the default limit
    let big: &[(u32, u32)] = if thorough { &[(2048, 2048), (4096, 4096)] } else { &[(1024, 1024)] };
    for name in REPRESENTATIVES {
        let (nc, np) = c06::natural_colour(name);
        for &(w, h) in big {
            for lim in ["n-1", "n", "d"] {
                v.push(format!("full {name} {nc} {np} {w} {h} {lim}"));
                v.push(format!("rect {name} {nc} {np} {w} {h} 1 1 {} {} {lim}", w - 2, h - 2));
                v.push(format!("full {name} {nc} {np} {w} {h} {lim} p64"));
            }
        }
    }
    // every format at 4096x4096 with the default limit (also in the quick tier)
    let four_k: Vec<&str> = FORMATS.iter().map(|(n, _)| *n).collect();
    for name in four_k {
        let (nc, np) = c06::natural_colour(name);
        v.push(format!("full {name} {nc} {np} 4096 4096 d"));
        if thorough {
            v.push(format!("full {name} 0 0 4096 4096 d"));
            v.push(format!("rect {name} {nc} {np} 4096 4096 0 0 4096 4096 d"));
            v.push(format!("full {name} {nc} {np} 4096 4096 d p16"));
        }
    }
    // PRNG
    let n = if thorough { 20000 } else { 2500 };
    for _ in 0..n {
        let (name, _) = rng.pick(FORMATS);
        let m = *rng.pick(&[8u64, 40, 300, 1500]);
        let w = 1 + rng.below(m) as u32;
        let h = 1 + rng.below(m) as u32;
        let (ch, pr) = (rng.below(4) as u32, rng.below(3) as u32);
        let lim = match rng.below(6) {
            0 => format!("{}", rng.below(200000)),
            k => lims[k as usize + 1].to_string(),
        };
        // half of the cases into a contiguous image, the others into a strided view
        let full = rng.chance(1, 2);
        let view = match rng.below(8) {
            0..=3 => String::new(),
            4 if full && w <= 512 && h <= 512 => " cube".to_string(),
            _ => format!(" {}", strided(&mut rng)),
        };
        // the natural colour of the format in a third of the cases
        let (ch, pr) = if rng.chance(1, 3) { c06::natural_colour(name) } else { (ch, pr) };
        if full {
            v.push(format!("full {name} {ch} {pr} {w} {h} {lim}{view}"));
        } else {
            let x = rng.below(w as u64) as u32;
            let y = rng.below(h as u64) as u32;
            let rw = 1 + rng.below((w - x) as u64) as u32;
            let rh = 1 + rng.below((h - y) as u64) as u32;
            v.push(format!("rect {name} {ch} {pr} {w} {h} {x} {y} {rw} {rh} {lim}{view}"));
        }
    }
    v
}
