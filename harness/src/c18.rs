//! C18: permissive parsing repairs known writer bugs and never harms a consistent file.
//!
//! Case kinds:
//!   `D <hdr> <fl> <defect>...`  the true header (canonical token of c09.rs), its raw form with the
//!                               defects injected, written and re-read.
//!                               fl: e (true file length) | n (none) | + | - (true length +-1) | <u64>
//!                               defect: A:a | M:m | DM | H24 | PS:n | PF:f | A2:v
//!   `R <fl> <w0> <w1> ...`      an arbitrary word image (magic included), fl: n | <u64>
//!
//! Result: `s=<strict> p=<permissive> f=<permissive with file_len> lf=<layout length of f> L=<true length>`.
use crate::c09::*;
use crate::common::*;
use dds::header::*;
use dds::*;

#[derive(Clone, Debug, PartialEq)]
pub enum Defect {
    Array(u32),
    Mips(u32),
    DropMipFlags,
    Header24,
    PfSize(u32),
    PfFlags(u32),
    Misc2(u32),
}

pub fn parse_defect(s: &str) -> Option<Defect> {
    let p: Vec<&str> = s.split(':').collect();
    let n = |i: usize| -> Option<u32> { p.get(i)?.parse().ok() };
    Some(match p[0] {
        "A" => Defect::Array(n(1)?),
        "M" => Defect::Mips(n(1)?),
        "DM" => Defect::DropMipFlags,
        "H24" => Defect::Header24,
        "PS" => Defect::PfSize(n(1)?),
        "PF" => Defect::PfFlags(n(1)?),
        "A2" => Defect::Misc2(n(1)?),
        _ => return None,
    })
}
pub fn fmt_defect(d: &Defect) -> String {
    match d {
        Defect::Array(a) => format!("A:{a}"),
        Defect::Mips(m) => format!("M:{m}"),
        Defect::DropMipFlags => "DM".into(),
        Defect::Header24 => "H24".into(),
        Defect::PfSize(n) => format!("PS:{n}"),
        Defect::PfFlags(f) => format!("PF:{f}"),
        Defect::Misc2(v) => format!("A2:{v}"),
    }
}

pub fn apply_defect(d: &Defect, raw: &mut RawHeader) {
    match d {
        Defect::Array(a) => {
            if let Some(e) = raw.dx10.as_mut() {
                e.array_size = *a;
            }
        }
        Defect::Mips(m) => raw.mipmap_count = *m,
        Defect::DropMipFlags => {
            raw.flags = DdsFlags::from_bits_retain(raw.flags.bits() & !0x20000);
            raw.caps = Caps::from_bits_retain(raw.caps.bits() & !0x400008);
        }
        Defect::Header24 => raw.size = 24,
        Defect::PfSize(n) => raw.pixel_format.size = *n,
        Defect::PfFlags(f) => raw.pixel_format.flags = PixelFormatFlags::from_bits_retain(*f),
        Defect::Misc2(v) => {
            if let Some(e) = raw.dx10.as_mut() {
                e.misc_flags2 = *v;
            }
        }
    }
}

fn full_chain(h: &Header) -> u32 {
    let m = h.width().max(h.height()).max(h.depth().unwrap_or(1));
    (32 - m.leading_zeros()).max(1)
}

/// The property's reading of "known defect of the true header h" (independent of the model):
/// the mip defects are those after which the true count is 1, the full chain, or one off the
/// count the reader sees.
pub fn applies(d: &Defect, h: &Header) -> bool {
    let mip_ok = |seen: u32| -> bool {
        let t = h.mipmap_count().get();
        t == 1 || t == full_chain(h) || Some(t) == seen.checked_sub(1) || t == seen.saturating_add(1)
    };
    match (d, h) {
        (Defect::Array(a), Header::Dx10(x)) => {
            x.array_size == 1
                && (*a == 0
                    || (*a == 6 && x.resource_dimension == ResourceDimension::Texture2D && x.misc_flag.contains(MiscFlags::TEXTURE_CUBE))
                    || x.resource_dimension == ResourceDimension::Texture3D)
        }
        (Defect::Mips(m), _) => mip_ok((*m).max(1)),
        (Defect::DropMipFlags, _) => mip_ok(1),
        (Defect::Header24, _) => true,
        (Defect::PfSize(n), _) => *n == 0 || *n == 24,
        (Defect::PfFlags(f), Header::Dx9(x)) => f & 4 == 0 && matches!(x.pixel_format, Dx9PixelFormat::FourCC(c) if c != FourCC::NONE),
        (Defect::Misc2(v), Header::Dx10(_)) => v % 8 >= 5,
        _ => false,
    }
}

fn fmt_r(r: &Result<Header, HeaderError>) -> String {
    match r {
        Ok(h) => fmt_header(h),
        Err(e) => fmt_err(e),
    }
}

/// the three parses of one byte image and the clauses of C18 that speak about any image
fn three(bytes: &[u8], fl: Option<u64>, oracle: &mut Vec<String>) -> (String, Option<Header>) {
    let s = read_header(bytes, &ParseOptions::default()).0;
    let p = read_header(bytes, &ParseOptions::new_permissive(None)).0;
    let f = read_header(bytes, &ParseOptions::new_permissive(fl)).0;
    // the same file offered without its magic bytes: file_len still counts them (documented), so the result is the same
    let g = if bytes.len() >= 4 && bytes[..4] == Header::MAGIC {
        let mut o = ParseOptions::new_permissive(fl);
        o.skip_magic_bytes = true;
        Some(read_header(&bytes[4..], &o).0)
    } else {
        None
    };
    if let Some(g) = &g {
        let same = match (g, &f) {
            (Ok(a), Ok(b)) => a == b,
            (Err(_), Err(_)) => true,
            _ => false,
        };
        if !same {
            oracle.push(format!(
                "skip_magic_bytes changes the permissive result for file_len {:?}: {} vs {}",
                fl,
                fmt_r(g),
                fmt_r(&f)
            ));
        }
    }
    // clause 2 (second half): without a file length permissive changes nothing strict accepts
    if let Ok(hs) = &s {
        match &p {
            Ok(hp) if hp == hs => {}
            _ => oracle.push(format!("strict accepts {} but permissive (no file_len) gives {}", fmt_header(hs), fmt_r(&p))),
        }
        // clause 1: a header consistent with the file length is untouched
        if let (Some(fl), Some(l)) = (fl, data_len(hs)) {
            if l.checked_add(4 + hs.byte_len() as u64) == Some(fl) {
                match &f {
                    Ok(hf) if hf == hs => {}
                    _ => oracle.push(format!(
                        "consistent header {} (data length {l}) is changed by permissive parsing with file_len {fl}: {}",
                        fmt_header(hs),
                        fmt_r(&f)
                    )),
                }
            }
        }
    }
    // clause 4: a repair that changes mip count / array size matches the file length exactly
    match (&p, &f) {
        (Ok(h0), Ok(h1)) => {
            let mips_changed = h0.mipmap_count() != h1.mipmap_count();
            let arr_changed = h0.array_size() != h1.array_size() && !(h0.array_size() == 0 && h1.array_size() == 1);
            if mips_changed || arr_changed {
                let want = fl.and_then(|x| x.checked_sub(4 + h1.byte_len() as u64));
                if want.is_none() || data_len(h1) != want {
                    oracle.push(format!(
                        "repair {} -> {} does not match the file length: layout {:?}, file data {:?}",
                        fmt_header(h0),
                        fmt_header(h1),
                        data_len(h1),
                        want
                    ));
                }
            }
        }
        _ => {}
    }
    let lf = f.as_ref().ok().and_then(data_len);
    let out = format!(
        "s={} p={} f={} lf={} g={}",
        fmt_r(&s),
        fmt_r(&p),
        fmt_r(&f),
        lf.map(|x| x.to_string()).unwrap_or("-".into()),
        g.as_ref().map(|g| fmt_r(g)).unwrap_or("-".into())
    );
    (out, f.ok())
}

fn run_d(t: &[&str]) -> Option<(String, Vec<String>)> {
    let h = parse_header(t.get(1)?)?;
    let flm = *t.get(2)?;
    let mut ds = vec![];
    for s in &t[3..] {
        ds.push(parse_defect(s)?);
    }
    let mut raw = h.to_raw();
    for d in &ds {
        apply_defect(d, &mut raw);
    }
    let mut bytes = Header::MAGIC.to_vec();
    raw.write(&mut bytes).unwrap();
    let l = data_len(&h);
    let tl = l.and_then(|l| l.checked_add(4 + h.byte_len() as u64));
    let fl = match flm {
        "n" => None,
        "e" => tl,
        "+" => tl.and_then(|x| x.checked_add(1)),
        "-" => tl.and_then(|x| x.checked_sub(1)),
        x => Some(p_u64(x)?),
    };
    let mut oracle = vec![];
    let (out, f) = three(&bytes, fl, &mut oracle);
    // clause 3: a known defect of a valid header is recovered
    let single = ds.len() == 1 && applies(&ds[0], &h);
    let combo = ds.len() == 2
        && ds.contains(&Defect::Array(0))
        && matches!(&h, Header::Dx10(x) if x.array_size == 1)
        && ds.iter().any(|d| matches!(d, Defect::Mips(_) | Defect::DropMipFlags) && applies(d, &h));
    if flm == "e" && (single || combo || ds.is_empty()) {
        if let (Some(l), Some(_)) = (l, tl) {
            if l > 0 && h.array_size() != 0 {
                let got = f.as_ref().and_then(data_len);
                if got != Some(l) {
                    oracle.push(format!(
                        "defect {:?} of {} is not recovered: result {} has layout length {:?}, the file has {l}",
                        ds.iter().map(fmt_defect).collect::<Vec<_>>(),
                        fmt_header(&h),
                        f.as_ref().map(fmt_header).unwrap_or("error".into()),
                        got
                    ));
                }
            }
        }
    }
    let out = format!("{out} L={}", l.map(|x| x.to_string()).unwrap_or("-".into()));
    Some((out, oracle))
}

fn run_r(t: &[&str]) -> Option<(String, Vec<String>)> {
    let fl = if *t.get(1)? == "n" { None } else { Some(p_u64(t[1])?) };
    let mut ws = Vec::new();
    for s in &t[2..] {
        ws.push(p_u32(s)?);
    }
    let bytes = words_to_bytes(&ws);
    let mut oracle = vec![];
    let (out, _) = three(&bytes, fl, &mut oracle);
    Some((out, oracle))
}

pub fn run(line: &str) -> Option<(String, Vec<String>)> {
    let t = toks(line);
    match *t.first()? {
        "D" => run_d(&t),
        "R" => run_r(&t),
        _ => None,
    }
}

// ---------------------------------------------------------------------------------------------

fn defects_for(h: &Header, rng: &mut Rng) -> Vec<Vec<Defect>> {
    let m = h.mipmap_count().get();
    let full = full_chain(h);
    let mut v: Vec<Vec<Defect>> = vec![
        vec![],
        vec![Defect::Header24],
        vec![Defect::PfSize(0)],
        vec![Defect::PfSize(24)],
        vec![Defect::Mips(m + 1)],
        vec![Defect::Mips(m - 1)],
        vec![Defect::Mips(0)],
        vec![Defect::Mips(1)],
        vec![Defect::Mips(full)],
        vec![Defect::Mips(full + 1)],
        vec![Defect::Mips(m + 2)],
        vec![Defect::Mips(rng.range(1, 40) as u32)],
        vec![Defect::DropMipFlags],
    ];
    match h {
        Header::Dx10(_) => {
            for a in [0u32, 6, 1, 2, 7] {
                v.push(vec![Defect::Array(a)]);
            }
            for a in [5u32, 6, 7, 13, 0xFFFF_FFFD] {
                v.push(vec![Defect::Misc2(a)]);
            }
            v.push(vec![Defect::Array(0), Defect::Mips(m + 1)]);
            v.push(vec![Defect::Array(0), Defect::Mips(m - 1)]);
            v.push(vec![Defect::Mips(1), Defect::Array(0)]);
            v.push(vec![Defect::Array(0), Defect::Mips(full)]);
            v.push(vec![Defect::Array(0), Defect::DropMipFlags]);
            v.push(vec![Defect::Array(6), Defect::Mips(m + 1)]);
            v.push(vec![Defect::PfFlags(0)]);
        }
        Header::Dx9(_) => {
            for f in [0u32, 0x40, 0x41, 0x1, 0x80000, 0xFFFF_FFFB] {
                v.push(vec![Defect::PfFlags(f)]);
            }
            v.push(vec![Defect::PfFlags(0), Defect::Mips(m + 1)]);
        }
    }
    v.push(vec![Defect::Header24, Defect::PfSize(0), Defect::Mips(m + 1)]);
    v
}

fn d_line(h: &Header, fl: &str, ds: &[Defect]) -> String {
    let d: Vec<String> = ds.iter().map(fmt_defect).collect();
    format!("D {} {} {}", fmt_header(h), fl, d.join(" ")).trim_end().to_string()
}

pub fn gen(seed: u64, thorough: bool) -> Vec<String> {
    let mut rng = Rng::new(seed ^ 0xC18);
    let dxgi = valid_dxgi_codes();
    let bset = boundary_u32();
    let mut out = vec![];
    let mut headers: Vec<Header> = vec![];

    // every format x kind through the public constructors, a few geometries
    let geo: &[(u32, u32, u32)] = &[(1, 1, 1), (4, 4, 4), (5, 3, 2), (16, 16, 16), (20, 12, 3), (64, 1, 1), (33, 17, 5), (256, 256, 2), (4, 4, 16), (1, 1, 4), (5, 7, 9), (2, 2, 5), (3, 1, 64)];
    for (i, (_, f)) in FORMATS.iter().enumerate() {
        for k in 0..3 {
            let (w, h, d) = geo[(i + k) % geo.len()];
            let base = match k {
                0 => Header::new_image(w, h, *f),
                1 => Header::new_volume(w, h, d, *f),
                _ => Header::new_cube_map(w, h, *f),
            };
            let full = full_chain(&base);
            for m in [1, 2, full, full.saturating_sub(1).max(1), full + 1] {
                headers.push(base.clone().with_mipmap_count(m));
            }
        }
    }
    // arrays, cube arrays, partial cubes, 1D
    for &code in &[28u32, 71, 98, 103, 66] {
        for (dim, misc, arr) in [(3u32, 0u32, 2u32), (3, 0, 6), (3, 4, 2), (3, 4, 6), (2, 0, 1), (2, 0, 3), (3, 4, 1)] {
            for m in [1u32, 3, 5] {
                if let Some(h) = parse_header(&format!("10:16:12:-:{m}:{code}:{dim}:{misc}:{arr}:0")) {
                    headers.push(h);
                }
            }
        }
    }
    for faces in [1u32, 3, 21, 42, 62, 63] {
        for m in [1u32, 4] {
            if let Some(h) = parse_header(&format!("9:8:8:-:{m}:{}:F:827611204", 0x200 | faces << 10)) {
                headers.push(h);
            }
        }
    }
    let n = if thorough { 120_000 } else { 1_500 };
    for _ in 0..n {
        headers.push(random_header(&mut rng, &dxgi));
    }

    let modes = ["e", "e", "n", "+", "-"];
    for (i, h) in headers.iter().enumerate() {
        for (j, ds) in defects_for(h, &mut rng).iter().enumerate() {
            out.push(d_line(h, "e", ds));
            let m = modes[(i + j) % modes.len()];
            if m != "e" {
                out.push(d_line(h, m, ds));
            }
            if (i + j) % 11 == 0 {
                let arb = match rng.below(3) {
                    0 => rng.below(5000),
                    1 => rng.next() >> rng.below(64),
                    _ => 4 + h.byte_len() as u64 + data_len(h).unwrap_or(0) * rng.range(1, 6),
                };
                out.push(d_line(h, &arb.to_string(), ds));
            }
        }
    }

    // arbitrary word images with coincidence-prone file lengths
    let n = if thorough { 800_000 } else { 12_000 };
    for _ in 0..n {
        let h = random_header(&mut rng, &dxgi);
        let mut ws = header_words(&h);
        let tl0 = true_len(&ws);
        for _ in 0..rng.below(3) {
            let idx = rng.below(ws.len() as u64) as usize;
            ws[idx] = match rng.below(4) {
                0 => any_u32(&mut rng, &bset),
                1 => ws[idx] ^ (1 << rng.below(32)),
                2 => ws[idx].wrapping_add(1),
                _ => ws[idx].wrapping_sub(1),
            };
        }
        // lengths that match some other plausible header: other mip counts / array sizes
        let fl = match rng.below(8) {
            0 => None,
            1 | 2 => tl0,
            3 => true_len(&ws),
            4 => {
                let mut w2 = ws.clone();
                w2[W_MIPS] = rng.range(1, 12) as u32;
                true_len(&w2)
            }
            5 => {
                let mut w2 = ws.clone();
                if w2.len() > W_ARRAY {
                    w2[W_ARRAY] = *rng.pick(&[1, 2, 6]);
                }
                w2[W_MIPS] = rng.range(1, 12) as u32;
                true_len(&w2)
            }
            6 => tl0.map(|x| x + rng.range(0, 2) - 1),
            _ => Some(rng.next() >> rng.below(64)),
        };
        let w: Vec<String> = ws.iter().map(|x| x.to_string()).collect();
        out.push(format!("R {} {}", fl.map(|x| x.to_string()).unwrap_or("n".into()), w.join(" ")));
    }
    out
}
