//! C13 — BC encoding keeps representable content and emits portable blocks.
//!
//! Case line (space separated):
//!   `<class> <fmt> <q> <m> <d> <w> <h> <inprec> <inhex> <wit> <ok3> <blocks>`
//!   class   input class (grey, rand1, two, grad, noise, alpha, edge, ...); only `two` changes the oracle
//!   fmt     bc1 bc2 bc2p bc3 bc3p rxgb bc3n bc4u bc4s bc5u bc5s bc7
//!   q m d   quality F|N|H|U, metric U|P, dithering N|C|A|B
//!   w h     image size in pixels; inprec = rgba8|rgba16|rgba32|rgb8|gray8; inhex = the image bytes
//!   wit     `-` or, for class `two`, one witness block per image block (hex): a valid block of the
//!           format whose palette contains the colours of the corresponding image block
//!   ok3     bc1: 4 hex digits per block = mask of the pixels where index 3 of the three-colour
//!           mode is admissible (input pixel transparent, or outside the image); else `-`
//!   blocks  hex of the blocks `dds::encode` emitted when the line was generated (the generator runs
//!           the encoder).  The Lean driver decodes THESE with the proved decoder model and evaluates
//!           `Portable`; `run` does the same with `dds::decode` / Rust code (result line), and
//!           independently re-encodes the input and evaluates the property's clauses on the fresh
//!           blocks (oracle lines).
//!
//! Result line: `ok <n> <shape> <portable> <hashes> <pred> <b7> <w7> <cl7> <w15> <cl15>` (shape: per block mode digits, see `shape`;
//! pred: for RGBA8 inputs the bytes of each emitted block at the places the discrete encoder model predicts,
//! `offset:hex` pieces, see `predicted_pieces`; b7: for BC7 / RGBA8 / no dithering the header fields of each emitted
//! block, see `bc7_obs` — the model appends `@` and the constraint of its discrete rules, tools/propcfg/C13.py `equal`).
use crate::common::{toks, Rng};
use dds::{
    decode, encode, Channels, ColorFormat, CompressionQuality, DecodeOptions, Dithering, EncodeOptions,
    ErrorMetric, Format, ImageView, ImageViewMut, Precision, Size,
};
use rayon::prelude::*;

// ---------------------------------------------------------------------------------------------
// Quantisation step bounds of the property, in decoded 8-bit units; mirrored (and justified by theorems)
// in lean/DdsModel/DdsModel/Enc13.lean.  "Within the endpoint quantisation step" is read on DECODED values:
// the bound of a channel is the largest difference between the decoded 8-bit values of two adjacent
// endpoint levels (255/31 = 8.23 shows as 8 or 9 after rounding both levels to 8 bit).
/// 5-bit endpoint channel (BC1/2/3 red, blue): max gap of n5::n8 = 9
pub const STEP5: f64 = 9.0;
/// 6-bit endpoint channel (green): max gap of n6::n8 = 5
pub const STEP6: f64 = 5.0;
/// BC2 explicit 4-bit alpha: 255/15
pub const STEP4: f64 = 17.0;
/// 8-bit UNORM endpoints (BC4/BC5 UNORM, BC3 alpha): adjacent levels differ by 1
pub const STEP8U: f64 = 1.0;
/// 8-bit SNORM endpoints shown at 8 bit (255 levels on 256 values: 126 -> 128 is a gap of 2)
pub const STEP8S: f64 = 2.0;
/// BC7 colour: coarsest endpoint grid of any mode (mode 0: 4 bits + p-bit = 5 bits, bit replication): 9
pub const STEP7C: f64 = 9.0;
/// BC7 alpha: coarsest alpha endpoint grid (mode 4: 6 bits; mode 7: 5 bits + p-bit): 5
pub const STEP7A: f64 = 5.0;

#[derive(Clone, Copy, PartialEq, Eq, Debug)]
pub enum F {
    Bc1,
    Bc2,
    Bc2p,
    Bc3,
    Bc3p,
    Rxgb,
    Bc3n,
    Bc4u,
    Bc4s,
    Bc5u,
    Bc5s,
    Bc7,
}
pub const ALL: [F; 12] =
    [F::Bc1, F::Bc2, F::Bc2p, F::Bc3, F::Bc3p, F::Rxgb, F::Bc3n, F::Bc4u, F::Bc4s, F::Bc5u, F::Bc5s, F::Bc7];
impl F {
    fn name(self) -> &'static str {
        match self {
            F::Bc1 => "bc1",
            F::Bc2 => "bc2",
            F::Bc2p => "bc2p",
            F::Bc3 => "bc3",
            F::Bc3p => "bc3p",
            F::Rxgb => "rxgb",
            F::Bc3n => "bc3n",
            F::Bc4u => "bc4u",
            F::Bc4s => "bc4s",
            F::Bc5u => "bc5u",
            F::Bc5s => "bc5s",
            F::Bc7 => "bc7",
        }
    }
    fn parse(s: &str) -> Option<F> {
        ALL.iter().copied().find(|f| f.name() == s)
    }
    fn format(self) -> Format {
        match self {
            F::Bc1 => Format::BC1_UNORM,
            F::Bc2 => Format::BC2_UNORM,
            F::Bc2p => Format::BC2_UNORM_PREMULTIPLIED_ALPHA,
            F::Bc3 => Format::BC3_UNORM,
            F::Bc3p => Format::BC3_UNORM_PREMULTIPLIED_ALPHA,
            F::Rxgb => Format::BC3_UNORM_RXGB,
            F::Bc3n => Format::BC3_UNORM_NORMAL,
            F::Bc4u => Format::BC4_UNORM,
            F::Bc4s => Format::BC4_SNORM,
            F::Bc5u => Format::BC5_UNORM,
            F::Bc5s => Format::BC5_SNORM,
            F::Bc7 => Format::BC7_UNORM,
        }
    }
    fn bpb(self) -> usize {
        match self {
            F::Bc1 | F::Bc4u | F::Bc4s => 8,
            _ => 16,
        }
    }
    /// native channel count of the decoder
    fn nch(self) -> usize {
        match self {
            F::Bc4u | F::Bc4s => 1,
            F::Rxgb | F::Bc3n | F::Bc5u | F::Bc5s => 3,
            _ => 4,
        }
    }
    fn channels(self) -> Channels {
        match self.nch() {
            1 => Channels::Grayscale,
            3 => Channels::Rgb,
            _ => Channels::Rgba,
        }
    }
    /// the format whose decoder shows the STORED values (no un-premultiplication)
    fn stored(self) -> F {
        match self {
            F::Bc2p => F::Bc2,
            F::Bc3p => F::Bc3,
            f => f,
        }
    }
    fn has_565(self) -> bool {
        matches!(self, F::Bc1 | F::Bc2 | F::Bc2p | F::Bc3 | F::Bc3p | F::Rxgb | F::Bc3n)
    }
}

#[derive(Clone, Copy, PartialEq, Eq, Debug)]
pub struct Opts {
    q: char,
    m: char,
    d: char,
}
impl Opts {
    fn enc(self) -> Option<EncodeOptions> {
        let mut o = EncodeOptions::default();
        o.parallel = false;
        o.quality = match self.q {
            'F' => CompressionQuality::Fast,
            'N' => CompressionQuality::Normal,
            'H' => CompressionQuality::High,
            'U' => CompressionQuality::Unreasonable,
            _ => return None,
        };
        o.error_metric = match self.m {
            'U' => ErrorMetric::Uniform,
            'P' => ErrorMetric::Perceptual,
            _ => return None,
        };
        o.dithering = match self.d {
            'N' => Dithering::None,
            'C' => Dithering::Color,
            'A' => Dithering::Alpha,
            'B' => Dithering::ColorAndAlpha,
            _ => return None,
        };
        Some(o)
    }
    fn dith_color(self) -> bool {
        self.d == 'C' || self.d == 'B'
    }
    fn dith_alpha(self) -> bool {
        self.d == 'A' || self.d == 'B'
    }
}

// ---------------------------------------------------------------------------------------------
// input images

#[derive(Clone, Copy, PartialEq, Eq, Debug)]
pub enum InPrec {
    Rgba8,
    Rgba16,
    Rgba32,
    Rgb8,
    Gray8,
}
impl InPrec {
    fn name(self) -> &'static str {
        match self {
            InPrec::Rgba8 => "rgba8",
            InPrec::Rgba16 => "rgba16",
            InPrec::Rgba32 => "rgba32",
            InPrec::Rgb8 => "rgb8",
            InPrec::Gray8 => "gray8",
        }
    }
    fn parse(s: &str) -> Option<Self> {
        [InPrec::Rgba8, InPrec::Rgba16, InPrec::Rgba32, InPrec::Rgb8, InPrec::Gray8]
            .into_iter()
            .find(|p| p.name() == s)
    }
    fn color(self) -> ColorFormat {
        match self {
            InPrec::Rgba8 => ColorFormat::new(Channels::Rgba, Precision::U8),
            InPrec::Rgba16 => ColorFormat::new(Channels::Rgba, Precision::U16),
            InPrec::Rgba32 => ColorFormat::new(Channels::Rgba, Precision::F32),
            InPrec::Rgb8 => ColorFormat::new(Channels::Rgb, Precision::U8),
            InPrec::Gray8 => ColorFormat::new(Channels::Grayscale, Precision::U8),
        }
    }
    fn bpp(self) -> usize {
        match self {
            InPrec::Rgba8 => 4,
            InPrec::Rgba16 => 8,
            InPrec::Rgba32 => 16,
            InPrec::Rgb8 => 3,
            InPrec::Gray8 => 1,
        }
    }
}

#[derive(Clone, Debug)]
pub struct Img {
    w: usize,
    h: usize,
    prec: InPrec,
    data: Vec<u8>,
}
impl Img {
    fn from_rgba8(w: usize, h: usize, px: &[[u8; 4]]) -> Img {
        let mut data = Vec::with_capacity(w * h * 4);
        for p in px {
            data.extend_from_slice(p);
        }
        Img { w, h, prec: InPrec::Rgba8, data }
    }
    /// same content in another input precision (exact widening; rgb8/gray8 drop channels)
    fn convert(&self, prec: InPrec) -> Img {
        assert!(self.prec == InPrec::Rgba8);
        let mut data = Vec::new();
        for p in self.data.chunks(4) {
            match prec {
                InPrec::Rgba8 => data.extend_from_slice(p),
                InPrec::Rgba16 => p.iter().for_each(|&v| data.extend_from_slice(&(v as u16 * 257).to_le_bytes())),
                InPrec::Rgba32 => p.iter().for_each(|&v| data.extend_from_slice(&(v as f32 / 255.0).to_le_bytes())),
                InPrec::Rgb8 => data.extend_from_slice(&p[..3]),
                InPrec::Gray8 => data.push(p[0]),
            }
        }
        Img { w: self.w, h: self.h, prec, data }
    }
    /// RGBA of a pixel on the 0..=255 scale (real)
    fn px(&self, x: usize, y: usize) -> [f64; 4] {
        let o = (y * self.w + x) * self.prec.bpp();
        let d = &self.data[o..o + self.prec.bpp()];
        match self.prec {
            InPrec::Rgba8 => [d[0] as f64, d[1] as f64, d[2] as f64, d[3] as f64],
            InPrec::Rgba16 => {
                let v = |i: usize| u16::from_le_bytes([d[2 * i], d[2 * i + 1]]) as f64 / 257.0;
                [v(0), v(1), v(2), v(3)]
            }
            InPrec::Rgba32 => {
                let v = |i: usize| {
                    let f = f32::from_le_bytes([d[4 * i], d[4 * i + 1], d[4 * i + 2], d[4 * i + 3]]) as f64;
                    // the encoders clamp to [0, 1]
                    f.max(0.0).min(1.0) * 255.0
                };
                [v(0), v(1), v(2), v(3)]
            }
            InPrec::Rgb8 => [d[0] as f64, d[1] as f64, d[2] as f64, 255.0],
            InPrec::Gray8 => [d[0] as f64, d[0] as f64, d[0] as f64, 255.0],
        }
    }
    /// alpha of a pixel is below one half
    fn transparent(&self, x: usize, y: usize) -> bool {
        self.px(x, y)[3] < 127.5
    }
    fn blocks_w(&self) -> usize {
        (self.w + 3) / 4
    }
    fn blocks_h(&self) -> usize {
        (self.h + 3) / 4
    }
}

fn hex_encode(b: &[u8]) -> String {
    let mut s = String::with_capacity(b.len() * 2);
    for x in b {
        s.push_str(&format!("{:02x}", x));
    }
    s
}
fn hex_decode(s: &str) -> Option<Vec<u8>> {
    if s.len() % 2 != 0 {
        return None;
    }
    let b = s.as_bytes();
    let d = |c: u8| -> Option<u8> {
        match c {
            b'0'..=b'9' => Some(c - b'0'),
            b'a'..=b'f' => Some(c - b'a' + 10),
            _ => None,
        }
    };
    let mut out = Vec::with_capacity(b.len() / 2);
    for i in (0..b.len()).step_by(2) {
        out.push(d(b[i])? * 16 + d(b[i + 1])?);
    }
    Some(out)
}

// ---------------------------------------------------------------------------------------------
// library calls

fn lib_encode(f: F, o: Opts, img: &Img) -> Result<Vec<u8>, String> {
    let opts = o.enc().ok_or("opts")?;
    // the block content must not depend on how the rows are stored: a third of the images (chosen by their own
    // content, so the case line stays the same) is handed over as a strided view with a pitch that is not a
    // multiple of the pixel size, another third at an odd buffer offset
    let row = img.w * img.prec.bpp();
    let pick = img.data.iter().fold(img.w as u64 * 31 + img.h as u64, |a, b| a.wrapping_mul(131).wrapping_add(*b as u64)) % 3;
    let store: Vec<u8>;
    let view = if pick == 1 && img.w > 0 && img.h > 0 {
        let pitch = row + 3;
        let mut buf = vec![0xC3u8; pitch * img.h];
        for y in 0..img.h {
            buf[y * pitch..y * pitch + row].copy_from_slice(&img.data[y * row..(y + 1) * row]);
        }
        store = buf;
        ImageView::new_with(&store, pitch, Size::new(img.w as u32, img.h as u32), img.prec.color()).ok_or("view")?
    } else if pick == 2 {
        let mut buf = vec![0x3Cu8; img.data.len() + 1];
        buf[1..].copy_from_slice(&img.data);
        store = buf;
        ImageView::new(&store[1..], Size::new(img.w as u32, img.h as u32), img.prec.color()).ok_or("view")?
    } else {
        ImageView::new(&img.data, Size::new(img.w as u32, img.h as u32), img.prec.color()).ok_or("view")?
    };
    let mut out = Vec::new();
    encode(&mut out, view, f.format(), None, &opts).map_err(|e| format!("{e:?}"))?;
    let want = img.blocks_w() * img.blocks_h() * f.bpb();
    if out.len() != want {
        return Err(format!("encoded-len {} want {}", out.len(), want));
    }
    Ok(out)
}

/// decode `n` blocks laid out `wb` blocks per row at U8 in the native channels; result per block: 16 pixels x nch
fn lib_decode(f: F, wb: usize, data: &[u8]) -> Result<Vec<Vec<u8>>, String> {
    let n = data.len() / f.bpb();
    if n == 0 || wb == 0 || n % wb != 0 {
        return Err("shape".into());
    }
    let hb = n / wb;
    let (w, h) = (4 * wb, 4 * hb);
    let nch = f.nch();
    let color = ColorFormat::new(f.channels(), Precision::U8);
    let mut out = vec![0xA5u8; w * h * nch];
    let view = ImageViewMut::new(&mut out, Size::new(w as u32, h as u32), color).ok_or("view")?;
    let mut reader: &[u8] = data;
    decode(&mut reader, view, f.format(), &DecodeOptions::default()).map_err(|e| format!("{e:?}"))?;
    let mut res = Vec::with_capacity(n);
    for b in 0..n {
        let (bx, by) = (b % wb, b / wb);
        let mut v = Vec::with_capacity(16 * nch);
        for i in 0..16 {
            let (x, y) = (bx * 4 + i % 4, by * 4 + i / 4);
            v.extend_from_slice(&out[(y * w + x) * nch..(y * w + x + 1) * nch]);
        }
        res.push(v);
    }
    Ok(res)
}

// ---------------------------------------------------------------------------------------------
// reference decoder at 8 bit, written from the format specification (BC1-BC5; exact rational
// interpolation, nearest 8-bit value, exact ties upward)

fn rnd(num: u64, den: u64) -> u8 {
    ((2 * num + den) / (2 * den)) as u8
}
fn idx2(b: &[u8], p: usize) -> usize {
    ((u32::from_le_bytes([b[4], b[5], b[6], b[7]]) >> (2 * p)) & 3) as usize
}
fn idx3(b: &[u8], p: usize) -> usize {
    let mut w: u64 = 0;
    for i in 0..6 {
        w |= (b[2 + i] as u64) << (8 * i);
    }
    ((w >> (3 * p)) & 7) as usize
}
/// colour block `b` (8 bytes): RGBA of pixel p; `bc1`: mode by endpoint order, else always four colours
fn ref_color(b: &[u8], p: usize, bc1: bool) -> [u8; 4] {
    let c0 = u16::from_le_bytes([b[0], b[1]]) as u64;
    let c1 = u16::from_le_bytes([b[2], b[3]]) as u64;
    let four = !bc1 || c0 > c1;
    let k = idx2(b, p);
    let ch = |e0: u64, e1: u64, m: u64| -> u8 {
        match (k, four) {
            (0, _) => rnd(255 * e0, m),
            (1, _) => rnd(255 * e1, m),
            (2, true) => rnd(255 * (2 * e0 + e1), 3 * m),
            (2, false) => rnd(255 * (e0 + e1), 2 * m),
            (_, true) => rnd(255 * (e0 + 2 * e1), 3 * m),
            (_, false) => 0,
        }
    };
    [
        ch(c0 >> 11, c1 >> 11, 31),
        ch((c0 >> 5) & 63, (c1 >> 5) & 63, 63),
        ch(c0 & 31, c1 & 31, 31),
        if !four && k == 3 { 0 } else { 255 },
    ]
}
/// BC4 block `b` (8 bytes), pixel p, 8-bit value
fn ref_bc4(b: &[u8], p: usize, signed: bool) -> u8 {
    let k = idx3(b, p) as u64;
    let (e0, e1, m, six) = if signed {
        let s = |x: u8| -> i64 { (x as i8 as i64).max(-127) + 127 };
        (s(b[0]) as u64, s(b[1]) as u64, 254u64, (b[0] as i8) > (b[1] as i8))
    } else {
        (b[0] as u64, b[1] as u64, 255u64, b[0] > b[1])
    };
    match k {
        0 => rnd(255 * e0, m),
        1 => rnd(255 * e1, m),
        _ if six => rnd(255 * ((8 - k) * e0 + (k - 1) * e1), 7 * m),
        6 => 0,
        7 => 255,
        _ => rnd(255 * ((6 - k) * e0 + (k - 1) * e1), 5 * m),
    }
}
fn ref_bc2_alpha(b: &[u8], p: usize) -> u8 {
    let byte = b[p / 2];
    let n = if p % 2 == 0 { byte & 15 } else { byte >> 4 };
    n * 17
}
fn straight(c: u8, a: u8) -> u8 {
    if a == 0 {
        c
    } else {
        ((c as u32 * 255 / a as u32).min(255)) as u8
    }
}
/// 16 pixels x nch; `None` where the reference does not define the value (BC7; B of BC3n)
fn ref_decode(f: F, b: &[u8]) -> Option<Vec<Option<u8>>> {
    let mut v = Vec::with_capacity(64);
    for p in 0..16 {
        match f {
            F::Bc1 => v.extend(ref_color(b, p, true).map(Some)),
            F::Bc2 | F::Bc2p | F::Bc3 | F::Bc3p => {
                let c = ref_color(&b[8..], p, false);
                let a = if matches!(f, F::Bc2 | F::Bc2p) { ref_bc2_alpha(b, p) } else { ref_bc4(b, p, false) };
                if matches!(f, F::Bc2p | F::Bc3p) {
                    v.extend([straight(c[0], a), straight(c[1], a), straight(c[2], a), a].map(Some));
                } else {
                    v.extend([c[0], c[1], c[2], a].map(Some));
                }
            }
            F::Rxgb => {
                let c = ref_color(&b[8..], p, false);
                v.extend([ref_bc4(b, p, false), c[1], c[2]].map(Some));
            }
            F::Bc3n => {
                let c = ref_color(&b[8..], p, false);
                v.extend([Some(ref_bc4(b, p, false)), Some(c[1]), None]);
            }
            F::Bc4u => v.push(Some(ref_bc4(b, p, false))),
            F::Bc4s => v.push(Some(ref_bc4(b, p, true))),
            F::Bc5u => v.extend([ref_bc4(b, p, false), ref_bc4(&b[8..], p, false), 0].map(Some)),
            F::Bc5s => v.extend([ref_bc4(b, p, true), ref_bc4(&b[8..], p, true), 128].map(Some)),
            F::Bc7 => return None,
        }
    }
    Some(v)
}

// ---------------------------------------------------------------------------------------------
// block shape and the emitted-block predicate (Rust side; the Lean side is Enc13.lean `Portable`)

fn color_shape(b: &[u8]) -> u8 {
    let c0 = u16::from_le_bytes([b[0], b[1]]);
    let c1 = u16::from_le_bytes([b[2], b[3]]);
    let uses3 = (0..16).any(|p| idx2(b, p) == 3);
    (c0 > c1) as u8 + 2 * uses3 as u8 + 4 * (c0 == c1) as u8
}
fn bc4_shape(b: &[u8], signed: bool) -> u8 {
    let six = if signed { (b[0] as i8) > (b[1] as i8) } else { b[0] > b[1] };
    let uses67 = (0..16).any(|p| idx3(b, p) >= 6);
    six as u8 + 2 * uses67 as u8 + 4 * (b[0] == b[1]) as u8
}
/// mode digits of one block
fn shape(f: F, b: &[u8]) -> String {
    match f {
        F::Bc1 => format!("{}", color_shape(b)),
        F::Bc2 | F::Bc2p => format!("{}", color_shape(&b[8..])),
        F::Bc3 | F::Bc3p | F::Rxgb | F::Bc3n => format!("{}{}", color_shape(&b[8..]), bc4_shape(b, false)),
        F::Bc4u => format!("{}", bc4_shape(b, false)),
        F::Bc4s => format!("{}", bc4_shape(b, true)),
        F::Bc5u => format!("{}{}", bc4_shape(b, false), bc4_shape(&b[8..], false)),
        F::Bc5s => format!("{}{}", bc4_shape(b, true), bc4_shape(&b[8..], true)),
        F::Bc7 => format!("{}", b[0].trailing_zeros()),
    }
}
/// the emitted-block predicate of the property; `ok3`: pixels where index 3 of BC1's three-colour mode may be used
fn portable(f: F, b: &[u8], ok3: u16) -> bool {
    match f {
        F::Bc1 => {
            let c0 = u16::from_le_bytes([b[0], b[1]]);
            let c1 = u16::from_le_bytes([b[2], b[3]]);
            c0 > c1 || (0..16).all(|p| idx2(b, p) != 3 || (ok3 >> p) & 1 == 1)
        }
        F::Bc2 | F::Bc2p | F::Bc3 | F::Bc3p | F::Rxgb | F::Bc3n => {
            let c0 = u16::from_le_bytes([b[8], b[9]]);
            let c1 = u16::from_le_bytes([b[10], b[11]]);
            c0 > c1
        }
        F::Bc4u | F::Bc4s | F::Bc5u | F::Bc5s => true,
        // the reserved mode (first byte 0) is the only unspecified BC7 block
        F::Bc7 => b[0] != 0,
    }
}

/// pixels (bit p) of block (bx, by) that lie inside the image
fn in_image_mask(img: &Img, bx: usize, by: usize) -> u16 {
    let mut m = 0u16;
    for p in 0..16 {
        if bx * 4 + p % 4 < img.w && by * 4 + p / 4 < img.h {
            m |= 1 << p;
        }
    }
    m
}
/// `ok3` of one block: outside the image, or the input pixel is transparent (alpha < 1/2).  With alpha
/// dithering the per-pixel decision is the dither's, so only a block whose in-image pixels are all
/// opaque forbids index 3.
fn ok3_mask(img: &Img, o: Opts, bx: usize, by: usize) -> u16 {
    let inside = in_image_mask(img, bx, by);
    let mut transp = 0u16;
    for p in 0..16 {
        if (inside >> p) & 1 == 1 && img.transparent(bx * 4 + p % 4, by * 4 + p / 4) {
            transp |= 1 << p;
        }
    }
    if o.dith_alpha() {
        let all_opaque = (0..16).all(|p| (inside >> p) & 1 == 0 || img.px(bx * 4 + p % 4, by * 4 + p / 4)[3] >= 255.0);
        if all_opaque {
            !inside
        } else {
            0xFFFF
        }
    } else {
        !inside | transp
    }
}

pub fn hash_block(vals: &[u8]) -> u32 {
    let mut h: u32 = 0x811C_9DC5;
    for &v in vals {
        h = (h ^ v as u32).wrapping_mul(16777619);
        h ^= h >> 15;
    }
    h
}

// ---------------------------------------------------------------------------------------------
// the property's clauses on freshly emitted blocks

#[derive(Clone, Copy, PartialEq, Debug)]
enum Kind {
    Step(f64),
    /// a BC4-type channel: exact for single-value blocks
    Exact,
    Bc7c,
    Bc7a,
}
/// (decoded channel, input channel, premultiply by alpha?, kind, group) — channels of one group share endpoints
fn checks(f: F) -> Vec<(usize, usize, bool, Kind, u8)> {
    let col = |pm: bool| vec![(0, 0, pm, Kind::Step(STEP5), 0u8), (1, 1, pm, Kind::Step(STEP6), 0), (2, 2, pm, Kind::Step(STEP5), 0)];
    match f {
        F::Bc1 => col(false),
        F::Bc2 => [col(false), vec![(3, 3, false, Kind::Step(STEP4), 1)]].concat(),
        F::Bc2p => [col(true), vec![(3, 3, false, Kind::Step(STEP4), 1)]].concat(),
        F::Bc3 => [col(false), vec![(3, 3, false, Kind::Exact, 1)]].concat(),
        F::Bc3p => [col(true), vec![(3, 3, false, Kind::Exact, 1)]].concat(),
        F::Rxgb => vec![(0, 0, false, Kind::Exact, 1), (1, 1, false, Kind::Step(STEP6), 0), (2, 2, false, Kind::Step(STEP5), 0)],
        F::Bc3n => vec![(0, 0, false, Kind::Exact, 1), (1, 1, false, Kind::Step(STEP6), 0)],
        F::Bc4u | F::Bc4s => vec![(0, 0, false, Kind::Exact, 0)],
        F::Bc5u | F::Bc5s => vec![(0, 0, false, Kind::Exact, 0), (1, 1, false, Kind::Exact, 1)],
        F::Bc7 => vec![(0, 0, false, Kind::Bc7c, 0), (1, 1, false, Kind::Bc7c, 0), (2, 2, false, Kind::Bc7c, 0), (3, 3, false, Kind::Bc7a, 0)],
    }
}

fn src_val(px: [f64; 4], ch: usize, premul: bool) -> f64 {
    if premul {
        px[ch] * px[3] / 255.0
    } else {
        px[ch]
    }
}

/// evaluate the property on the blocks `enc` emitted for `img`; `wit`: witness blocks (class two)
fn oracle(f: F, o: Opts, img: &Img, enc: &[u8], wit: Option<&[u8]>, msgs: &mut Vec<String>) {
    let (wb, hb) = (img.blocks_w(), img.blocks_h());
    let bpb = f.bpb();
    let nch = f.nch();
    let tag = format!("fmt={} q={} m={} d={}", f.name(), o.q, o.m, o.d);
    let dec = match lib_decode(f, wb, enc) {
        Ok(d) => d,
        Err(e) => {
            msgs.push(format!("decode-failed: {tag} {e}"));
            return;
        }
    };
    // stored-space view for the premultiplied formats
    let dec_stored = if f.stored() != f {
        match lib_decode(f.stored(), wb, enc) {
            Ok(d) => d,
            Err(e) => {
                msgs.push(format!("decode-failed: {tag} stored {e}"));
                return;
            }
        }
    } else {
        dec.clone()
    };
    let wit_dec = wit.and_then(|w| lib_decode(f.stored(), wb, w).ok());
    for b in 0..wb * hb {
        let (bx, by) = (b % wb, b / wb);
        let blk = &enc[b * bpb..(b + 1) * bpb];
        let hex = hex_encode(blk);
        let inside = in_image_mask(img, bx, by);
        let pix: Vec<usize> = (0..16).filter(|p| (inside >> p) & 1 == 1).collect();
        let inpx = |p: usize| img.px(bx * 4 + p % 4, by * 4 + p / 4);

        // --- portability
        let ok3 = ok3_mask(img, o, bx, by);
        if !portable(f, blk, ok3) {
            msgs.push(format!("not-portable: {tag} block={b} ok3={ok3:04x} blk={hex}"));
        }

        // --- library decoder against the reference decoder written from the specification
        if let Some(r) = ref_decode(f, blk) {
            for (i, want) in r.iter().enumerate() {
                if let Some(wv) = want {
                    if *wv != dec[b][i] {
                        msgs.push(format!(
                            "decode-mismatch-ref: {tag} block={b} px={} ch={} lib={} ref={} blk={hex}",
                            i / nch, i % nch, dec[b][i], wv
                        ));
                        break;
                    }
                }
            }
        }

        // --- opaque stays opaque (alpha-carrying formats), BC1 alpha threshold
        let alpha_ch = match f {
            F::Bc1 | F::Bc2 | F::Bc2p | F::Bc3 | F::Bc3p | F::Bc7 => Some(3usize),
            _ => None,
        };
        if let Some(ac) = alpha_ch {
            let all_opaque = pix.iter().all(|&p| inpx(p)[3] >= 255.0);
            if all_opaque {
                for &p in &pix {
                    if dec[b][p * nch + ac] != 255 {
                        msgs.push(format!("opaque-lost: {tag} block={b} px={p} alpha={} blk={hex}", dec[b][p * nch + ac]));
                        break;
                    }
                }
            }
        }
        if f == F::Bc1 {
            let all_transp = pix.iter().all(|&p| inpx(p)[3] <= 0.0);
            for &p in &pix {
                let a_in = inpx(p)[3];
                let a_dec = dec[b][p * nch + 3];
                let want: Option<u8> = if !o.dith_alpha() {
                    Some(if a_in < 127.5 { 0 } else { 255 })
                } else if all_transp {
                    Some(0)
                } else {
                    None // all-opaque blocks are covered by opaque-lost; mixed blocks are the dither's decision
                };
                if let Some(wa) = want {
                    if a_dec != wa {
                        msgs.push(format!(
                            "bc1-alpha-threshold: {tag} block={b} px={p} alpha_in={a_in} alpha_dec={a_dec} want={wa} blk={hex}"
                        ));
                        break;
                    }
                }
            }
        }

        // --- error floors (no dithering only)
        if o.d != 'N' {
            continue;
        }
        let cks = checks(f);
        let groups: Vec<u8> = {
            let mut g: Vec<u8> = cks.iter().map(|c| c.4).collect();
            g.sort();
            g.dedup();
            g
        };
        for g in groups {
            let gc: Vec<_> = cks.iter().filter(|c| c.4 == g).collect();
            // pixels that carry this group: BC1 colour only for opaque pixels
            let carriers: Vec<usize> = if f == F::Bc1 {
                pix.iter().copied().filter(|&p| inpx(p)[3] >= 127.5).collect()
            } else {
                pix.clone()
            };
            if carriers.is_empty() {
                continue;
            }
            let val = |p: usize, c: &(usize, usize, bool, Kind, u8)| src_val(inpx(p), c.1, c.2);
            let single = carriers.iter().all(|&p| gc.iter().all(|c| val(p, c) == val(carriers[0], c)));
            // class two: every carrier pixel equals, in the channels of this group, a pixel of the witness block
            let two = !single
                && wit_dec.as_ref().map_or(false, |wd| {
                    carriers.iter().all(|&p| {
                        (0..16).any(|wp| gc.iter().all(|c| wd[b][wp * nch + c.0] as f64 == val(p, c)))
                    })
                });
            if !single && !two {
                continue;
            }
            let clause = if single { "single" } else { "two" };
            for &p in &carriers {
                for c in &gc {
                    let want = val(p, c);
                    let got = dec_stored[b][p * nch + c.0] as f64;
                    let err = (got - want).abs();
                    let integral = want.fract() == 0.0;
                    let (bound, name) = match c.3 {
                        Kind::Step(s) => (s, "step"),
                        Kind::Exact => {
                            if single {
                                if !integral {
                                    continue;
                                }
                                (0.0, "exact")
                            } else if matches!(f, F::Bc4s | F::Bc5s) {
                                (STEP8S, "step")
                            } else {
                                (STEP8U, "step")
                            }
                        }
                        Kind::Bc7c => {
                            if single {
                                if !integral {
                                    continue;
                                }
                                (0.0, "exact")
                            } else {
                                (STEP7C, "step")
                            }
                        }
                        Kind::Bc7a => {
                            if single {
                                if !integral {
                                    continue;
                                }
                                (0.0, "exact")
                            } else {
                                (STEP7A, "step")
                            }
                        }
                    };
                    if err > bound {
                        let grid = match c.3 {
                            Kind::Step(s) if s == STEP4 => "alpha4",
                            Kind::Step(_) => "565",
                            Kind::Exact => "bc4",
                            Kind::Bc7c | Kind::Bc7a => "bc7",
                        };
                        msgs.push(format!(
                            "{clause}-{name}-bound: grid={grid} {tag} block={b} px={p} ch={} in={want} dec={got} bound={bound} blk={hex}",
                            c.0
                        ));
                    }
                }
            }
        }
    }
}

/// (offset, length) of the pieces of a block that the discrete encoder model (`Enc13.predictBlock`) predicts —
/// availability rule only; the VALUES are the model's, compared in the tie.  `px`: the RGBA8 pixels of the block
/// that lie inside the image (the padding of a partial block repeats pixels of the block, so "constant over the
/// in-image pixels" is "constant over the 16 encoded pixels").
fn predicted_pieces(f: F, o: Opts, px: &[[u8; 4]]) -> Vec<(usize, usize)> {
    let q = o.q;
    let plain = o.d == 'N';
    let single = px.iter().all(|p| *p == px[0]);
    let chan = |c: usize| -> Option<u8> {
        if px.iter().all(|p| p[c] == px[0][c]) {
            Some(px[0][c])
        } else {
            None
        }
    };
    // --- single-coloured block, no dithering (Enc13.predictSingle)
    let mut pieces: Vec<(usize, usize)> = if single && plain {
        let corner = |e: u8| e == 0 || e == 255;
        let bc4: Vec<(usize, usize)> = if q == 'U' { vec![] } else { vec![(0, 8)] };
        let col = |ok: bool| -> Vec<(usize, usize)> { if ok { vec![(8, 8)] } else { vec![] } };
        let [r, g, b, a] = px[0];
        let c3 = corner(r) && corner(g) && corner(b);
        match f {
            F::Bc7 => vec![(0, 16)],
            F::Bc1 => {
                if a >= 128 && !c3 {
                    vec![]
                } else {
                    vec![(0, 8)]
                }
            }
            F::Bc2 => col(c3),
            F::Bc2p => col(a == 255 && c3),
            F::Bc3 => [bc4, col(c3)].concat(),
            F::Bc3p => [bc4, col(a == 255 && c3)].concat(),
            F::Rxgb => [bc4, col(corner(g) && corner(b))].concat(),
            F::Bc3n => [bc4, col(corner(g))].concat(),
            F::Bc4u => bc4,
            F::Bc5u => {
                if q == 'U' {
                    vec![]
                } else {
                    vec![(0, 8), (8, 8)]
                }
            }
            F::Bc4s | F::Bc5s => vec![],
        }
    } else {
        vec![]
    };
    // --- pieces that do not need a single-coloured block
    // BC4-type UNORM block of a constant channel
    let u = |o8: usize, c: usize| -> Vec<(usize, usize)> {
        if chan(c).is_some() && plain && q != 'U' {
            vec![(o8, 8)]
        } else {
            vec![]
        }
    };
    // BC4-type SNORM block of a constant channel on the `closest` branch: the 8-bit values 0 and 255
    let sn = |o8: usize, c: usize| -> Vec<(usize, usize)> {
        if matches!(chan(c), Some(0) | Some(255)) {
            vec![(o8, 8)]
        } else {
            vec![]
        }
    };
    let extra: Vec<(usize, usize)> = match f {
        // the eight explicit alpha bytes of every block unless alpha is dithered
        F::Bc2 | F::Bc2p => {
            if o.dith_alpha() {
                vec![]
            } else {
                vec![(0, 8)]
            }
        }
        F::Bc3 | F::Bc3p => u(0, 3),
        F::Rxgb | F::Bc3n | F::Bc4u => u(0, 0),
        F::Bc5u => [u(0, 0), u(8, 1)].concat(),
        F::Bc4s => sn(0, 0),
        F::Bc5s => [sn(0, 0), sn(8, 1)].concat(),
        F::Bc1 | F::Bc7 => vec![],
    };
    for e in extra {
        if !pieces.iter().any(|p| p.0 == e.0) {
            pieces.push(e);
        }
    }
    pieces.sort();
    pieces
}

// ---------------------------------------------------------------------------------------------
// BC7 header fields of an emitted block, read with a bit reader written from the format specification
// (independent of the Lean model's `Bc7Spec.rd` / `Enc13.bc7Fields`, which the driver uses)

/// per mode: subsets, partition bits, rotation bits, index-selection bits, colour bits, alpha bits,
/// p-bits per endpoint (1/0), p-bits per subset (1/0)
const BC7_MODES: [[u32; 8]; 8] = [
    [3, 4, 0, 0, 4, 0, 1, 0],
    [2, 6, 0, 0, 6, 0, 0, 1],
    [3, 6, 0, 0, 5, 0, 0, 0],
    [2, 6, 0, 0, 7, 0, 1, 0],
    [1, 0, 2, 1, 5, 6, 0, 0],
    [1, 0, 2, 0, 7, 8, 0, 0],
    [1, 0, 0, 0, 7, 7, 1, 0],
    [2, 6, 0, 0, 5, 5, 1, 0],
];

/// `mode.partition.rotation.selector.pbits.alpha-fields` (`_` = the mode has no such field; `8` = reserved mode)
fn bc7_obs(b: &[u8]) -> String {
    let mut v: u128 = 0;
    for (i, x) in b.iter().enumerate().take(16) {
        v |= (*x as u128) << (8 * i);
    }
    let mode = (0..8).find(|m| (v >> m) & 1 == 1);
    let mode = match mode {
        Some(m) => m as usize,
        None => return "8".to_string(),
    };
    let [ns, pb, rb, isb, cb, ab, epb, spb] = BC7_MODES[mode];
    let mut pos = mode as u32 + 1;
    let mut read = |n: u32| -> u32 {
        let r = if n == 0 { 0 } else { ((v >> pos) & ((1u128 << n) - 1)) as u32 };
        pos += n;
        r
    };
    let part = read(pb);
    let rot = read(rb);
    let sel = read(isb);
    for _ in 0..3 * 2 * ns {
        read(cb);
    }
    let alpha: Vec<String> = if ab == 0 { vec![] } else { (0..2 * ns).map(|_| read(ab).to_string()).collect() };
    let np = if epb == 1 { 2 * ns } else if spb == 1 { ns } else { 0 };
    let pbits: String = (0..np).map(|_| if read(1) == 1 { '1' } else { '0' }).collect();
    format!(
        "{mode}.{part}.{rot}.{sel}.{}.{}",
        if pbits.is_empty() { "_".to_string() } else { pbits },
        if alpha.is_empty() { "_".to_string() } else { alpha.join(",") }
    )
}


// ---------------------------------------------------------------------------------------------
// BC7 encoder internals: direct tie through `dds::verif_hook` (notes/hook_bc7_writer.patch) and the encoder's
// weight tables as source text

/// per mode: #endpoints, colour bits, alpha bits (modes 4, 5: of the separate alpha endpoints; 6, 7: = colour bits),
/// #p-bits, index bits, second index bits, #partitions, subsets
const W7_SHAPE: [(usize, u32, u32, usize, u32, u32, u32, u32); 8] = [
    (6, 4, 0, 6, 3, 0, 16, 3),
    (4, 6, 0, 2, 3, 0, 64, 2),
    (6, 5, 0, 0, 2, 0, 64, 3),
    (4, 7, 0, 4, 2, 0, 64, 2),
    (2, 5, 6, 0, 2, 3, 64, 1),
    (2, 7, 8, 0, 2, 2, 64, 1),
    (2, 7, 7, 2, 4, 0, 64, 1),
    (4, 5, 5, 4, 2, 0, 64, 2),
];

fn csv(s: &str) -> Option<Vec<u32>> {
    if s == "-" {
        Some(vec![])
    } else {
        s.split(',').map(|x| if x.is_empty() || x.len() > 9 || !x.bytes().all(|c| c.is_ascii_digit()) { None } else { x.parse().ok() }).collect()
    }
}

struct W7 {
    mode: usize,
    part: u32,
    rot: u32,
    sel: u32,
    eps: Vec<u32>,
    al: Vec<u32>,
    pb: Vec<u32>,
    ix: Vec<u32>,
    ix2: Vec<u32>,
}

fn parse_w7h(t: &[&str]) -> Option<W7> {
    if t.len() != 9 {
        return None;
    }
    let n = |s: &str| -> Option<u32> { csv(s).filter(|v| v.len() == 1).map(|v| v[0]) };
    let w = W7 { mode: n(t[0])? as usize, part: n(t[1])?, rot: n(t[2])?, sel: n(t[3])?, eps: csv(t[4])?, al: csv(t[5])?, pb: csv(t[6])?, ix: csv(t[7])?, ix2: csv(t[8])? };
    if w.mode >= 8 {
        return None;
    }
    let (ne, cb, ab, np, ib, ib2, nparts, _) = W7_SHAPE[w.mode];
    let nch = if w.mode >= 6 { 4 } else { 3 };
    let sep = w.mode == 4 || w.mode == 5;
    let ok = w.part < nparts
        && w.rot < 4
        && w.sel < 2
        && w.eps.len() == ne * nch
        && w.eps.iter().all(|&v| v < 1 << cb)
        && w.al.len() == if sep { 2 } else { 0 }
        && w.al.iter().all(|&v| v < 1 << ab)
        && w.pb.len() == np
        && w.pb.iter().all(|&v| v < 2)
        && w.ix.len() == 16
        && w.ix.iter().all(|&v| v < 1 << ib)
        && w.ix2.len() == if ib2 == 0 { 0 } else { 16 }
        && w.ix2.iter().all(|&v| v < 1 << ib2);
    if ok {
        Some(w)
    } else {
        None
    }
}

/// what the block is meant to decode to, computed from the format specification (weights on the 0..64 scale,
/// `(v << 1 | p)` widened by bit replication, partition tables of the C03x oracle) - independent of the encoder's and
/// of the Lean model's arithmetic
fn w7_intended(w: &W7) -> Vec<[u8; 4]> {
    const SW2: [u32; 4] = [0, 21, 43, 64];
    const SW3: [u32; 8] = [0, 9, 18, 27, 37, 46, 55, 64];
    const SW4: [u32; 16] = [0, 4, 9, 13, 17, 21, 26, 30, 34, 38, 43, 47, 51, 55, 60, 64];
    let wt = |bits: u32, i: u32| match bits {
        2 => SW2[i as usize],
        3 => SW3[i as usize],
        _ => SW4[i as usize],
    };
    let expand = |v: u32, bits: u32| if bits >= 8 { v } else { ((v << (8 - bits)) | (v >> (2 * bits - 8))) & 255 };
    let lerp = |a: u32, b: u32, wgt: u32| ((64 - wgt) * a + wgt * b + 32) >> 6;
    let (_, cb, ab, _, ib, ib2, _, ns) = W7_SHAPE[w.mode];
    let nch = if w.mode >= 6 { 4 } else { 3 };
    // fully decoded endpoint `e`, channel `c`
    let endpoint = |e: usize, c: usize| -> u32 {
        if c == 3 && w.mode <= 3 {
            return 255;
        }
        let (raw, bits) = if c == 3 && (w.mode == 4 || w.mode == 5) { (w.al[e], ab) } else { (w.eps[e * nch + c], cb) };
        match w.mode {
            0 | 3 | 6 | 7 => expand(raw << 1 | w.pb[e], bits + 1),
            1 => expand(raw << 1 | w.pb[e / 2], bits + 1),
            _ => expand(raw, bits),
        }
    };
    (0..16)
        .map(|i| {
            let s = crate::c03x::subset_of(ns, w.part as usize, i);
            let (e0, e1) = (2 * s, 2 * s + 1);
            let (wc, wa) = if ib2 == 0 {
                (wt(ib, w.ix[i]), wt(ib, w.ix[i]))
            } else if w.mode == 4 && w.sel == 1 {
                (wt(ib2, w.ix2[i]), wt(ib, w.ix[i]))
            } else {
                (wt(ib, w.ix[i]), wt(ib2, w.ix2[i]))
            };
            let mut p = [0u8; 4];
            for c in 0..4 {
                p[c] = lerp(endpoint(e0, c), endpoint(e1, c), if c == 3 { wa } else { wc }) as u8;
            }
            if w.mode == 4 || w.mode == 5 {
                match w.rot {
                    1 => p.swap(0, 3),
                    2 => p.swap(1, 3),
                    3 => p.swap(2, 3),
                    _ => {}
                }
            }
            p
        })
        .collect()
}

#[cfg(dds_verif_bc7hook)]
fn hook_write(w: &W7) -> [u8; 16] {
    let u8s = |v: &[u32]| v.iter().map(|&x| x as u8).collect::<Vec<u8>>();
    let mut eps = u8s(&w.eps);
    eps.extend(u8s(&w.al));
    let pb: Vec<bool> = w.pb.iter().map(|&x| x == 1).collect();
    dds::verif_hook::bc7_write(w.mode as u8, w.part as u8, w.rot as u8, w.sel as u8, &eps, &pb, &u8s(&w.ix), &u8s(&w.ix2))
}

fn run_w7h(t: &[&str]) -> (String, Vec<String>) {
    let w = match parse_w7h(t) {
        Some(w) => w,
        None => return ("bad-case".into(), vec![]),
    };
    #[cfg(not(dds_verif_bc7hook))]
    {
        let _ = w7_intended(&w);
        ("no-hook".into(), vec![])
    }
    #[cfg(dds_verif_bc7hook)]
    {
        let block = hook_write(&w);
        let mut msgs = vec![];
        // T1 on the real code: the library decoder on the written block shows the intended palette entries
        match lib_decode(F::Bc7, 1, &block) {
            Ok(dec) => {
                let want = w7_intended(&w);
                for i in 0..16 {
                    if dec[0][4 * i..4 * i + 4] != want[i] {
                        msgs.push(format!(
                            "bc7-writer-roundtrip: mode={} part={} rot={} sel={} block={} pixel={} decoded={:?} intended={:?}",
                            w.mode, w.part, w.rot, w.sel, hex_encode(&block), i, &dec[0][4 * i..4 * i + 4], want[i]
                        ));
                        break;
                    }
                }
            }
            Err(e) => msgs.push(format!("bc7-writer-roundtrip: decode failed {e}")),
        }
        (format!("ok {}", hex_encode(&block)), msgs)
    }
}

struct Cl7 {
    kind: u8,
    nch: usize,
    bits: u32,
    e0: Vec<u32>,
    e1: Vec<u32>,
    px: Vec<u32>,
}

fn parse_cl7h(t: &[&str]) -> Option<Cl7> {
    if t.len() != 5 {
        return None;
    }
    let (kind, nch) = match t[0] {
        "rgb" => (0u8, 3usize),
        "rgba" => (1, 4),
        "alpha" => (2, 1),
        _ => return None,
    };
    let bits = csv(t[1]).filter(|v| v.len() == 1)?[0];
    let ok_bits = match kind {
        0 | 2 => bits == 2 || bits == 3,
        _ => bits == 2 || bits == 4,
    };
    let c = Cl7 { kind, nch, bits, e0: csv(t[2])?, e1: csv(t[3])?, px: csv(t[4])? };
    let ok = ok_bits
        && c.e0.len() == nch
        && c.e1.len() == nch
        && !c.px.is_empty()
        && c.px.len() % nch == 0
        && c.px.len() / nch <= 16
        && (kind != 2 || c.px.len() == 16)
        && c.e0.iter().chain(&c.e1).chain(&c.px).all(|&v| v < 256);
    if ok {
        Some(c)
    } else {
        None
    }
}

/// exhaustive first-minimum search written from the specification's interpolation formula
fn cl7_reference(c: &Cl7) -> (Vec<u32>, u64) {
    const SW2: [i64; 4] = [0, 21, 43, 64];
    const SW3: [i64; 8] = [0, 9, 18, 27, 37, 46, 55, 64];
    const SW4: [i64; 16] = [0, 4, 9, 13, 17, 21, 26, 30, 34, 38, 43, 47, 51, 55, 60, 64];
    let wts: &[i64] = match c.bits {
        2 => &SW2,
        3 => &SW3,
        _ => &SW4,
    };
    let n = c.px.len() / c.nch;
    let mut idx = vec![];
    let mut err = 0u64;
    for i in 0..n {
        let mut best = (0u32, i64::MAX);
        for (j, &w) in wts.iter().enumerate() {
            let mut d = 0i64;
            for ch in 0..c.nch {
                let v = ((64 - w) * c.e0[ch] as i64 + w * c.e1[ch] as i64 + 32) >> 6;
                let x = c.px[i * c.nch + ch] as i64 - v;
                d += x * x;
            }
            if d < best.1 {
                best = (j as u32, d);
            }
        }
        idx.push(best.0);
        err += best.1 as u64;
    }
    (idx, err)
}

fn run_cl7h(t: &[&str]) -> (String, Vec<String>) {
    let c = match parse_cl7h(t) {
        Some(c) => c,
        None => return ("bad-case".into(), vec![]),
    };
    #[cfg(not(dds_verif_bc7hook))]
    {
        let _ = cl7_reference(&c);
        let _ = (c.kind, c.bits);
        ("no-hook".into(), vec![])
    }
    #[cfg(dds_verif_bc7hook)]
    {
        let u8s = |v: &[u32]| v.iter().map(|&x| x as u8).collect::<Vec<u8>>();
        let (idx, err) = dds::verif_hook::bc7_closest(c.kind, c.bits as u8, &u8s(&c.e0), &u8s(&c.e1), &u8s(&c.px));
        let mut msgs = vec![];
        // the property-level demand: every chosen entry is A nearest palette entry and the error is the sum of the least
        // distances (WHICH of several equally near entries is chosen is the tie's business, not the oracle's)
        let (ridx, rerr) = cl7_reference(&c);
        let n = c.px.len() / c.nch;
        let dist = |i: usize, j: u32| -> i64 {
            let wts: &[i64] = match c.bits {
                2 => &[0, 21, 43, 64],
                3 => &[0, 9, 18, 27, 37, 46, 55, 64],
                _ => &[0, 4, 9, 13, 17, 21, 26, 30, 34, 38, 43, 47, 51, 55, 60, 64],
            };
            let w = wts[j as usize];
            (0..c.nch)
                .map(|ch| {
                    let v = ((64 - w) * c.e0[ch] as i64 + w * c.e1[ch] as i64 + 32) >> 6;
                    let x = c.px[i * c.nch + ch] as i64 - v;
                    x * x
                })
                .sum()
        };
        let nearest = idx.len() == n && (0..n).all(|i| (idx[i] as u32) < (1 << c.bits) && dist(i, idx[i] as u32) == dist(i, ridx[i]));
        if !nearest || err as u64 != rerr {
            msgs.push(format!(
                "bc7-closest-argmin: kind={} bits={} e0={:?} e1={:?} pixels={:?}: code {:?} err {}; a nearest entry per pixel {:?} err {}",
                t[0], c.bits, c.e0, c.e1, c.px, idx, err, ridx, rerr
            ));
        }
        (format!("ok {} {}", idx.iter().map(|x| x.to_string()).collect::<Vec<_>>().join(","), err), msgs)
    }
}

/// the literal `const WEIGHTS_<w>: [u16; n] = [..];` of src/encode/bc7.rs (the ENCODER's copy of the tables)
fn encoder_weights(w: u32) -> Option<Vec<u32>> {
    let toml = std::fs::read_to_string(concat!(env!("CARGO_MANIFEST_DIR"), "/Cargo.toml")).ok()?;
    let line = toml.lines().map(|l| l.trim()).find(|l| l.starts_with("dds") && l[3..].trim_start().starts_with('='))?;
    let rest = &line[line.find("path")?..];
    let q1 = rest.find('"')?;
    let q2 = rest[q1 + 1..].find('"')?;
    let src = std::fs::read_to_string(format!("{}/src/encode/bc7.rs", &rest[q1 + 1..q1 + 1 + q2])).ok()?;
    let at = src.find(&format!("const WEIGHTS_{w}:"))?;
    let body = &src[at..];
    let eq = body.find('=')?;
    let open = eq + body[eq..].find('[')?;
    let close = open + body[open..].find(']')?;
    body[open + 1..close].split(',').map(|x| x.trim()).filter(|x| !x.is_empty()).map(|x| x.parse().ok()).collect()
}

fn run_w7e(t: &[&str]) -> (String, Vec<String>) {
    if t.len() != 2 {
        return ("bad-case".into(), vec![]);
    }
    let (w, ws) = match (csv(t[0]).filter(|v| v.len() == 1).map(|v| v[0]), csv(t[1])) {
        (Some(w), Some(ws)) if (2..=4).contains(&w) => (w, ws),
        _ => return ("bad-case".into(), vec![]),
    };
    // tie only (the model's table against the source text): no oracle line - a retuned table is not by itself a
    // violation of the property
    let now = encoder_weights(w).unwrap_or_default();
    let msgs = vec![];
    let same = if now == ws { "same" } else { "DIFFERENT" };
    (format!("ok {} {same}", now.iter().map(|x| x.to_string()).collect::<Vec<_>>().join(",")), msgs)
}

/// class `b7m`: BC7 blocks made of two or three colour clusters laid out along a partition of the format (own PRNG,
/// appended): content for which the partitioned modes 0-3 (opaque) and 7 (translucent) win, so that the `cl7`
/// re-derivation (`closest_*` per subset + `merge2 / merge3` + `compress_p2 / p3`) sees every mode
fn gen_b7m(seed: u64, thorough: bool, specs: &mut Vec<Spec>) {
    let mut rng = Rng::new(seed ^ 0xB7_33);
    let reps = if thorough { 120 } else { 14 };
    for &q in &['F', 'N', 'H', 'U'] {
        let n = if q == 'U' || q == 'H' { reps * 2 } else { reps };
        for k in 0..n {
            let o = Opts { q, m: 'U', d: 'N' };
            let translucent = k % 3 == 2;
            let mut parts = vec![];
            for _ in 0..4 {
                let ns = if rng.chance(1, 2) { 2u32 } else { 3 };
                let part = rng.below(if ns == 3 && q == 'F' { 16 } else { 64 }) as usize;
                let cols: Vec<[u8; 4]> = (0..3)
                    .map(|_| {
                        let mut c = rand_color(&mut rng);
                        c[3] = if translucent { rng.range(40, 250) as u8 } else { 255 };
                        c
                    })
                    .collect();
                let amp = *rng.pick(&[0u64, 0, 3, 12]);
                parts.push((ns, part, cols, amp));
            }
            let mut r2 = Rng::new(rng.next());
            let img = block_row(4, |b, p| {
                let (ns, part, cols, amp) = &parts[b];
                let mut c = cols[crate::c03x::subset_of(*ns, *part, p)];
                for ch in 0..3 {
                    c[ch] = (c[ch] as u64 * (255 - amp) / 255 + r2.below(amp + 1)) as u8;
                }
                c
            });
            specs.push(Spec { class: "b7m", f: F::Bc7, o, img, wit: None });
        }
    }
}

/// the `w7e` lines (always) and, when the hook exists, the direct writer / closest cases
fn gen_bc7_internals(seed: u64, thorough: bool) -> Vec<String> {
    let mut out = vec![];
    for w in 2..=4 {
        let ws = encoder_weights(w).unwrap_or_default();
        out.push(format!("w7e {w} {}", if ws.is_empty() { "-".to_string() } else { ws.iter().map(|x| x.to_string()).collect::<Vec<_>>().join(",") }));
    }
    if !cfg!(dds_verif_bc7hook) {
        return out;
    }
    let mut rng = Rng::new(seed ^ 0xC13_B7);
    let j = |v: &[u32]| if v.is_empty() { "-".to_string() } else { v.iter().map(|x| x.to_string()).collect::<Vec<_>>().join(",") };
    let reps = if thorough { 24 } else { 3 };
    for mode in 0..8usize {
        let (ne, cb, ab, np, ib, ib2, nparts, _) = W7_SHAPE[mode];
        let nch = if mode >= 6 { 4 } else { 3 };
        let sep = mode == 4 || mode == 5;
        // every partition (modes 0-3, 7) / every rotation x selector (mode 4) / every rotation (mode 5) / mode 6 once
        let variants: Vec<(u32, u32, u32)> = match mode {
            4 => (0..4).flat_map(|r| (0..2).map(move |s| (0, r, s))).collect(),
            5 => (0..4).map(|r| (0, r, 0)).collect(),
            6 => vec![(0, 0, 0)],
            _ => (0..nparts).map(|p| (p, 0, 0)).collect(),
        };
        for &(part, rot, sel) in &variants {
            let extra = if variants.len() < 16 { 8 } else { 1 };
            // index patterns: all anchors' top bits set (all max), all zero, all = top bit only, alternating, random
            for pat in 0..(5 + reps * extra) {
                let fill = |bits: u32, rng: &mut Rng| -> Vec<u32> {
                    if bits == 0 {
                        return vec![];
                    }
                    let max = (1u32 << bits) - 1;
                    (0..16)
                        .map(|i| match pat {
                            0 => max,
                            1 => 0,
                            2 => 1 << (bits - 1),
                            3 => if i % 2 == 0 { max } else { 0 },
                            4 => if i % 2 == 0 { 0 } else { max },
                            _ => rng.below(max as u64 + 1) as u32,
                        })
                        .collect()
                };
                let ext = |bits: u32, rng: &mut Rng| -> u32 {
                    let max = (1u32 << bits) - 1;
                    match rng.below(6) {
                        0 => 0,
                        1 => max,
                        _ => rng.below(max as u64 + 1) as u32,
                    }
                };
                let eps: Vec<u32> = (0..ne * nch).map(|_| ext(cb, &mut rng)).collect();
                let al: Vec<u32> = if sep { (0..2).map(|_| ext(ab, &mut rng)).collect() } else { vec![] };
                let pb: Vec<u32> = (0..np).map(|_| rng.below(2) as u32).collect();
                let ix = fill(ib, &mut rng);
                let ix2 = fill(ib2, &mut rng);
                out.push(format!("w7h {mode} {part} {rot} {sel} {} {} {} {} {}", j(&eps), j(&al), j(&pb), j(&ix), j(&ix2)));
            }
        }
    }
    // closest_*: random endpoints / pixels, equal endpoints (every entry ties), pixels ON palette entries, pixels
    // half way between two entries
    for k in 0..(if thorough { 6000 } else { 600 }) {
        let (kind, nch, bits) = *rng.pick(&[("rgb", 3usize, 2u32), ("rgb", 3, 3), ("rgba", 4, 2), ("rgba", 4, 4), ("alpha", 1, 2), ("alpha", 1, 3)]);
        let e0: Vec<u32> = (0..nch).map(|_| rng.below(256) as u32).collect();
        let e1: Vec<u32> = match k % 5 {
            0 => e0.clone(),
            1 => e0.iter().map(|&v| (v + rng.below(4) as u32).min(255)).collect(),
            _ => (0..nch).map(|_| rng.below(256) as u32).collect(),
        };
        let n = if kind == "alpha" { 16 } else { rng.range(1, 16) as usize };
        let px: Vec<u32> = (0..n * nch)
            .map(|i| {
                let (a, b) = (e0[i % nch], e1[i % nch]);
                match rng.below(4) {
                    0 => (a + b) / 2,
                    1 => if rng.chance(1, 2) { a } else { b },
                    _ => rng.below(256) as u32,
                }
            })
            .collect();
        out.push(format!("cl7h {kind} {bits} {} {} {}", j(&e0), j(&e1), j(&px)));
    }
    out
}

// ---------------------------------------------------------------------------------------------
// run

// ---------------------------------------------------------------------------------------------
// BC1-BC5 encoder core (lean/DdsModel/DdsModel/EncBc15.lean): tokens `w15`, `cl15` of the result line

/// Which 8-byte halves of a block of format `f` the model re-derives from the block's own endpoints and the ORIGINAL
/// pixels (`cl15`; availability only - the values are the emitted bytes here and the model's bytes in the driver):
/// `(byte offset, asserted)`.  A 5:6:5 colour half: metric Uniform, no colour dithering (BC1: no alpha dithering
/// either - it changes the alpha map the block is compressed with).  A BC4-type half: its dither switch off - BC3 /
/// BC3 premultiplied alpha follows ALPHA dithering, every other BC4-type half COLOUR dithering.  BC2's explicit alpha
/// half is predicted by `pred` already.
fn bc15_halves(f: F, o: Opts) -> Vec<(usize, bool)> {
    let colour = o.m == 'U' && !o.dith_color();
    match f {
        F::Bc1 => vec![(0, colour && !o.dith_alpha())],
        F::Bc2 | F::Bc2p => vec![(0, false), (8, colour)],
        F::Bc3 | F::Bc3p => vec![(0, !o.dith_alpha()), (8, colour)],
        F::Rxgb | F::Bc3n => vec![(0, !o.dith_color()), (8, colour)],
        F::Bc4u | F::Bc4s => vec![(0, !o.dith_color())],
        F::Bc5u | F::Bc5s => vec![(0, !o.dith_color()), (8, !o.dith_color())],
        F::Bc7 => vec![],
    }
}

/// `w15`: hash of every emitted BC1-BC5 block (the driver parses the block with the decoder-side readers into endpoints
/// and indexes, writes it again with the model's writers and constructors and prints the hash of what it wrote);
/// `cl15`: per block the hashes of the halves named by `bc15_halves`, for RGBA8 images and blocks fully inside the image.
fn bc15_tokens(f: F, o: Opts, img: &Img, blocks: &[u8]) -> (String, String) {
    if f == F::Bc7 {
        return ("-".into(), "-".into());
    }
    let bpb = f.bpb();
    let wb = img.blocks_w();
    let nb = blocks.len() / bpb;
    let w15: String = (0..nb).map(|b| format!("{:08x}", hash_block(&blocks[b * bpb..(b + 1) * bpb]))).collect();
    if img.prec != InPrec::Rgba8 {
        return (w15, "-".into());
    }
    let halves = bc15_halves(f, o);
    let cl15 = (0..nb)
        .map(|b| {
            if in_image_mask(img, b % wb, b / wb) != 0xFFFF {
                return "-".to_string();
            }
            halves
                .iter()
                .map(|&(off, on)| {
                    if on {
                        format!("{:08x}", hash_block(&blocks[b * bpb + off..b * bpb + off + 8]))
                    } else {
                        "-".to_string()
                    }
                })
                .collect::<Vec<_>>()
                .join(".")
        })
        .collect::<Vec<_>>()
        .join(";");
    (w15, cl15)
}

struct Case {
    class: String,
    f: F,
    o: Opts,
    img: Img,
    wit: Option<Vec<u8>>,
    ok3: Option<Vec<u16>>,
    blocks: Vec<u8>,
}

fn parse(line: &str) -> Option<Case> {
    let t = toks(line);
    if t.len() != 12 {
        return None;
    }
    let f = F::parse(t[1])?;
    let c = |s: &str| -> Option<char> {
        if s.len() == 1 {
            s.chars().next()
        } else {
            None
        }
    };
    let o = Opts { q: c(t[2])?, m: c(t[3])?, d: c(t[4])? };
    o.enc()?;
    let w: usize = t[5].parse().ok()?;
    let h: usize = t[6].parse().ok()?;
    let prec = InPrec::parse(t[7])?;
    let data = hex_decode(t[8])?;
    if w == 0 || h == 0 || w > 64 || h > 64 || data.len() != w * h * prec.bpp() {
        return None;
    }
    let img = Img { w, h, prec, data };
    let nb = img.blocks_w() * img.blocks_h();
    let wit = if t[9] == "-" {
        None
    } else {
        let v = hex_decode(t[9])?;
        if v.len() != nb * f.bpb() {
            return None;
        }
        Some(v)
    };
    let ok3 = if t[10] == "-" {
        if f == F::Bc1 {
            return None;
        }
        None
    } else {
        let v = hex_decode(t[10])?;
        if f != F::Bc1 || v.len() != nb * 2 {
            return None;
        }
        Some(v.chunks(2).map(|c| (c[0] as u16) << 8 | c[1] as u16).collect())
    };
    let blocks = hex_decode(t[11])?;
    if blocks.len() != nb * f.bpb() {
        return None;
    }
    Some(Case { class: t[0].to_string(), f, o, img, wit, ok3, blocks })
}

pub fn run(line: &str) -> Option<(String, Vec<String>)> {
    let t = toks(line);
    match t.first().copied() {
        Some("w7h") => return Some(run_w7h(&t[1..])),
        Some("cl7h") => return Some(run_cl7h(&t[1..])),
        Some("w7e") => return Some(run_w7e(&t[1..])),
        _ => {}
    }
    let case = match parse(line) {
        Some(c) => c,
        None => return Some(("bad-case".into(), vec![])),
    };
    let Case { class: _, f, o, img, wit, ok3: _, blocks } = case;
    let mut msgs = vec![];
    let (wb, hb) = (img.blocks_w(), img.blocks_h());
    let nb = wb * hb;
    let bpb = f.bpb();

    // result line: the blocks of the LINE through the library decoder / the Rust predicate
    let dec = match lib_decode(f, wb, &blocks) {
        Ok(d) => d,
        Err(e) => return Some((format!("err decode {e}"), vec![])),
    };
    let mut shapes = String::new();
    let mut ports = String::new();
    let mut hashes = String::new();
    for b in 0..nb {
        let blk = &blocks[b * bpb..(b + 1) * bpb];
        shapes.push_str(&shape(f, blk));
        // the mask is recomputed from the input image, not taken from the line
        let m = ok3_mask(&img, o, b % wb, b / wb);
        ports.push(if portable(f, blk, m) { '1' } else { '0' });
        hashes.push_str(&format!("{:08x}", hash_block(&dec[b])));
    }
    // bytes of the emitted blocks at the places the discrete encoder model (Enc13.predictBlock) predicts
    let pred = if img.prec == InPrec::Rgba8 {
        let mut parts = vec![];
        for b in 0..nb {
            let (bx, by) = (b % wb, b / wb);
            let inside = in_image_mask(&img, bx, by);
            let px: Vec<[u8; 4]> = (0..16)
                .filter(|p| (inside >> p) & 1 == 1)
                .map(|p| {
                    let o = ((by * 4 + p / 4) * img.w + bx * 4 + p % 4) * 4;
                    [img.data[o], img.data[o + 1], img.data[o + 2], img.data[o + 3]]
                })
                .collect();
            let pieces = predicted_pieces(f, o, &px);
            if pieces.is_empty() {
                parts.push("-".to_string());
            } else {
                let mut blk = blocks[b * bpb..(b + 1) * bpb].to_vec();
                if matches!(f, F::Bc2 | F::Bc2p) {
                    // explicit alpha of a partial block: blank the nibbles of the positions outside the image (which
                    // pixel the padding repeats is outside the property; the model blanks the same nibbles)
                    for p in 0..16 {
                        if (inside >> p) & 1 == 0 {
                            blk[p / 2] &= if p % 2 == 0 { 0xF0 } else { 0x0F };
                        }
                    }
                }
                parts.push(pieces.iter().map(|&(off, len)| format!("{}:{}", off, hex_encode(&blk[off..off + len]))).collect::<Vec<_>>().join(","));
            }
        }
        parts.join(";")
    } else {
        "-".to_string()
    };
    // BC7 header fields of the emitted blocks (the model prints the same fields read with its own reader, plus
    // what its discrete rules allow for the input block; tools/propcfg/C13.py `equal` checks membership)
    let b7 = if f == F::Bc7 && img.prec == InPrec::Rgba8 && o.d == 'N' {
        (0..nb).map(|b| bc7_obs(&blocks[b * bpb..(b + 1) * bpb])).collect::<Vec<_>>().join(";")
    } else {
        "-".to_string()
    };
    // BC7 writer model: the driver parses every emitted block into the arguments of `Compressed::modeN` and writes
    // them again with `Enc7.write` (must give the same 16 bytes) ...
    let w7 = if f == F::Bc7 {
        (0..nb).map(|b| format!("{:08x}", hash_block(&blocks[b * bpb..(b + 1) * bpb]))).collect::<String>()
    } else {
        "-".to_string()
    };
    // ... and, where the indexes of the emitted block are those of `closest_*` on the emitted endpoints (RGBA8 input,
    // no dithering, not single-coloured, block fully inside the image), re-derives the whole block from the emitted
    // endpoints / p-bits / partition / rotation / selector and the ORIGINAL pixels (`Enc7.emit`)
    let cl7 = if f == F::Bc7 && img.prec == InPrec::Rgba8 && o.d == 'N' {
        (0..nb)
            .map(|b| {
                let (bx, by) = (b % wb, b / wb);
                if in_image_mask(&img, bx, by) != 0xFFFF {
                    return "-".to_string();
                }
                let px = |p: usize| {
                    let o = ((by * 4 + p / 4) * img.w + bx * 4 + p % 4) * 4;
                    [img.data[o], img.data[o + 1], img.data[o + 2], img.data[o + 3]]
                };
                if (1..16).all(|p| px(p) == px(0)) {
                    return "-".to_string();
                }
                format!("{:08x}", hash_block(&blocks[b * bpb..(b + 1) * bpb]))
            })
            .collect::<Vec<_>>()
            .join(";")
    } else {
        "-".to_string()
    };
    // BC1-BC5 encoder core: every emitted block re-written by the model writers; halves re-derived from their own
    // endpoints and the original pixels (see `bc15_tokens`)
    let (w15, cl15) = bc15_tokens(f, o, &img, &blocks);
    let res = format!("ok {nb} {shapes} {ports} {hashes} {pred} {b7} {w7} {cl7} {w15} {cl15}");

    // oracle: fresh encode
    match lib_encode(f, o, &img) {
        Ok(enc) => oracle(f, o, &img, &enc, wit.as_deref(), &mut msgs),
        Err(e) => msgs.push(format!("encode-failed: fmt={} {e}", f.name())),
    }
    Some((res, msgs))
}

// ---------------------------------------------------------------------------------------------
// generator

struct Spec {
    class: &'static str,
    f: F,
    o: Opts,
    img: Img,
    wit: Option<Vec<u8>>,
}

fn line_of(s: &Spec) -> String {
    // the generator runs the encoder; an encoder that panics here must not take the whole check down: the case is
    // emitted without blocks and `run` (under catch_unwind) reports the panic as a result of that very case
    let enc = std::panic::catch_unwind(|| lib_encode(s.f, s.o, &s.img).unwrap_or_default()).unwrap_or_default();
    let ok3 = if s.f == F::Bc1 {
        let mut v = vec![];
        for b in 0..s.img.blocks_w() * s.img.blocks_h() {
            let m = ok3_mask(&s.img, s.o, b % s.img.blocks_w(), b / s.img.blocks_w());
            v.push((m >> 8) as u8);
            v.push(m as u8);
        }
        hex_encode(&v)
    } else {
        "-".into()
    };
    format!(
        "{} {} {} {} {} {} {} {} {} {} {} {}",
        s.class,
        s.f.name(),
        s.o.q,
        s.o.m,
        s.o.d,
        s.img.w,
        s.img.h,
        s.img.prec.name(),
        hex_encode(&s.img.data),
        s.wit.as_ref().map_or("-".into(), |w| hex_encode(w)),
        ok3,
        if enc.is_empty() { "-".into() } else { hex_encode(&enc) }
    )
}

/// row of `n` blocks, block i filled by `fill(i, p)`
fn block_row(n: usize, mut fill: impl FnMut(usize, usize) -> [u8; 4]) -> Img {
    let (w, h) = (4 * n, 4);
    let mut px = vec![[0u8; 4]; w * h];
    for b in 0..n {
        for p in 0..16 {
            px[(p / 4) * w + b * 4 + p % 4] = fill(b, p);
        }
    }
    Img::from_rgba8(w, h, &px)
}

fn rand_color(rng: &mut Rng) -> [u8; 4] {
    let a = match rng.below(4) {
        0 => 255,
        1 => *rng.pick(&[0u8, 1, 127, 128, 254]),
        _ => rng.below(256) as u8,
    };
    [rng.below(256) as u8, rng.below(256) as u8, rng.below(256) as u8, a]
}

/// a witness block of format `f` whose 16 decoded pixels use exactly two palette entries, plus the mask
/// saying which pixel uses the second one.  BC7: a random mode 4/5/6 block; the two colours are those of
/// pixel 0 and of another pixel of the decoded block.
fn witness(f: F, rng: &mut Rng) -> Vec<u8> {
    let color = |rng: &mut Rng, bc1: bool| -> Vec<u8> {
        let (mut c0, mut c1) = (rng.next() as u16, rng.next() as u16);
        if rng.chance(1, 4) {
            // neighbouring endpoints
            c1 = c0 ^ (1 << rng.below(16));
        }
        if !bc1 && c0 < c1 {
            std::mem::swap(&mut c0, &mut c1);
        }
        let three = bc1 && c0 <= c1;
        let n = if three { 3 } else { 4 };
        let i = rng.below(n);
        let mut j = rng.below(n);
        if j == i {
            j = (i + 1) % n;
        }
        let mut idx: u32 = 0;
        for p in 0..16 {
            idx |= (if rng.chance(1, 2) { i } else { j } as u32) << (2 * p);
        }
        let mut v = c0.to_le_bytes().to_vec();
        v.extend(c1.to_le_bytes());
        v.extend(idx.to_le_bytes());
        v
    };
    let bc4 = |rng: &mut Rng| -> Vec<u8> {
        let (e0, mut e1) = (rng.next() as u8, rng.next() as u8);
        if rng.chance(1, 4) {
            e1 = e0.wrapping_add(rng.range(1, 3) as u8);
        }
        let i = rng.below(8);
        let mut j = rng.below(8);
        if j == i {
            j = (i + 1) % 8;
        }
        let mut idx: u64 = 0;
        for p in 0..16 {
            idx |= (if rng.chance(1, 2) { i } else { j }) << (3 * p);
        }
        let mut v = vec![e0, e1];
        v.extend(&idx.to_le_bytes()[..6]);
        v
    };
    match f {
        F::Bc1 => color(rng, true),
        F::Bc2 | F::Bc2p => {
            // premultiplied: opaque witness, so that premultiplication keeps the palette colours
            let (a, b) = if f == F::Bc2p { (15, 15) } else { (rng.below(16), rng.below(16)) };
            let mut w: u64 = 0;
            for p in 0..16 {
                w |= (if rng.chance(1, 2) { a } else { b }) << (4 * p);
            }
            let mut v = w.to_le_bytes().to_vec();
            v.extend(color(rng, false));
            v
        }
        F::Bc3 | F::Bc3p | F::Rxgb | F::Bc3n => {
            let mut v = if f == F::Bc3p { vec![255, 255, 0, 0, 0, 0, 0, 0] } else { bc4(rng) };
            v.extend(color(rng, false));
            v
        }
        F::Bc4u | F::Bc4s => bc4(rng),
        F::Bc5u | F::Bc5s => {
            let mut v = bc4(rng);
            v.extend(bc4(rng));
            v
        }
        F::Bc7 => {
            let mut v: Vec<u8> = (0..16).map(|_| rng.next() as u8).collect();
            let mode = 4 + rng.below(3) as u8;
            v[0] = (v[0] & !((1u16 << (mode + 1)) - 1) as u8) | (1 << mode);
            v
        }
    }
}

/// image block (16 RGBA pixels) made of two palette colours of the witness
fn two_from_witness(f: F, wit: &[u8], rng: &mut Rng) -> Option<[[u8; 4]; 16]> {
    let d = lib_decode(f.stored(), 1, wit).ok()?;
    let nch = f.nch();
    let get = |p: usize| -> [u8; 4] {
        let v = &d[0][p * nch..(p + 1) * nch];
        match f {
            // the input channel feeding each decoded channel (see `checks`)
            F::Bc4u | F::Bc4s => [v[0], v[0], v[0], 255],
            F::Bc5u | F::Bc5s => [v[0], v[1], 0, 255],
            F::Rxgb => [v[0], v[1], v[2], 255],
            F::Bc3n => [v[0], v[1], 0, 255],
            _ => [v[0], v[1], v[2], v[3]],
        }
    };
    let mut out = [[0u8; 4]; 16];
    if f == F::Bc7 {
        let j = (1..16).find(|&p| get(p) != get(0)).unwrap_or(0);
        for p in 0..16 {
            out[p] = if p == 0 || rng.chance(1, 2) { get(0) } else { get(j) };
        }
    } else {
        for p in 0..16 {
            out[p] = get(p);
        }
        if f == F::Bc1 {
            // transparent witness pixels are not colours; the witness generator never uses index 3 in
            // three-colour mode, so all pixels are opaque here
        }
    }
    Some(out)
}

/// Cases for the discrete encoder rules that the tie compares with `Enc13.lean` (appended after the older classes,
/// with their own PRNG, so that the older case lines stay what they were):
/// `a16`  BC2 / BC2 premultiplied explicit alpha: all 256 alpha values, every nibble boundary (17k+8 | 17k+9), all 16
///        nibbles in one block, partial blocks (border replication), F/N/H/U x dithering N/C (+ A/B: no prediction);
/// `sx`   BC4S / BC5S constant channels at the SNORM extremes (0, 255 take the `closest` branch; 1, 254, 127, 128 do not);
/// `b7op` opaque multi-colour BC7 blocks; `b7mix` opaque and translucent pixels mixed; `b7ca` constant RGB, varying
///        alpha; `b7sa` constant alpha, varying colour (approximately grey: rotation forced to None, the constant-alpha
///        guard of modes 4/5 is reached) — F/N/H and a few Unreasonable.
fn gen_discrete(seed: u64, thorough: bool, specs: &mut Vec<Spec>) {
    let mut rng = Rng::new(seed ^ 0xC13_D15C);
    let scale: usize = if thorough { 12 } else { 1 };
    let all_q = ['F', 'N', 'H', 'U'];

    // ---- a16: BC2 explicit alpha
    for &f in &[F::Bc2, F::Bc2p] {
        for &q in &all_q {
            for &d in &['N', 'C'] {
                let o = Opts { q, m: 'U', d };
                let cols: Vec<[u8; 4]> = (0..16).map(|_| rand_color(&mut rng)).collect();
                // all 256 alpha values, 16 consecutive values per block
                let img = block_row(16, |b, p| [cols[b][0], cols[b][1], cols[b][2], (16 * b + p) as u8]);
                specs.push(Spec { class: "a16", f, o, img, wit: None });
                // every rounding boundary of n4::from_f32: 17k+8 -> k, 17k+9 -> k+1 (k = 0..14), and 255
                let img = block_row(15, |b, p| {
                    let a = 17 * b + 8 + (p + p / 4) % 2;
                    [cols[b][0], cols[b][1], cols[b][2], a as u8]
                });
                specs.push(Spec { class: "a16", f, o, img, wit: None });
                // all 16 nibbles in one block (in order, reversed, scattered), over one colour and over noise
                let perm: Vec<usize> = {
                    let mut v: Vec<usize> = (0..16).collect();
                    for i in (1..16).rev() {
                        v.swap(i, rng.below(i as u64 + 1) as usize);
                    }
                    v
                };
                let mut r2 = Rng::new(rng.next());
                let img = block_row(4, |b, p| {
                    let nib = match b {
                        0 => p,
                        1 => 15 - p,
                        _ => perm[p],
                    };
                    let a = (17 * nib) as u8;
                    if b == 3 {
                        [r2.below(256) as u8, r2.below(256) as u8, r2.below(256) as u8, a]
                    } else {
                        [cols[b][0], cols[b][1], cols[b][2], a]
                    }
                });
                specs.push(Spec { class: "a16", f, o, img, wit: None });
            }
            // partial blocks: which pixel is repeated at the border shows in the alpha nibbles
            for &(w, h) in &[(5usize, 6usize), (7, 3), (1, 1), (2, 7), (9, 5), (6, 10)] {
                for _ in 0..scale.min(3) {
                    let px: Vec<[u8; 4]> = (0..w * h)
                        .map(|_| [rng.below(256) as u8, rng.below(256) as u8, rng.below(256) as u8, rng.below(256) as u8])
                        .collect();
                    specs.push(Spec { class: "a16", f, o: Opts { q, m: 'U', d: 'N' }, img: Img::from_rgba8(w, h, &px), wit: None });
                }
            }
            // random alphas; with alpha dithering the bytes are not predicted (the case only exercises the rule's guard)
            for &d in &['N', 'C', 'A', 'B'] {
                for _ in 0..scale {
                    let px: Vec<[u8; 4]> = (0..64)
                        .map(|_| [rng.below(256) as u8, rng.below(256) as u8, rng.below(256) as u8, rng.below(256) as u8])
                        .collect();
                    specs.push(Spec { class: "a16", f, o: Opts { q, m: *rng.pick(&['U', 'P']), d }, img: Img::from_rgba8(8, 8, &px), wit: None });
                }
            }
        }
    }

    // ---- sx: SNORM extremes, constant channels
    for &f in &[F::Bc4s, F::Bc5s] {
        for &q in &all_q {
            for &d in &['N', 'C'] {
                let o = Opts { q, m: 'U', d };
                let rg: [(i32, i32); 8] = [(0, 255), (255, 0), (0, -1), (-1, 255), (1, 254), (128, 127), (255, 255), (0, 0)];
                let mut r2 = Rng::new(rng.next());
                let img = block_row(8, |b, _| {
                    let v = |x: i32, r2: &mut Rng| if x < 0 { r2.below(256) as u8 } else { x as u8 };
                    [v(rg[b].0, &mut r2), v(rg[b].1, &mut r2), r2.below(256) as u8, 255]
                });
                specs.push(Spec { class: "sx", f, o, img, wit: None });
                // partial block of an extreme value
                let img = Img::from_rgba8(3, 2, &vec![[255, 0, 7, 255]; 6]);
                specs.push(Spec { class: "sx", f, o, img, wit: None });
            }
        }
    }

    // ---- BC7
    let grey_noise = |rng: &mut Rng, amp: u64| -> [u8; 3] {
        let g = rng.range(8, 225);
        [(g + rng.below(amp)) as u8, (g + rng.below(amp)) as u8, (g + rng.below(amp)) as u8]
    };
    for &q in &all_q {
        let o = Opts { q, m: 'U', d: 'N' };
        let reps = if q == 'U' { 1 } else { 3 * scale };
        for _ in 0..reps {
            // b7op: opaque, not single-coloured
            let (c0, c1) = (rand_color(&mut rng), rand_color(&mut rng));
            let mut r2 = Rng::new(rng.next());
            let img = block_row(6, |b, p| {
                let (x, y) = ((p % 4) as u32, (p / 4) as u32);
                let rgb: [u8; 3] = match b {
                    0 => if r2.chance(1, 2) { [c0[0], c0[1], c0[2]] } else { [c1[0], c1[1], c1[2]] },
                    1 => {
                        let t = (x + 4 * y) * 17;
                        [0, 1, 2].map(|c| ((c0[c] as u32 * (255 - t) + c1[c] as u32 * t) / 255) as u8)
                    }
                    2 => grey_noise(&mut r2, 7),
                    3 => [r2.below(256) as u8, r2.below(64) as u8, (192 + r2.below(64)) as u8],
                    4 => if p == 9 { [c1[0], c1[1], c1[2]] } else { [c0[0], c0[1], c0[2]] },
                    _ => if x < 2 { [c0[0], (c0[1] as u64 / 2 + r2.below(9)) as u8, c0[2]] } else { [c1[0], (c1[1] as u64 / 2 + r2.below(9)) as u8, c1[2]] },
                };
                [rgb[0], rgb[1], rgb[2], 255]
            });
            specs.push(Spec { class: "b7op", f: F::Bc7, o, img, wit: None });

            // b7mix: opaque and translucent pixels in one block
            let lo = rng.below(255) as u8;
            let mut r2 = Rng::new(rng.next());
            let img = block_row(6, |b, p| {
                let (x, y) = (p % 4, p / 4);
                let left = [c0[0], (c0[1] as u64 / 2 + r2.below(6)) as u8, c0[2]];
                let right = [c1[0], (c1[1] as u64 / 2 + r2.below(6)) as u8, c1[2]];
                match b {
                    // two clusters, one of them opaque: the two-subset mode 7 has an opaque subset
                    0 => if x < 2 { [left[0], left[1], left[2], 255] } else { [right[0], right[1], right[2], (lo as u64 * (200 + r2.below(56)) / 255) as u8] },
                    1 => if y < 2 { [left[0], left[1], left[2], (r2.below(255)) as u8] } else { [right[0], right[1], right[2], 255] },
                    2 => [left[0], left[1], left[2], if r2.chance(1, 2) { 255 } else { r2.below(255) as u8 }],
                    3 => [left[0], left[1], left[2], if p == 6 { 254 } else { 255 }],
                    4 => { let g = grey_noise(&mut r2, 6); [g[0], g[1], g[2], if (x + y) % 2 == 0 { 255 } else { lo }] }
                    _ => [r2.below(256) as u8, r2.below(256) as u8, r2.below(256) as u8, if x + y < 3 { 255 } else { 128 + r2.below(100) as u8 }],
                }
            });
            specs.push(Spec { class: "b7mix", f: F::Bc7, o, img, wit: None });

            // b7ca: constant RGB, varying alpha (narrow range: nothing forced unless grey; wide range: Rotation::None forced)
            let base = rng.below(240) as u8;
            let mut r2 = Rng::new(rng.next());
            let img = block_row(6, |b, p| {
                let a: u8 = match b {
                    0 => base + r2.below(16) as u8,
                    1 => r2.below(256) as u8,
                    2 => (240 + r2.below(16)) as u8,
                    3 => [0u8, 255][(p + p / 4) % 2],
                    4 => r2.below(12) as u8,
                    _ => (17 * p) as u8,
                };
                if b % 2 == 0 { [c0[0], c0[1], c0[2], a] } else { [c0[0], c0[0], c0[0], a] }
            });
            specs.push(Spec { class: "b7ca", f: F::Bc7, o, img, wit: None });
        }
        // b7sa: constant alpha, varying colour; every alpha value is reached over the qualities / repetitions
        let step = if thorough { 1 } else if q == 'U' { 64 } else { 4 };
        let start = match q { 'F' => 0, 'N' => 1, 'H' => 2, _ => 3 };
        let mut a = start;
        while a < 256 {
            let mut r2 = Rng::new(rng.next());
            let amp = *rng.pick(&[3u64, 7, 24]);
            let (c0, c1) = (rand_color(&mut rng), rand_color(&mut rng));
            let img = block_row(4, |b, p| {
                let alpha = (if b == 3 { 255 } else { a }) as u8;
                let rgb: [u8; 3] = match b {
                    // approximately grey: `get_forced_rotation` returns Rotation::None, the constant-alpha guard is reached
                    0 => grey_noise(&mut r2, amp.min(7)),
                    1 => { let g = (p * 16) as u8; [g, g.saturating_add(3), g] }
                    2 => if r2.chance(1, 2) { [c0[0], c0[1], c0[2]] } else { [c1[0], c1[1], c1[2]] },
                    _ => grey_noise(&mut r2, amp),
                };
                [rgb[0], rgb[1], rgb[2], alpha]
            });
            specs.push(Spec { class: "b7sa", f: F::Bc7, o, img, wit: None });
            a += step;
        }
    }
    // b7g: the constant-alpha guard of modes 4 / 5 for EVERY alpha value.  Two grey levels that lie exactly on the
    // 5-bit (mode 4) or 7-bit (mode 5) endpoint grid, so that the separate-alpha mode has colour error 0 and is
    // emitted whenever mode 6 (shared p-bit) cannot be exact as well; grey => Rotation::None is forced.
    for &(q, bits) in &[('F', 5u32), ('N', 5), ('N', 7), ('H', 7), ('U', 7)] {
        let o = Opts { q, m: 'U', d: 'N' };
        let stride = if q == 'U' { 16 } else { 1 };
        for a0 in (0..256usize).step_by(4 * stride) {
            let grid = |v: u64| -> u8 {
                if bits == 5 { ((v << 3) | (v >> 2)) as u8 } else { ((v << 1) | (v >> 6)) as u8 }
            };
            // green offset in grid steps (7-bit grid only): 3 steps = 6 or 7 < COLOR_VARIANCE_THRESHOLD (still forced),
            // 4 steps = 8 or 9 (no longer "approximately grey": nothing forced, Rotation::None is skipped)
            let goff: [u64; 4] = if bits == 7 { [0, 3, 4, 0] } else { [0; 4] };
            let levels: Vec<(u64, u64)> = (0..4)
                .map(|_| loop {
                    let (u, v) = (rng.below((1 << bits) - 4), rng.below((1 << bits) - 4));
                    if u != v {
                        break (u, v);
                    }
                })
                .collect();
            let mut r2 = Rng::new(rng.next());
            let img = block_row(4, |b, p| {
                let l = if p == 0 || r2.chance(1, 2) { levels[b].0 } else { levels[b].1 };
                [grid(l), grid(l + goff[b]), grid(l), (a0 + b * stride) as u8]
            });
            specs.push(Spec { class: "b7g", f: F::Bc7, o, img, wit: None });
        }
    }
}

pub fn gen(seed: u64, thorough: bool) -> Vec<String> {
    let mut rng = Rng::new(seed ^ 0xC13);
    let mut specs: Vec<Spec> = vec![];
    let quals = ['F', 'N', 'H'];
    let mets = ['U', 'P'];
    let scale = if thorough { 100 } else { 1 };
    let n = Opts { q: 'N', m: 'U', d: 'N' };

    for &f in &ALL {
        for &q in &quals {
            for &m in &mets {
                let o = Opts { q, m, d: 'N' };
                // metric only reaches the 5:6:5 colour search; other formats get the second metric on a subset
                let metric_matters = f.has_565();
                let sub = if metric_matters || m == 'U' { 1 } else { 4 };
                // A. all 256 grey levels, opaque: 4 blocks per case
                for g0 in (0..256).step_by(4 * sub) {
                    let img = block_row(4, |b, _| {
                        let g = (g0 + b) as u8;
                        [g, g, g, 255]
                    });
                    specs.push(Spec { class: "grey", f, o, img, wit: None });
                }
                // B. random single colours (random / boundary alpha)
                for _ in 0..(6 * scale / sub).max(1) {
                    let cols: Vec<[u8; 4]> = (0..4).map(|_| rand_color(&mut rng)).collect();
                    let img = block_row(4, |b, _| cols[b]);
                    specs.push(Spec { class: "rand1", f, o, img, wit: None });
                }
                // C. two representable colours
                for _ in 0..(6 * scale / sub).max(1) {
                    let mut wit = vec![];
                    let mut blocks = vec![];
                    for _ in 0..4 {
                        let w = witness(f, &mut rng);
                        if let Some(b) = two_from_witness(f, &w, &mut rng) {
                            wit.extend(w);
                            blocks.push(b);
                        }
                    }
                    if blocks.len() == 4 {
                        let img = block_row(4, |b, p| blocks[b][p]);
                        specs.push(Spec { class: "two", f, o, img, wit: Some(wit) });
                    }
                }
                // D. gradients and noise, 8x8
                for k in 0..(4 * scale / sub).max(1) {
                    let (c0, c1) = (rand_color(&mut rng), rand_color(&mut rng));
                    let mode = k % 4;
                    let mut px = vec![[0u8; 4]; 64];
                    for y in 0..8usize {
                        for x in 0..8usize {
                            let t = match mode {
                                0 => x * 255 / 7,
                                1 => y * 255 / 7,
                                2 => (x + y) * 255 / 14,
                                _ => (x * y) * 255 / 49,
                            } as u32;
                            for c in 0..4 {
                                px[y * 8 + x][c] = ((c0[c] as u32 * (255 - t) + c1[c] as u32 * t + 127) / 255) as u8;
                            }
                            if k % 2 == 0 {
                                px[y * 8 + x][3] = 255;
                            }
                        }
                    }
                    specs.push(Spec { class: "grad", f, o, img: Img::from_rgba8(8, 8, &px), wit: None });
                    let amp = *rng.pick(&[255u64, 64, 8, 2]);
                    let base = rand_color(&mut rng);
                    let px: Vec<[u8; 4]> = (0..64)
                        .map(|_| {
                            let mut p = [0u8; 4];
                            for c in 0..4 {
                                p[c] = (base[c] as u64 * (255 - amp) / 255 + rng.below(amp + 1)) as u8;
                            }
                            if k % 2 == 1 {
                                p[3] = 255;
                            }
                            p
                        })
                        .collect();
                    specs.push(Spec { class: "noise", f, o, img: Img::from_rgba8(8, 8, &px), wit: None });
                }
                // E. extreme alpha patterns over one colour / over noise
                if m == 'U' || metric_matters {
                    for pat in 0..8 {
                        let col = rand_color(&mut rng);
                        let noisy = rng.chance(1, 2);
                        let mut r2 = Rng::new(rng.next());
                        let img = block_row(2, |b, p| {
                            let a = match pat {
                                0 => 0,
                                1 => 255,
                                2 => [127u8, 128][(p + p / 4 + b) % 2],
                                3 => [0u8, 255][(p + p / 4) % 2],
                                4 => [0u8, 255][(p / 4) % 2],
                                5 => *r2.pick(&[0u8, 1, 126, 127, 128, 129, 254, 255]),
                                6 => if p == 5 { 0 } else { 255 },
                                _ => if p == 10 { 255 } else { 0 },
                            };
                            if noisy && b == 1 {
                                [r2.below(256) as u8, r2.below(256) as u8, r2.below(256) as u8, a]
                            } else {
                                [col[0], col[1], col[2], a]
                            }
                        });
                        specs.push(Spec { class: "alpha", f, o, img, wit: None });
                    }
                }
                // F. partial edge blocks
                if m == 'U' || metric_matters {
                    for &(w, h) in &[(1usize, 1usize), (5, 5), (7, 3), (9, 6), (12, 9), (2, 7), (3, 4), (6, 10)] {
                        let mode = rng.below(3);
                        let col = rand_color(&mut rng);
                        let px: Vec<[u8; 4]> = (0..w * h)
                            .map(|i| match mode {
                                0 => col,
                                1 => [col[0], col[1], col[2], *rng.pick(&[0u8, 127, 128, 255])],
                                _ => {
                                    let mut c = rand_color(&mut rng);
                                    if i % 3 == 0 {
                                        c[3] = 255;
                                    }
                                    c
                                }
                            })
                            .collect();
                        specs.push(Spec { class: "edge", f, o, img: Img::from_rgba8(w, h, &px), wit: None });
                    }
                }
            }
            // G. dithering modes (portability / opacity clauses)
            for &d in &['C', 'A', 'B'] {
                let o = Opts { q, m: *rng.pick(&mets), d };
                for k in 0..(6 * scale).max(1) {
                    let base = rand_color(&mut rng);
                    let amp = *rng.pick(&[255u64, 32, 4]);
                    let alpha_mode = k % 3;
                    let (w, h) = *rng.pick(&[(8usize, 4usize), (8, 8), (5, 6), (4, 4)]);
                    let px: Vec<[u8; 4]> = (0..w * h)
                        .map(|_| {
                            let mut p = [0u8; 4];
                            for c in 0..4 {
                                p[c] = (base[c] as u64 * (255 - amp) / 255 + rng.below(amp + 1)) as u8;
                            }
                            match alpha_mode {
                                0 => p[3] = 255,
                                1 => p[3] = *rng.pick(&[0u8, 100, 127, 128, 160, 255]),
                                _ => {}
                            }
                            p
                        })
                        .collect();
                    specs.push(Spec { class: "dither", f, o, img: Img::from_rgba8(w, h, &px), wit: None });
                }
                // single colours under dithering
                let cols: Vec<[u8; 4]> = (0..4).map(|i| if i == 0 { [0, 0, 0, 255] } else { rand_color(&mut rng) }).collect();
                let img = block_row(4, |b, p| if b == 3 { [cols[3][0], cols[3][1], cols[3][2], 255] } else if b == 2 { [cols[2][0], cols[2][1], cols[2][2], if p % 2 == 0 { 0 } else { 255 }] } else { cols[b] });
                specs.push(Spec { class: "dither1", f, o, img, wit: None });
            }
        }
        // K. the 8 corner colours (exactly representable 5:6:5 colours) x alpha, incl. Unreasonable
        for &q in &['F', 'N', 'H', 'U'] {
            for &m in &mets {
                for &a in &[255u8, 0, 127, 128] {
                    for half in 0..2 {
                        let o = Opts { q, m, d: 'N' };
                        let img = block_row(4, |b, _| {
                            let k = half * 4 + b;
                            [if k & 1 != 0 { 255 } else { 0 }, if k & 2 != 0 { 255 } else { 0 }, if k & 4 != 0 { 255 } else { 0 }, a]
                        });
                        specs.push(Spec { class: "corner", f, o, img, wit: None });
                    }
                }
            }
        }
        // H. Unreasonable on a small subset
        for &m in &mets {
            if m == 'P' && !f.has_565() {
                continue;
            }
            let o = Opts { q: 'U', m, d: 'N' };
            let gs: Vec<u8> = (0..4).map(|_| rng.below(256) as u8).collect();
            specs.push(Spec { class: "grey", f, o, img: block_row(4, |b, _| [gs[b], gs[b], gs[b], 255]), wit: None });
            for _ in 0..scale {
                let w = witness(f, &mut rng);
                if let Some(b) = two_from_witness(f, &w, &mut rng) {
                    specs.push(Spec { class: "two", f, o, img: block_row(1, |_, p| b[p]), wit: Some(w) });
                }
                let px: Vec<[u8; 4]> = (0..20).map(|_| rand_color(&mut rng)).collect();
                specs.push(Spec { class: "edge", f, o, img: Img::from_rgba8(5, 4, &px), wit: None });
            }
        }
        // L. opaque smooth content (per-pixel ramps with small slopes, low-amplitude noise): the blocks for which
        // the many-index modes win; opacity clause at every quality including Unreasonable
        for &q in &['F', 'N', 'H', 'U'] {
            for &d in &['N', 'C'] {
                let o = Opts { q, m: 'U', d };
                for _ in 0..(2 * scale).min(24) {
                    let mut r2 = Rng::new(rng.next());
                    let bases: Vec<[u64; 3]> = (0..4).map(|_| [r2.below(200), r2.below(200), r2.below(200)]).collect();
                    let steps: Vec<[u64; 3]> = (0..4).map(|_| [r2.below(4), r2.below(4), r2.below(4)]).collect();
                    let img = block_row(4, |b, p| {
                        let (x, y) = ((p % 4) as u64, (p / 4) as u64);
                        let mut c = [0u8, 0, 0, 255];
                        for k in 0..3 {
                            let v = match b {
                                0 => bases[b][k] + steps[b][k] * (x + 4 * y),
                                1 => bases[b][k] + steps[b][k] * (x + y),
                                2 => bases[b][k] + 2 * (x + 4 * y),
                                _ => bases[b][k] + r2.below(24),
                            };
                            c[k] = v.min(255) as u8;
                        }
                        c
                    });
                    specs.push(Spec { class: "smooth", f, o, img, wit: None });
                }
            }
        }
        // M. one EXACTLY representable 5:6:5 colour (any of the 65 536, expanded to 8 bit as the decoders do) on the
        // opaque pixels and an alpha pattern that makes some pixels transparent: the single-colour shortcuts of
        // the encoders must still honour the alpha threshold and the index-3 rule (seed C13h). All qualities.
        if f.has_565() {
            for &q in &['F', 'N', 'H', 'U'] {
                for &m in &mets {
                    if q == 'U' && m == 'P' {
                        continue;
                    }
                    let o = Opts { q, m, d: 'N' };
                    for _ in 0..(2 * scale).min(20) {
                        let mut r2 = Rng::new(rng.next());
                        let cols: Vec<[u8; 3]> = (0..4)
                            .map(|i| {
                                let (r5, g6, b5) = if i == 0 { (31, 63, 31) } else { (r2.below(32), r2.below(64), r2.below(32)) };
                                [((r5 * 527 + 23) >> 6) as u8, ((g6 * 259 + 33) >> 6) as u8, ((b5 * 527 + 23) >> 6) as u8]
                            })
                            .collect();
                        let pat = r2.below(6);
                        let img = block_row(4, |b, p| {
                            let a = match (pat + b as u64) % 6 {
                                0 => if p == 5 { 0 } else { 255 },
                                1 => if p == 10 { 255 } else { 0 },
                                2 => [0u8, 255][(p + p / 4) % 2],
                                3 => [127u8, 128][(p / 4) % 2],
                                4 => *r2.pick(&[0u8, 64, 127, 128, 200, 255]),
                                _ => if p < 8 { 255 } else { 100 },
                            };
                            [cols[b][0], cols[b][1], cols[b][2], a]
                        });
                        specs.push(Spec { class: "reptr", f, o, img, wit: None });
                    }
                }
            }
        }
        // N. fully opaque blocks that contain pure black pixels next to other colours (the "implicit black" trick of
        // other BC1 encoders would make them transparent): opacity + index-3 clauses at every quality (seed C13i)
        for &q in &['F', 'N', 'H', 'U'] {
            if q == 'U' && !(f.has_565() || f == F::Bc7) {
                continue;
            }
            let o = Opts { q, m: 'U', d: 'N' };
            for _ in 0..(2 * scale).min(20) {
                let mut r2 = Rng::new(rng.next());
                let base = [r2.below(256) as u8, r2.below(256) as u8, r2.below(256) as u8];
                let img = block_row(4, |b, p| {
                    let black = match b {
                        0 => p == 7,
                        1 => p % 5 == 0,
                        2 => p < 6,
                        _ => r2.chance(1, 3),
                    };
                    if black {
                        [0, 0, 0, 255]
                    } else {
                        let j = |c: u8, r: &mut Rng| (c as i64 + r.below(41) as i64 - 20).clamp(0, 255) as u8;
                        if b % 2 == 0 { [base[0], base[1], base[2], 255] } else { [j(base[0], &mut r2), j(base[1], &mut r2), j(base[2], &mut r2), 255] }
                    }
                });
                specs.push(Spec { class: "black", f, o, img, wit: None });
            }
        }
        // I. other input precisions (same content as rgba8 would give)
        for &prec in &[InPrec::Rgba16, InPrec::Rgba32, InPrec::Rgb8, InPrec::Gray8] {
            for &q in &quals {
                let o = Opts { q, m: 'U', d: 'N' };
                let gs: Vec<u8> = (0..4).map(|_| rng.below(256) as u8).collect();
                let img = block_row(4, |b, _| [gs[b], gs[b], gs[b], 255]).convert(prec);
                specs.push(Spec { class: "prec", f, o, img, wit: None });
                let cols: Vec<[u8; 4]> = (0..4).map(|_| rand_color(&mut rng)).collect();
                let img = block_row(4, |b, p| if b < 2 { cols[b] } else { [cols[b][0], cols[b][1], cols[b][2], [127u8, 128, 0, 255][p % 4]] }).convert(prec);
                specs.push(Spec { class: "prec", f, o, img, wit: None });
            }
        }
    }
    // J. BC1 alpha threshold at exactly one half (f32 input): which side is 0.5?
    for &q in &quals {
        for &(bits, _) in &[(0x3F00_0000u32, "0.5"), (0x3EFF_FFFF, "pred(0.5)"), (0x3F00_0001, "succ(0.5)"), (0x3EFF_0000, "0.498")] {
            let mut data = vec![];
            for p in 0..16 {
                for c in 0..4 {
                    let v: f32 = if c == 3 {
                        if p % 2 == 0 { f32::from_bits(bits) } else { 1.0 }
                    } else {
                        [0.25f32, 0.5, 0.75][c]
                    };
                    data.extend(v.to_le_bytes());
                }
            }
            specs.push(Spec { class: "half", f: F::Bc1, o: Opts { q, ..n }, img: Img { w: 4, h: 4, prec: InPrec::Rgba32, data }, wit: None });
        }
    }
    let _ = n;
    gen_discrete(seed, thorough, &mut specs);
    gen_b7m(seed, thorough, &mut specs);
    let mut lines: Vec<String> = specs.par_iter().map(line_of).collect();
    lines.extend(gen_bc7_internals(seed, thorough));
    lines
}
