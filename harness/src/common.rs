//! Shared helpers: PRNG, boundary sets, parsing.

pub struct Rng(pub u64);
impl Rng {
    pub fn new(seed: u64) -> Self {
        let mut r = Rng(seed.wrapping_mul(0x9E37_79B9_7F4A_7C15) ^ 0xD1B5_4A32_D192_ED03);
        if r.0 == 0 {
            r.0 = 0x1234_5678_9ABC_DEF1;
        }
        for _ in 0..4 {
            r.next();
        }
        r
    }
    pub fn next(&mut self) -> u64 {
        // xorshift64*
        let mut x = self.0;
        x ^= x >> 12;
        x ^= x << 25;
        x ^= x >> 27;
        self.0 = x;
        x.wrapping_mul(0x2545_F491_4F6C_DD1D)
    }
    pub fn below(&mut self, n: u64) -> u64 {
        if n == 0 {
            0
        } else {
            self.next() % n
        }
    }
    pub fn range(&mut self, lo: u64, hi: u64) -> u64 {
        lo + self.below(hi - lo + 1)
    }
    pub fn pick<'a, T>(&mut self, xs: &'a [T]) -> &'a T {
        &xs[self.below(xs.len() as u64) as usize]
    }
    pub fn chance(&mut self, num: u64, den: u64) -> bool {
        self.below(den) < num
    }
}

/// {0,1,2,3,4,5,7,8,9,...,2^k-1,2^k,2^k+1,...,2^32-1}
pub fn boundary_u32() -> Vec<u32> {
    let mut v: Vec<u64> = vec![0, 1, 2, 3, 4, 5, 6, 7];
    for k in 3..=32u32 {
        let p = 1u64 << k;
        v.push(p - 1);
        if p <= u32::MAX as u64 {
            v.push(p);
        }
        if p + 1 <= u32::MAX as u64 {
            v.push(p + 1);
        }
    }
    v.push(u32::MAX as u64 - 1);
    v.sort();
    v.dedup();
    v.into_iter().map(|x| x as u32).collect()
}

/// boundary-biased u32
pub fn any_u32(rng: &mut Rng, bset: &[u32]) -> u32 {
    match rng.below(10) {
        0..=4 => *rng.pick(bset),
        5..=6 => rng.below(80) as u32,
        7 => rng.below(5000) as u32,
        8 => (rng.next() >> rng.below(33).min(32)) as u32,
        _ => rng.next() as u32,
    }
}

pub fn panic_msg(e: &Box<dyn std::any::Any + Send>) -> String {
    if let Some(s) = e.downcast_ref::<&str>() {
        s.to_string()
    } else if let Some(s) = e.downcast_ref::<String>() {
        s.clone()
    } else {
        "?".to_string()
    }
}

pub fn toks(line: &str) -> Vec<&str> {
    line.split_whitespace().collect()
}

pub fn p_u64(s: &str) -> Option<u64> {
    s.parse().ok()
}
pub fn p_u32(s: &str) -> Option<u32> {
    s.parse().ok()
}
pub fn p_usize(s: &str) -> Option<usize> {
    s.parse().ok()
}
