//! Shared helpers: PRNG, boundary sets, parsing.

pub struct Rng(pub u64);
impl Rng {
    pub fn new(seed: u64) -> Self {
        let mut r = Rng(seed.wrapping_mul(0x9E37_79B9_7F4A_7C15) ^ 0xD1B5_4A32_D192_ED03);
        if r.0 == 0 {
            r.0 = 0x1234_5678_9ABC_DEF1;
        }
        for _ in 0..4 {
            r.next();
        }
        r
    }
    pub fn next(&mut self) -> u64 {
        // xorshift64*
        let mut x = self.0;
        x ^= x >> 12;
        x ^= x << 25;
        x ^= x >> 27;
        self.0 = x;
        x.wrapping_mul(0x2545_F491_4F6C_DD1D)
    }
    pub fn below(&mut self, n: u64) -> u64 {
        if n == 0 {
            0
        } else {
            self.next() % n
        }
    }
    pub fn range(&mut self, lo: u64, hi: u64) -> u64 {
        lo + self.below(hi - lo + 1)
    }
    pub fn pick<'a, T>(&mut self, xs: &'a [T]) -> &'a T {
        &xs[self.below(xs.len() as u64) as usize]
    }
    pub fn chance(&mut self, num: u64, den: u64) -> bool {
        self.below(den) < num
    }
}

/// {0,1,2,3,4,5,7,8,9,...,2^k-1,2^k,2^k+1,...,2^32-1}
pub fn boundary_u32() -> Vec<u32> {
    let mut v: Vec<u64> = vec![0, 1, 2, 3, 4, 5, 6, 7];
    for k in 3..=32u32 {
        let p = 1u64 << k;
        v.push(p - 1);
        if p <= u32::MAX as u64 {
            v.push(p);
        }
        if p + 1 <= u32::MAX as u64 {
            v.push(p + 1);
        }
    }
    v.push(u32::MAX as u64 - 1);
    v.sort();
    v.dedup();
    v.into_iter().map(|x| x as u32).collect()
}

/// boundary-biased u32
pub fn any_u32(rng: &mut Rng, bset: &[u32]) -> u32 {
    match rng.below(10) {
        0..=4 => *rng.pick(bset),
        5..=6 => rng.below(80) as u32,
        7 => rng.below(5000) as u32,
        8 => (rng.next() >> rng.below(33).min(32)) as u32,
        _ => rng.next() as u32,
    }
}

pub fn panic_msg(e: &Box<dyn std::any::Any + Send>) -> String {
    if let Some(s) = e.downcast_ref::<&str>() {
        s.to_string()
    } else if let Some(s) = e.downcast_ref::<String>() {
        s.clone()
    } else {
        "?".to_string()
    }
}

pub fn toks(line: &str) -> Vec<&str> {
    line.split_whitespace().collect()
}

pub fn p_u64(s: &str) -> Option<u64> {
    s.parse().ok()
}
pub fn p_u32(s: &str) -> Option<u32> {
    s.parse().ok()
}
pub fn p_usize(s: &str) -> Option<usize> {
    s.parse().ok()
}

/// all 73 formats by name
pub fn all_formats() -> Vec<(&'static str, dds::Format)> {
    use dds::Format as F;
    macro_rules! f {
        ($($n:ident),* $(,)?) => { vec![$((stringify!($n), F::$n)),*] };
    }
    f![
        R8G8B8_UNORM, B8G8R8_UNORM, R8G8B8A8_UNORM, R8G8B8A8_SNORM, B8G8R8A8_UNORM, B8G8R8X8_UNORM, B5G6R5_UNORM,
        B5G5R5A1_UNORM, B4G4R4A4_UNORM, A4B4G4R4_UNORM, R8_SNORM, R8_UNORM, R8G8_UNORM, R8G8_SNORM, A8_UNORM,
        R16_UNORM, R16_SNORM, R16G16_UNORM, R16G16_SNORM, R16G16B16A16_UNORM, R16G16B16A16_SNORM,
        R10G10B10A2_UNORM, R11G11B10_FLOAT, R9G9B9E5_SHAREDEXP, R16_FLOAT, R16G16_FLOAT, R16G16B16A16_FLOAT,
        R32_FLOAT, R32G32_FLOAT, R32G32B32_FLOAT, R32G32B32A32_FLOAT, R10G10B10_XR_BIAS_A2_UNORM, AYUV, Y410, Y416,
        R1_UNORM, R8G8_B8G8_UNORM, G8R8_G8B8_UNORM, UYVY, YUY2, Y210, Y216, NV12, P010, P016, BC1_UNORM, BC2_UNORM,
        BC2_UNORM_PREMULTIPLIED_ALPHA, BC3_UNORM, BC3_UNORM_PREMULTIPLIED_ALPHA, BC4_UNORM, BC4_SNORM, BC5_UNORM,
        BC5_SNORM, BC6H_UF16, BC6H_SF16, BC7_UNORM, ASTC_4X4_UNORM, ASTC_5X4_UNORM, ASTC_5X5_UNORM, ASTC_6X5_UNORM,
        ASTC_6X6_UNORM, ASTC_8X5_UNORM, ASTC_8X6_UNORM, ASTC_8X8_UNORM, ASTC_10X5_UNORM, ASTC_10X6_UNORM,
        ASTC_10X8_UNORM, ASTC_10X10_UNORM, ASTC_12X10_UNORM, ASTC_12X12_UNORM, BC3_UNORM_RXGB, BC3_UNORM_NORMAL,
    ]
}
pub fn format_by_name(n: &str) -> Option<dds::Format> {
    all_formats().into_iter().find(|f| f.0 == n).map(|f| f.1)
}
pub fn all_colors() -> Vec<dds::ColorFormat> {
    use dds::{Channels, ColorFormat, Precision};
    let mut v = vec![];
    for p in [Precision::U8, Precision::U16, Precision::F32] {
        for c in [Channels::Grayscale, Channels::Alpha, Channels::Rgb, Channels::Rgba] {
            v.push(ColorFormat::new(c, p));
        }
    }
    v
}
