//! Sets `--cfg dds_verif_bc7hook` when the `dds` crate this harness is built against (the `path` of the `dds`
//! dependency in Cargo.toml) has the verification hooks `verif_hook::bc7_write` / `bc7_closest`
//! (notes/hook_bc7_writer.patch). Without them the direct BC7 writer tie of C13 is neither generated nor run.
fn main() {
    println!("cargo:rustc-check-cfg=cfg(dds_verif_bc7hook)");
    println!("cargo:rustc-check-cfg=cfg(dds_verif)");
    println!("cargo:rerun-if-changed=build.rs");
    println!("cargo:rerun-if-changed=Cargo.toml");
    let dir = std::env::var("CARGO_MANIFEST_DIR").unwrap_or_default();
    let toml = std::fs::read_to_string(format!("{dir}/Cargo.toml")).unwrap_or_default();
    let mut path = None;
    for l in toml.lines() {
        let l = l.trim();
        if l.starts_with("dds") && l[3..].trim_start().starts_with('=') {
            if let Some(i) = l.find("path") {
                let rest = &l[i..];
                if let Some(q1) = rest.find('"') {
                    if let Some(q2) = rest[q1 + 1..].find('"') {
                        path = Some(rest[q1 + 1..q1 + 1 + q2].to_string());
                    }
                }
            }
        }
    }
    if let Some(p) = path {
        let hook = format!("{p}/src/verif_hook.rs");
        println!("cargo:rerun-if-changed={hook}");
        let src = std::fs::read_to_string(&hook).unwrap_or_default();
        if src.contains("pub fn bc7_write(") && src.contains("pub fn bc7_closest(") {
            println!("cargo:rustc-cfg=dds_verif_bc7hook");
        }
    }
}
