#!/usr/bin/env python3
"""tools/recheck_subset.py KIND SLOT NSLOTS [Cxx ...] — re-runs the stored changes of KIND (seeded|harmless), every NSLOTS-th one starting at
SLOT, against the recorded checks (restricted to the given check ids, if any), in scratch slot SLOT; prints where a verdict class changed
and writes the new verdict into meta.json when it did (the old one is kept in meta['history_checks'])."""
import json, os, subprocess, sys
ROOT = os.path.dirname(os.path.dirname(os.path.abspath(__file__)))
kind, slot, nslots = sys.argv[1], int(sys.argv[2]), int(sys.argv[3])
only = set(sys.argv[4:])
d = os.path.join(ROOT, kind)
names = sorted(n for n in os.listdir(d) if os.path.exists(os.path.join(d, n, "meta.json")))
for i, name in enumerate(names):
    if i % nslots != slot % nslots:
        continue
    mp = os.path.join(d, name, "meta.json"); meta = json.load(open(mp))
    checks = [c for c in meta["checks"] if not only or c in only]
    if not checks:
        continue
    t = subprocess.run([os.path.join(ROOT, "tools", "try_patch.py"), os.path.join(d, name, "patch.diff")] + checks,
                       capture_output=True, text=True, env=dict(os.environ, DDSV_ALT_SLOT=str(10 + slot)))
    try:
        summ = json.loads(t.stdout.strip().splitlines()[-1])
    except Exception:
        print(name, "ERROR", t.stdout[-300:], t.stderr[-300:], flush=True); continue
    for c in checks:
        old = meta["checks"][c].split(" ")[0]; new = summ.get(c, "?")
        flag = "" if old == new else "   <-- CHANGED"
        print(f"{kind}/{name} {c}: recorded {old}, now {new}{flag}", flush=True)
