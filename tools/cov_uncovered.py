#!/usr/bin/env python3
"""tools/cov_uncovered.py FILE...  — prints the line ranges of /repo/src/FILE that no case executed (from .scratch/cov/show)."""
import os, re, sys
ROOT = os.path.dirname(os.path.dirname(os.path.abspath(__file__)))
for f in sys.argv[1:]:
    p = os.path.join(ROOT, ".scratch", "cov", "show", f.replace("/", "__") + ".txt")
    rng = []
    for ln in open(p):
        m = re.match(r"\s*(\d+)\|\s*([0-9.kMG]*)\|(.*)", ln)
        if not m: continue
        n, c, src = int(m.group(1)), m.group(2), m.group(3)
        if c == "0":
            if rng and rng[-1][1] == n - 1: rng[-1][1] = n; rng[-1][2].append(src)
            else: rng.append([n, n, [src]])
    print(f"== {f}")
    for a, b, src in rng:
        print(f"  {a}-{b}: " + " | ".join(s.strip() for s in src[:3])[:200])
