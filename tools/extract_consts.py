#!/usr/bin/env python3
"""tools/extract_consts.py [REPO]   — the translator half of the tie for tuning constants.

Parses the literal tuning constants of the library out of REPO/src (default /repo) and prints the Lean module
`DdsModel/SrcConsts.lean`. check.py regenerates that file from the current working tree on EVERY run before it
builds the theorem modules, so the theorems that mention these constants (C07 `default_covers_4k`, `need_bound`,
`line_buffer_size`; C14 `family_table`, the split rule) are re-checked by the kernel against what the code says
now: retuning a buffer or fragment size re-proves them for the new value (or fails the build if, say, the default
memory limit no longer covers 4K x 4K), instead of merely disagreeing with a pinned number.

A constant that can no longer be found (renamed, computed) is an extraction failure: exit 3 with its name — check.py
then reports the correspondence as broken (no-failing-input-found) and keeps the last generated file.
"""
import os, re, sys

def ev(expr):
    e = expr.strip().replace("_", "")
    e = re.sub(r"\b(usize|u64|u32|u8)\b", "", e).replace(" as ", "")
    if not re.fullmatch(r"[0-9\s*+\-/()<>]+", e):
        raise ValueError(f"not a literal integer expression: {expr!r}")
    return int(eval(e.replace("/", "//"), {"__builtins__": {}}))

def log2_exact(x, what):
    if x <= 0 or x & (x - 1):
        raise ValueError(f"{what}: {x} is not a power of two (PreferredFragmentSize::new takes log2)")
    return x.bit_length() - 1

def extract(repo):
    rd = lambda p: open(os.path.join(repo, "src", p)).read()
    out = {}
    rw = rd("decode/read_write.rs")
    m = re.search(r"const TARGET_BUFFER_SIZE: usize = ([^;]+);", rw)
    if not m: raise KeyError("decode/read_write.rs: TARGET_BUFFER_SIZE")
    out["TARGET_BUFFER_SIZE"] = ev(m.group(1).split("//")[0])
    m = re.search(r"const BUFFER_BYTES: usize = ([^;]+);", rw)
    if not m: raise KeyError("decode/read_write.rs: ChannelConversionBuffer::BUFFER_BYTES")
    out["CONVERSION_BUFFER_BYTES"] = ev(m.group(1))
    dm = rd("decode/mod.rs")
    m = re.search(r"impl Default for DecodeOptions\s*\{.*?memory_limit:\s*([^,\n]+),", dm, flags=re.S)
    if not m: raise KeyError("decode/mod.rs: DecodeOptions::default().memory_limit")
    out["DEFAULT_MEMORY_LIMIT"] = ev(m.group(1))
    bc = rd("encode/bc.rs")
    for name in ("BC1", "BC4", "BC7"):
        m = re.search(r"const %s_FRAGMENT_SIZE: PreferredFragmentSize\s*=\s*PreferredFragmentSize::new\(([^)]*)\);" % name, bc)
        if not m: raise KeyError(f"encode/bc.rs: {name}_FRAGMENT_SIZE")
        vals = [ev(x) for x in m.group(1).split(",") if x.strip()]
        if len(vals) != 3: raise KeyError(f"encode/bc.rs: {name}_FRAGMENT_SIZE arity")
        for q, v in zip(("FAST", "HIGH", "UNREASONABLE"), vals):
            out[f"{name}_FRAG_LOG2_{q}"] = log2_exact(v, f"{name}_FRAGMENT_SIZE")
    if not re.search(r"const BC3_FRAGMENT_SIZE: PreferredFragmentSize\s*=\s*BC1_FRAGMENT_SIZE\.combine\(BC4_FRAGMENT_SIZE\);", bc):
        raise KeyError("encode/bc.rs: BC3_FRAGMENT_SIZE = BC1.combine(BC4)")
    # The staging-buffer sizes and report cadences of the ENCODER loops are found by function-level patterns; a refactor
    # that computes one of them from named constants, or moves it, is not recognised. Unlike the constants above these
    # only parameterise the trapping mirrors of C15 (the write totals are tied by C10 / C15 / C14 on every run), so an
    # unrecognised form falls back, for this group only, to the values generated last (a pinned model, as before these
    # constants were extracted) and says so on stderr — check.py records the note in the evidence.
    try:
        extract_encoder_loops(rd, out, bc)
    except (KeyError, ValueError) as e:
        prev = {}
        here = os.path.join(os.path.dirname(os.path.dirname(os.path.abspath(__file__))), "lean", "DdsModel", "DdsModel", "SrcConsts.lean")
        if os.path.exists(here):
            prev = {m.group(1): int(m.group(2)) for m in re.finditer(r"^def (\w+) : Nat := (\d+)", open(here).read(), flags=re.M)}
        missing = [k for k in ENCODER_LOOP_NAMES if k not in prev]
        if missing:
            raise KeyError(f"{e}; no previous value for {missing[0]}")
        for k in ENCODER_LOOP_NAMES:
            out[k] = prev[k]
        sys.stderr.write(f"FALLBACK encoder-loop constants: {e}\n")
    return out

ENCODER_LOOP_NAMES = ["UNC_REPORT_FREQUENCY", "UNIVERSAL_BUFFER_PIXELS", "DITHER_BUFFER_PIXELS", "DITHER_ENCODED_ELEM_BYTES",
                      "DITHER_ERROR_PADDING", "UNTYPED_BUFFER_BYTES", "COPY_BUFFER_BYTES", "SUBSAMPLE_BUFFER_PIXELS",
                      "SUBSAMPLE_ENCODED_BLOCKS", "SUBSAMPLE_REPORT_FREQUENCY", "BIPLANAR_REPORT_PIXELS",
                      "BC_REPORT_FREQUENCY_FAST", "BC_REPORT_FREQUENCY_NORMAL", "BC_REPORT_FREQUENCY_HIGH",
                      "BC_REPORT_FREQUENCY_UNREASONABLE"]

PRIM_SIZE = {"u8": 1, "u16": 2, "u32": 4, "u64": 8, "f32": 4}

def fn_body(src, head, what):
    """the text of the function whose signature starts with `head` (up to the next top-level `fn `/`macro_rules!`)"""
    i = src.find(head)
    if i < 0: raise KeyError(f"{what}: `{head}` not found")
    m = re.search(r"^(?:pub(?:\([a-z]+\))? )?(?:fn |macro_rules!|type |const )", src[i + len(head):], flags=re.M)
    return src[i:i + len(head) + (m.start() if m else len(src))]

def extract_encoder_loops(rd, out, bc):
    """staging-buffer sizes and report cadences of the encoder loops (C15 `*_trapfree`, TrapEnc*.lean)"""
    def one(body, pat, what, names=None):
        m = re.search(pat, body)
        if not m: raise KeyError(what)
        e = m.group(1)
        for k, v in (names or {}).items():
            e = re.sub(r"\b%s\b" % k, str(v), e)
        return ev(e)
    un = rd("encode/uncompressed.rs")
    out["UNC_REPORT_FREQUENCY"] = one(un, r"const REPORT_FREQUENCY: usize = ([^;]+);", "encode/uncompressed.rs: REPORT_FREQUENCY")
    b = fn_body(un, "fn uncompressed_universal<", "encode/uncompressed.rs")
    out["UNIVERSAL_BUFFER_PIXELS"] = one(b, r"const BUFFER_PIXELS: usize = ([^;]+);", "uncompressed_universal: BUFFER_PIXELS")
    b = fn_body(un, "fn uncompressed_universal_dither(", "encode/uncompressed.rs")
    out["DITHER_BUFFER_PIXELS"] = one(b, r"const BUFFER_PIXELS: usize = ([^;]+);", "uncompressed_universal_dither: BUFFER_PIXELS")
    m = re.search(r"type EncodedBufferType = (\w+);", b)
    if not m or m.group(1) not in PRIM_SIZE: raise KeyError("uncompressed_universal_dither: EncodedBufferType")
    out["DITHER_ENCODED_ELEM_BYTES"] = PRIM_SIZE[m.group(1)]
    out["DITHER_ERROR_PADDING"] = one(b, r"let error_padding = ([^;]+);", "uncompressed_universal_dither: error_padding")
    b = fn_body(un, "fn uncompressed_untyped(", "encode/uncompressed.rs")
    m = re.search(r"let mut raw_buffer = \[0_(\w+); ([^\]]+)\];", b)
    if not m or m.group(1) not in PRIM_SIZE: raise KeyError("uncompressed_untyped: raw_buffer")
    out["UNTYPED_BUFFER_BYTES"] = PRIM_SIZE[m.group(1)] * ev(m.group(2))
    b = fn_body(rd("encode/encoder.rs"), "fn copy_directly(", "encode/encoder.rs")
    out["COPY_BUFFER_BYTES"] = one(b, r"&mut \[0_u8; ([^\]]+)\]", "copy_directly: staging buffer")
    b = fn_body(rd("encode/sub_sampled.rs"), "fn uncompressed_universal_subsample<", "encode/sub_sampled.rs")
    bp = one(b, r"const BUFFER_PIXELS: usize = ([^;]+);", "uncompressed_universal_subsample: BUFFER_PIXELS")
    out["SUBSAMPLE_BUFFER_PIXELS"] = bp
    out["SUBSAMPLE_ENCODED_BLOCKS"] = one(b, r"let mut encoded_buffer = \[EncodedBlock::default\(\); ([^\]]+)\];",
                                          "uncompressed_universal_subsample: encoded_buffer", {"BUFFER_PIXELS": bp})
    out["SUBSAMPLE_REPORT_FREQUENCY"] = one(b, r"chunk_index % ([0-9_]+) == 0", "uncompressed_universal_subsample: report cadence")
    b = fn_body(rd("encode/bi_planar.rs"), "fn bi_planar_universal<", "encode/bi_planar.rs")
    out["BIPLANAR_REPORT_PIXELS"] = one(b, r"let report_frequency = usize::div_ceil\(([^,]+),", "bi_planar_universal: report_frequency")
    b = fn_body(bc, "fn block_universal<", "encode/bc.rs")
    for q in ("Fast", "Normal", "High", "Unreasonable"):
        out[f"BC_REPORT_FREQUENCY_{q.upper()}"] = one(b, r"CompressionQuality::%s => ([0-9_]+)," % q, f"block_universal: report_frequency {q}")

def render(c):
    lines = ["/-", "GENERATED by tools/extract_consts.py from the library source on every check run — do not edit.",
             "Literal tuning constants of /repo/src; the theorems that mention them are re-checked against these values.",
             "-/", "namespace Dds.SrcConsts", ""]
    doc = {
        "TARGET_BUFFER_SIZE": "`UntypedLineBuffer::new::TARGET_BUFFER_SIZE` (src/decode/read_write.rs)",
        "CONVERSION_BUFFER_BYTES": "`ChannelConversionBuffer::BUFFER_BYTES` (src/decode/read_write.rs)",
        "DEFAULT_MEMORY_LIMIT": "`DecodeOptions::default().memory_limit` (src/decode/mod.rs)",
    }
    doc.update({
        "UNC_REPORT_FREQUENCY": "`REPORT_FREQUENCY` (src/encode/uncompressed.rs): progress cadence of the chunk loops",
        "UNIVERSAL_BUFFER_PIXELS": "`uncompressed_universal::BUFFER_PIXELS` (src/encode/uncompressed.rs): both staging buffers",
        "DITHER_BUFFER_PIXELS": "`uncompressed_universal_dither::BUFFER_PIXELS` (src/encode/uncompressed.rs)",
        "DITHER_ENCODED_ELEM_BYTES": "`size_of::<EncodedBufferType>()` of `uncompressed_universal_dither` (also its alignment)",
        "DITHER_ERROR_PADDING": "`error_padding` of `uncompressed_universal_dither`",
        "UNTYPED_BUFFER_BYTES": "byte length of `raw_buffer` in `uncompressed_untyped` (src/encode/uncompressed.rs)",
        "COPY_BUFFER_BYTES": "the staging buffer `[0_u8; N]` of `copy_directly` (src/encode/encoder.rs)",
        "SUBSAMPLE_BUFFER_PIXELS": "`uncompressed_universal_subsample::BUFFER_PIXELS` (src/encode/sub_sampled.rs)",
        "SUBSAMPLE_ENCODED_BLOCKS": "length of `encoded_buffer` in `uncompressed_universal_subsample` (`BUFFER_PIXELS / 2`)",
        "SUBSAMPLE_REPORT_FREQUENCY": "progress cadence `chunk_index % N` of `uncompressed_universal_subsample`",
        "BIPLANAR_REPORT_PIXELS": "numerator of `report_frequency` in `bi_planar_universal` (src/encode/bi_planar.rs)",
    })
    for q in ("FAST", "NORMAL", "HIGH", "UNREASONABLE"):
        doc[f"BC_REPORT_FREQUENCY_{q}"] = "`report_frequency` of `block_universal` (src/encode/bc.rs)"
    for k, v in c.items():
        d = doc.get(k, "log2 of an argument of `PreferredFragmentSize::new` (src/encode/bc.rs)")
        lines += [f"/-- {d} -/", f"def {k} : Nat := {v}", ""]
    lines += ["end Dds.SrcConsts", ""]
    return "\n".join(lines)

if __name__ == "__main__":
    repo = sys.argv[1] if len(sys.argv) > 1 else "/repo"
    try:
        sys.stdout.write(render(extract(repo)))
    except (KeyError, ValueError) as e:
        sys.stderr.write(f"extraction failed: {e}\n")
        sys.exit(3)
