#!/usr/bin/env python3
"""Writes MANIFEST.json from tools/props.py (single source of truth for claimed checks)."""
import json, os, sys
ROOT = os.path.dirname(os.path.dirname(os.path.abspath(__file__)))
sys.path.insert(0, os.path.join(ROOT, "tools"))
import props

ALL = [f"C{i:02d}" for i in range(1, 21)]  # C03x etc. are development sub-checks merged into their parent
checks = []
for pid in ALL:
    if pid not in props.PROPS:
        continue
    c = props.PROPS[pid]
    checks.append({
        "property_id": pid,
        "quick_cmd": f"./check.py {pid} --tier quick",
        "thorough_cmd": f"./check.py {pid} --tier thorough",
        "evidence_file": f"evidence/{pid}.json",
        "replay_cmd_template": f"./check.py {pid} --replay {{path}}",
        "engine": "lean4-proof+correspondence",
        "level_claimed": {
            "category": c.get("level", "proof"),
            "text": c["claim"],
            "design_ref": f"DESIGN.md §5 {pid}",
        },
        "level_note": c["note"],
        "technique": c.get("technique", "Lean 4 theorems over a hand-written model + differential correspondence check against the real library"),
    })
na = [{"property_id": p, "reason": props.NOT_YET.get(p, "check not built yet in this revision; will be claimed when its model, theorems and correspondence exist")}
      for p in ALL if p not in props.PROPS]
m = {
    "version": 1,
    "setup_cmd": "./setup.sh",
    "hooks": {
        "guard": "cfg(dds_verif)",
        "enable": "RUSTFLAGS='--cfg dds_verif' (set in harness/.cargo/config.toml; the harness crate depends on /repo by path)",
        "baseline_off_cmd": "cd /repo && cargo test --workspace --no-fail-fast --offline",
        "source_commits": props.HOOK_COMMITS,
        "add_only": True,
    },
    "engines": [{
        "name": "lean4-proof+correspondence",
        "path": "check.py",
        "serves_properties": [c["property_id"] for c in checks],
        "kind_free_text": "Lean 4.33 theorems (lean/DdsModel/DdsModel/Theorems/Cxx.lean) over hand-written executable models; "
                          "the models are tied to /repo on every run by running the compiled Lean driver and the real library "
                          "(harness/, rebuilt from /repo's working tree) on the same generated cases and diffing; an independent "
                          "oracle in the harness evaluates the property on the implementation to produce failing inputs",
    }],
    "checks": checks,
    "not_applicable": na,
    "notes": "See DESIGN.md. Fix commits in /repo are listed in known_findings.json (status=fixed).",
}
json.dump(m, open(os.path.join(ROOT, "MANIFEST.json"), "w"), indent=1)
print(f"{len(checks)} checks, {len(na)} not claimed")
