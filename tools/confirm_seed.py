#!/usr/bin/env python3
"""Confirms a seeded change independently in a scratch worktree of /repo (outside /repo and /verif):

  tools/confirm_seed.py OUTDIR            (OUTDIR contains patch.diff, demo.rs, README.md)

1. demo passes on the unchanged tree, 2. patch applies and compiles, 3. the existing suite still passes with it
(except the two racy tests), 4. demo fails with it. Prints a JSON verdict on the last line.
"""
import json, os, re, shutil, subprocess, sys
out = os.path.abspath(sys.argv[1])
WT = "/tmp/mw/verify" + os.environ.get("DDSV_ALT_SLOT", "")   # a slot allows several confirmations at once
def sh(cmd, cwd=WT, timeout=3600):
    e = dict(os.environ); e["CARGO_NET_OFFLINE"] = "true"
    p = subprocess.run(cmd, cwd=cwd, env=e, capture_output=True, text=True, timeout=timeout)
    return p.returncode, p.stdout + p.stderr
if not os.path.isdir(WT):
    rc, o = sh(["git", "-C", "/repo", "worktree", "add", "--detach", WT, "HEAD"], cwd="/")
    if rc != 0:
        print(o); sys.exit(2)
sh(["git", "checkout", "-q", "--detach", subprocess.run(["git", "-C", "/repo", "rev-parse", "HEAD"], capture_output=True, text=True).stdout.strip()])
sh(["git", "checkout", "--", "."]); sh(["git", "clean", "-fdq", "src", "tests", "examples"])
demo = open(os.path.join(out, "demo.rs")).read()
is_test = "#[test]" in demo
if is_test:
    dst = os.path.join(WT, "tests", "demo_x.rs"); run = ["cargo", "test", "--offline", "--test", "demo_x"]
else:
    os.makedirs(os.path.join(WT, "examples"), exist_ok=True)
    dst = os.path.join(WT, "examples", "demo_x.rs"); run = ["cargo", "run", "--offline", "--example", "demo_x"]
needs_cfg = "verif_hook" in demo
env_flags = {"RUSTFLAGS": "--cfg dds_verif"} if needs_cfg else {}
def run_demo():
    e = dict(os.environ); e["CARGO_NET_OFFLINE"] = "true"; e.update(env_flags)
    p = subprocess.run(run, cwd=WT, env=e, capture_output=True, text=True, timeout=3600)
    return p.returncode, (p.stdout + p.stderr)[-1500:]
res = {}
shutil.copy(os.path.join(out, "demo.rs"), dst)
rc, o = run_demo(); res["demo_unchanged_passes"] = (rc == 0)
if rc != 0: res["demo_unchanged_output"] = o
rc, o = sh(["git", "apply", os.path.join(out, "patch.diff")]); res["patch_applies"] = (rc == 0)
if rc == 0:
    rc, o = run_demo(); res["demo_with_patch_fails"] = (rc != 0); res["demo_with_patch_tail"] = o[-600:]
    os.remove(dst)
    rc, o = sh(["cargo", "test", "--workspace", "--no-fail-fast", "--offline"])
    failed = sorted(set(re.findall(r"^test (\S+) \.\.\. FAILED", o, flags=re.M)))
    failed = [f for f in failed if f not in ("decode_all_dds_files", "decode_bc6_fuzz_hdr")]
    res["suite_failures"] = failed
    res["suite_ok"] = (not failed) and ("test result" in o) and ("error: could not compile" not in o) and ("error[" not in o)
else:
    res["apply_error"] = o[-500:]
sh(["git", "checkout", "--", "."]); sh(["git", "clean", "-fdq", "src", "tests", "examples"])
res["confirmed"] = bool(res.get("demo_unchanged_passes") and res.get("patch_applies") and res.get("demo_with_patch_fails") and res.get("suite_ok"))
print(json.dumps(res))
