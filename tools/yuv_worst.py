#!/usr/bin/env python3-vt
"""Search for the YUV triples on which the binary32 evaluation of yuv8/yuv10/yuv16 (src/color/formats.rs) is
farthest from the ideal value (numpy float32 = one rounding per operator, the same arithmetic as the library and as
the Lean model Conv.yuvSums).  UNTRUSTED helper: its only use is to pick boundary cases for the generator of
harness/src/c04.rs (section Y) and the numbers quoted in notes/C04.md; the bound itself is proved in
Proofs/YuvErr.lean for all inputs.  yuv8: all 2^24 triples; yuv10 / yuv16: 2^25 random triples each.
Run: tools/yuv_worst.py   (≈ 2.5 min, needs numpy: python3-vt)"""
import numpy as np, sys
f=np.float32
KY,KRV,KGU,KGV,KBU=f(1.164383),f(1.596027),f(0.391762),f(0.812968),f(2.017232)
IY,IRV,IGU,IGV,IBU=1164383,1596027,391762,812968,2017232
def run(bits, ys, us, vs):
    oy,oc,mx={8:(16,128,255),10:(64,512,1023),16:(4096,32768,65535)}[bits]
    F=f(1.0)/f(mx)
    y=ys.astype(np.float32); u=us.astype(np.float32); v=vs.astype(np.float32)
    c=y-f(oy); d=u-f(oc); e=v-f(oc)
    yc=KY*c
    r=yc+KRV*e; g=yc-KGU*d-KGV*e; b=yc+KBU*d
    ci=ys.astype(np.int64)-oy; di=us.astype(np.int64)-oc; ei=vs.astype(np.int64)-oc
    ideal=[IY*ci+IRV*ei, IY*ci-IGU*di-IGV*ei, IY*ci+IBU*di]   # units 1e-6 * (1/mx normalised -> divide by mx*1e6)
    res={}
    for name,s,idn in zip("RGB",[r,g,b],ideal):
        fo=np.clip(s*F,f(0),f(1))
        den=mx*10**6
        idc=np.clip(idn,0,den)     # clamped numerator, value idc/den
        # f32 error
        err=np.abs(fo.astype(np.float64)-idc/den)   # float64 approx good enough for ranking
        res[name]=(s,fo,idc,den,err)
    return res
def codes(fo,maxc):
    x=fo*f(maxc)+f(0.5)
    return np.minimum(np.floor(x).astype(np.int64),maxc)
def main8():
    bits=8
    Y,U,V=np.meshgrid(np.arange(256),np.arange(256),np.arange(256),indexing='ij')
    ys,us,vs=Y.ravel(),U.ravel(),V.ravel()
    res=run(8,ys,us,vs)
    for name,(s,fo,idc,den,err) in res.items():
        i=np.argmax(err); print(name,'max f32 err',err[i]*2**24,'u at',ys[i],us[i],vs[i])
        # n8 direct
        k=np.clip(np.floor(s+f(0.5)),0,255).astype(np.int64)
        # nearest (tie up): floor((2*255*idc + den)/(2*den))
        near=(2*255*idc+den)//(2*den)
        bad=np.nonzero(k!=near)[0]
        print(name,'n8 direct: not nearest count',len(bad))
        for j in bad[:5]: print('   ',ys[j],us[j],vs[j],'code',k[j],'near',near[j],'scaled',255*idc[j]/den)
        # distance from tie for smallest margin: |255*idc/den - (k±0.5)|
        sc=255*idc/den
        frac=np.abs(sc-np.floor(sc)-0.5)
        inside=(idc>0)&(idc<den)
        fr=np.where(inside,frac,1.0)
        o=np.argsort(fr)[:8]
        print(name,'closest to U8 tie:',[(int(ys[j]),int(us[j]),int(vs[j]),float(fr[j])) for j in o])
        k16=codes(fo,65535); near16=(2*65535*idc+den)//(2*den)
        bad=np.nonzero(k16!=near16)[0]
        print(name,'n16: not nearest count',len(bad))
        sc=65535*idc/den
        dist=np.abs(k16-sc)-0.5
        o=np.argsort(-dist)[:8]
        print(name,'n16 worst over-distance (codes):',[(int(ys[j]),int(us[j]),int(vs[j]),int(k16[j]),float(dist[j])) for j in o])

def main16():
    rng=np.random.default_rng(12345)
    out={}
    for bits in (10,16):
        W=1<<bits; mx=W-1
        N=1<<25
        ys=rng.integers(0,W,N); us=rng.integers(0,W,N); vs=rng.integers(0,W,N)
        res=run(bits,ys,us,vs)
        for name,(s,fo,idc,den,err) in res.items():
            i=np.argmax(err); print(bits,name,'max f32 err',err[i]*2**24,'u at',ys[i],us[i],vs[i])
            for maxc in (255,65535):
                k=codes(fo,maxc); sc=maxc*idc/den
                near=(2*maxc*idc+den)//(2*den)
                bad=np.nonzero(k!=near)[0]
                dist=np.abs(k-sc)-0.5
                o=np.argsort(-dist)[:4]
                print(bits,name,maxc,'not nearest',len(bad),'of',N,'worst over-distance',[(int(ys[j]),int(us[j]),int(vs[j]),int(k[j]),float(dist[j])) for j in o])

if __name__=="__main__":
    main8()
    main16()
