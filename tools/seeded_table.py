#!/usr/bin/env python3
"""Regenerates the seeded-change table of DESIGN.md §9 from seeded/*/meta.json."""
import glob, json, os, re
ROOT = os.path.dirname(os.path.dirname(os.path.abspath(__file__)))
rows = []
for m in sorted(glob.glob(os.path.join(ROOT, "seeded", "*", "meta.json"))):
    d = json.load(open(m))
    caught = ", ".join(f"{k}: {v}" for k, v in sorted(d.get("checks", {}).items()) if v != "silent") or "MISSED"
    rows.append(f"| {os.path.basename(os.path.dirname(m))} | {d['property']} | {d['site']} | {d['needs']} | {caught} |")
table = "| seeded change | breaks | site | needs to manifest | caught by |\n|---|---|---|---|---|\n" + "\n".join(rows) if rows else "(no confirmed seeded change recorded yet)"
p = os.path.join(ROOT, "DESIGN.md")
s = open(p).read()
s = re.sub(r"<!-- SEEDED-TABLE -->.*<!-- /SEEDED-TABLE -->", "<!-- SEEDED-TABLE -->\n" + table + "\n<!-- /SEEDED-TABLE -->", s, flags=re.S)
open(p, "w").write(s)
print(len(rows), "rows")
