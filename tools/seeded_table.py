#!/usr/bin/env python3
"""Regenerates the seeded-change table of DESIGN.md §9 from seeded/*/meta.json."""
import glob, json, os, re
ROOT = os.path.dirname(os.path.dirname(os.path.abspath(__file__)))
rows = []
for m in sorted(glob.glob(os.path.join(ROOT, "seeded", "*", "meta.json"))):
    d = json.load(open(m))
    caught = ", ".join(f"{k}: {v}" for k, v in sorted(d.get("checks", {}).items()) if v != "silent") or "MISSED"
    rows.append(f"| {os.path.basename(os.path.dirname(m))} | {d['property']} | {d['site']} | {d['needs']} | {caught} |")
table = "| seeded change | breaks | site | needs to manifest | caught by |\n|---|---|---|---|---|\n" + "\n".join(rows) if rows else "(no confirmed seeded change recorded yet)"
p = os.path.join(ROOT, "DESIGN.md")
s = open(p).read()
s = re.sub(r"<!-- SEEDED-TABLE -->.*<!-- /SEEDED-TABLE -->", "<!-- SEEDED-TABLE -->\n" + table + "\n<!-- /SEEDED-TABLE -->", s, flags=re.S)
# property-preserving changes (harmless/*): which checks stay quiet
hrows = []
for m in sorted(glob.glob(os.path.join(ROOT, "harmless", "*", "meta.json"))):
    d = json.load(open(m))
    verdicts = ", ".join(f"{k}: {'quiet' if v.split(' ')[0] == 'silent' else 'ALARM (' + v + ')'}" for k, v in sorted(d.get("checks", {}).items()))
    what = d["what"].lstrip("# ").replace("|", "/")
    hrows.append(f"| {os.path.basename(os.path.dirname(m))} | {d['property']} | {what} | {verdicts} | {d.get('comment', '')} |")
htable = "| harmless change | property | what changes | checks | comment |\n|---|---|---|---|---|\n" + "\n".join(hrows) if hrows else "(none recorded yet)"
s = re.sub(r"<!-- HARMLESS-TABLE -->.*<!-- /HARMLESS-TABLE -->", "<!-- HARMLESS-TABLE -->\n" + htable + "\n<!-- /HARMLESS-TABLE -->", s, flags=re.S)
open(p, "w").write(s)
print(len(rows), "rows;", len(hrows), "harmless rows")
