#!/usr/bin/env python3
"""tools/automutate.py [--n N] [--seed S] [--slot K] [--files f1,f2,...]

Mechanical mutation run (NOT a registered command; a measurement of the checks' sensitivity next to the hand-seeded
changes of seeded/): picks random single-token mutations in the source files the properties are anchored in, keeps
those that still compile AND pass the existing test suite ("survivors" of the tests), and runs the checks of the
properties anchored in that file against each survivor. Results are appended to .scratch/automut/results.jsonl:
  {"file","line","before","after","tests":"pass|fail|nocompile","checks":{Cxx: verdict}}
A survivor on which every check is silent is either an equivalent mutant or a blind spot — to be looked at by hand.
Uses scratch worktrees /tmp/mw/auto<slot> (tests) and /tmp/mw/alt<slot> (checks, via DDSV_ALT_REPO).
"""
import json, os, random, re, subprocess, sys, time
ROOT = os.path.dirname(os.path.dirname(os.path.abspath(__file__)))
args = sys.argv[1:]
def opt(name, default):
    if name in args:
        return args[args.index(name) + 1]
    return default
N = int(opt("--n", "50")); SEED = int(opt("--seed", "1")); SLOT = opt("--slot", "7")
ONLY = opt("--files", "")
WT = "/tmp/mw/auto" + SLOT
OUTDIR = os.path.join(ROOT, ".scratch", "automut"); os.makedirs(OUTDIR, exist_ok=True)
RES = os.path.join(OUTDIR, "results.jsonl")

props = [json.loads(l) for l in open(os.path.join(ROOT, "properties.jsonl"))]
file_props = {}
for p in props:
    for f in p["anchors"]["files"]:
        file_props.setdefault(f, []).append(p["id"])
files = sorted(f for f in file_props if os.path.exists("/repo/" + f))
if ONLY:
    files = [f for f in files if f in ONLY.split(",")]

OPS = [
    (r" < ", " <= "), (r" <= ", " < "), (r" > ", " >= "), (r" >= ", " > "), (r" == ", " != "), (r" != ", " == "),
    (r" \+ 1\b", " + 2"), (r" \+ 1\b", ""), (r" - 1\b", ""), (r" - 1\b", " - 2"),
    (r" \+ ", " - "), (r" - ", " + "), (r" \* ", " + "), (r" / ", " * "), (r" % ", " / "),
    (r"\.min\(", ".max("), (r"\.max\(", ".min("), (r" && ", " || "), (r" \|\| ", " && "),
    (r"checked_add", "wrapping_add"), (r"checked_mul", "wrapping_mul"), (r"checked_sub", "wrapping_sub"),
    (r"saturating_sub", "wrapping_sub"), (r"saturating_add", "wrapping_add"), (r"saturating_mul", "wrapping_mul"),
    (r"div_ceil\(([^()]*)\)", r"div_floor_x(\1)"),   # replaced below by plain division
    (r" >> (\d+)", lambda m: f" >> {int(m.group(1)) + 1}"), (r" << (\d+)", lambda m: f" << {int(m.group(1)) + 1}"),
    (r"\btrue\b", "false"), (r"\bfalse\b", "true"),
    (r"\b(\d+)\b", lambda m: str(int(m.group(1)) + 1)),
    (r"\.is_some\(\)", ".is_none()"), (r"\.is_none\(\)", ".is_some()"),
    (r"\?;", ".ok();"), (r"!([a-z_]+\.)", r"\1"),
    (r"as u8\b", "as u16 as u8"), (r" \| ", " & "), (r" & ", " | "),
]

def candidates(path):
    src = open(path).read().split("\n")
    out = []
    in_test = False; depth_doc = False
    for i, ln in enumerate(src):
        s = ln.strip()
        if s.startswith("#[cfg(test)]"):
            in_test = True
        if in_test:
            continue
        if s.startswith("//") or s.startswith("#[") or s.startswith("use ") or "debug_assert" in s or s.startswith("///"):
            continue
        if "const " in s and "fn" not in s and ("&[" in s or "[u8" in s):
            continue
        code = ln.split("//")[0]
        for k, (pat, rep) in enumerate(OPS):
            for m in re.finditer(pat, code):
                out.append((i, k, m.start()))
    return src, out

def sh(cmd, cwd, env=None, timeout=3600):
    e = dict(os.environ, CARGO_NET_OFFLINE="true")
    if env: e.update(env)
    try:
        p = subprocess.run(cmd, cwd=cwd, env=e, capture_output=True, text=True, timeout=timeout)
        return p.returncode, p.stdout + p.stderr
    except subprocess.TimeoutExpired:
        return 124, "timeout"

head = subprocess.run(["git", "-C", "/repo", "rev-parse", "HEAD"], capture_output=True, text=True).stdout.strip()
if not os.path.isdir(WT):
    subprocess.run(["git", "-C", "/repo", "worktree", "add", "--detach", WT, head], check=True, capture_output=True)
sh(["git", "checkout", "--", "."], WT)

rng = random.Random(SEED)
pool = []
for f in files:
    src, c = candidates(os.path.join(WT, f))
    pool += [(f, i, k, pos) for (i, k, pos) in c]
rng.shuffle(pool)
# spread: at most ~N/len(files)*3 per file
done = 0; per_file = {}
for (f, i, k, pos) in pool:
    if done >= N:
        break
    if per_file.get(f, 0) >= max(3, 3 * N // max(1, len(files))):
        continue
    path = os.path.join(WT, f)
    src = open(path).read().split("\n")
    ln = src[i]
    pat, rep = OPS[k]
    m = re.compile(pat).match(ln, pos) or re.compile(pat).search(ln, pos)
    if not m:
        continue
    new = ln[:m.start()] + (m.expand(rep) if isinstance(rep, str) else rep(m)) + ln[m.end():]
    new = re.sub(r"\.div_floor_x\(([^()]*)\)", r" / (\1)", new)
    if new == ln:
        continue
    src2 = list(src); src2[i] = new
    open(path, "w").write("\n".join(src2))
    rec = {"file": f, "line": i + 1, "before": ln.strip(), "after": new.strip(), "seed": SEED}
    t0 = time.time()
    rc, out = sh(["cargo", "test", "--workspace", "--no-fail-fast", "--offline"], WT, timeout=1500)
    failed = sorted(set(re.findall(r"^test (\S+) \.\.\. FAILED", out, flags=re.M)) - {"decode_all_dds_files", "decode_bc6_fuzz_hdr"})
    if "error: could not compile" in out or "error[" in out or (rc != 0 and "test result" not in out):
        rec["tests"] = "nocompile"
    elif failed or rc == 124:
        rec["tests"] = "fail"; rec["failed"] = failed[:5]
    else:
        rec["tests"] = "pass"
    rec["test_s"] = round(time.time() - t0)
    if rec["tests"] == "pass":
        patch = subprocess.run(["git", "-C", WT, "diff", "--", "src"], capture_output=True, text=True).stdout
        pfile = os.path.join(OUTDIR, f"m_{SLOT}_{SEED}_{done}.diff"); open(pfile, "w").write(patch)
        rec["patch"] = pfile
        pids = sorted(set(file_props[f]))
        t1 = time.time()
        p = subprocess.run([os.path.join(ROOT, "tools", "try_patch.py"), pfile] + pids, capture_output=True, text=True,
                           env=dict(os.environ, DDSV_ALT_SLOT=SLOT, DDSV_SEARCH_S="0"))
        try:
            rec["checks"] = json.loads(p.stdout.strip().splitlines()[-1])
        except Exception:
            rec["checks"] = {"error": p.stdout[-300:] + p.stderr[-300:]}
        rec["check_s"] = round(time.time() - t1)
        done += 1
        per_file[f] = per_file.get(f, 0) + 1
    open(RES, "a").write(json.dumps(rec) + "\n")
    print(json.dumps(rec), flush=True)
    sh(["git", "checkout", "--", "."], WT)
    sh(["git", "checkout", "--", "test-data"], WT)
